/* An allocator for p_mem_set_vtable that behaves like a debugging allocator of an application: fresh blocks are filled with 0xA5
 * (nothing is zero unless the library zeroes it - p_malloc0 does, through the table's malloc plus memset), released blocks are
 * overwritten before they go back to the C library.  A field the library forgets to initialise, or reads after the release, then
 * holds garbage in every run, not only when the heap happens to be recycled. */
#ifndef GALLOC_H
#define GALLOC_H
#include <plibsys.h>
#include <stdlib.h>
#include <string.h>
typedef struct { size_t n; size_t pad; } GaHdr;
static int ga_fail_next;      /* > 0: the n-th allocation from now on is refused once (memory runs out inside a call) */
static ppointer ga_malloc (psize n) { GaHdr *h; if (ga_fail_next > 0 && --ga_fail_next == 0) return NULL; h = malloc (sizeof (GaHdr) + n); if (!h) return NULL; h->n = n; memset (h + 1, 0xA5, n); return h + 1; }
static void ga_free (ppointer p) { GaHdr *h; if (!p) return; h = (GaHdr *) p - 1; memset (p, 0xA5, h->n); free (h); }
static ppointer ga_realloc (ppointer p, psize n) { ppointer q; size_t o; if (!p) return ga_malloc (n); q = ga_malloc (n); if (!q) return NULL; o = ((GaHdr *) p - 1)->n; memcpy (q, p, o < n ? o : n); ga_free (p); return q; }
static int ga_install (void) { PMemVTable vt; vt.f_malloc = ga_malloc; vt.f_realloc = ga_realloc; vt.f_free = ga_free; return p_mem_set_vtable (&vt) ? 1 : 0; }
#endif
