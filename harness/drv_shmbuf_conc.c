/* Concurrent PShmBuffer driver (C08 atomicity): producers and consumers, each with its own handle
 * of the same name, as threads of one process or as forked processes.
 * usage: drv_shmbuf_conc <tracebase> <name> <cap> <nprod> <ncons> <episodes> <ops> <proc:0|1> <seed> */
#include <plibsys.h>
#include <sys/wait.h>
#include "vtmt.h"

static const char *base, *name; static int cap, nprod, ncons, episodes, ops, procs; static unsigned seed;
static unsigned rnd (unsigned *s) { *s = *s * 1103515245u + 12345u; return (*s >> 16) & 0x7fff; }

static void do_write (PShmBuffer *b, int t, const unsigned char *d, int n) {
	int i; pssize r;
	VTM_BEGIN (); VTM_PUT ("\"e\":\"call\",\"t\":%d,\"op\":\"w\",\"len\":%d,\"data\":[", t, n);
	for (i = 0; i < n; i++) VTM_PUT ("%s%d", i ? "," : "", d[i]);
	VTM_PUT ("]"); VTM_END ();
	r = p_shm_buffer_write (b, (ppointer) d, (psize) n, NULL);
	VTM ("\"e\":\"ret\",\"t\":%d,\"res\":%ld,\"data\":[]", t, (long) r);
}
static int do_read (PShmBuffer *b, int t, int n) {
	unsigned char buf[64]; int i; pint r;
	VTM ("\"e\":\"call\",\"t\":%d,\"op\":\"r\",\"len\":%d,\"data\":[]", t, n);
	r = p_shm_buffer_read (b, buf, (psize) n, NULL);
	VTM_BEGIN (); VTM_PUT ("\"e\":\"ret\",\"t\":%d,\"res\":%d,\"data\":[", t, (int) r);
	for (i = 0; i < r; i++) VTM_PUT ("%s%d", i ? "," : "", buf[i]);
	VTM_PUT ("]"); VTM_END ();
	return r;
}
static void *actor (void *arg) {
	int t = (int) (long) arg, ep, i; unsigned s = seed * 7919u + (unsigned) t * 104729u; unsigned char cnt = 0;
	PShmBuffer *b;
	if (procs) p_libsys_init ();
	vtm_open (base, t);
	b = p_shm_buffer_new (name, (psize) cap, NULL);
	if (!b) { fprintf (stderr, "actor %d: buffer open failed\n", t); exit (3); }
	for (ep = 0; ep < episodes; ep++) {
		vtm_barrier ();
		for (i = 0; i < ops; i++) {
			if (t <= nprod) {
				unsigned char d[8]; int n = 1 + (int) (rnd (&s) % (unsigned) (cap < 5 ? cap + 1 : 5)), k;
				for (k = 0; k < n; k++) d[k] = (unsigned char) (((t & 3) << 6) | (cnt++ & 63));
				do_write (b, t, d, n);
			} else
				do_read (b, t, 1 + (int) (rnd (&s) % (unsigned) (cap + 1)));
			if (rnd (&s) % 4 == 0) sched_yield ();
		}
		vtm_barrier ();   /* quiescent: main drains */
		vtm_barrier ();
	}
	p_shm_buffer_free (b);
	vtm_close ();
	if (procs) p_libsys_shutdown ();
	return NULL;
}
int main (int argc, char **argv) {
	int n, i, ep; pthread_t th[32]; pid_t pids[32]; PShmBuffer *b;
	if (argc < 10) return 2;
	base = argv[1]; name = argv[2]; cap = atoi (argv[3]); nprod = atoi (argv[4]); ncons = atoi (argv[5]);
	episodes = atoi (argv[6]); ops = atoi (argv[7]); procs = atoi (argv[8]); seed = (unsigned) atoi (argv[9]);
	n = nprod + ncons;
	vtm_init (n + 1);
	p_libsys_init (); p_libsys_shutdown (); p_libsys_init ();      /* the library is used after a shutdown / re-initialisation cycle */
	vtm_open (base, 0);
	b = p_shm_buffer_new (name, (psize) cap, NULL);
	if (!b) { fprintf (stderr, "main: buffer create failed\n"); return 3; }
	p_shm_buffer_clear (b);
	for (i = 1; i <= n; i++) {
		if (procs) { fflush (NULL); if ((pids[i] = fork ()) == 0) { vtm_fp = NULL; actor ((void *) (long) i); _exit (0); } }
		else pthread_create (&th[i], NULL, actor, (void *) (long) i);
	}
	for (ep = 0; ep < episodes; ep++) {
		VTM ("\"e\":\"Epoch\"");
		vtm_barrier ();
		vtm_barrier ();
		while (do_read (b, 0, cap) > 0) ;
		VTM ("\"e\":\"Drained\",\"used\":%ld", (long) p_shm_buffer_get_used_space (b, NULL));
		vtm_barrier ();
	}
	for (i = 1; i <= n; i++) { if (procs) { int st; waitpid (pids[i], &st, 0); if (st) { fprintf (stderr, "child %d status %d\n", i, st); return 3; } } else pthread_join (th[i], NULL); }
	p_shm_buffer_take_ownership (b);
	p_shm_buffer_free (b);
	vtm_close ();
	p_libsys_shutdown ();
	return 0;
}
