/* ndjson trace emitter shared by all drivers. One global sequence per process; events are
 * written under a mutex so that file order == sequence order. */
#ifndef VTRACE_H
#define VTRACE_H
#include <stdio.h>
#include <stdlib.h>
#include <stdarg.h>
#include <string.h>
#include <pthread.h>
#include <unistd.h>

static FILE *vt_fp;
static pthread_mutex_t vt_mx = PTHREAD_MUTEX_INITIALIZER;
static long vt_seq;
static long vt_limit = 0, vt_count = 0; /* events per file chunk (0 = unlimited) */

#include <signal.h>
/* a crashing library must not take the recorded prefix with it: flush the trace on fatal signals
 * (the sanitizers are told to abort, so their reports arrive here as SIGABRT) */
static void vt_crash (int sig) { if (vt_fp) fflush (vt_fp); _exit (128 + sig); }
static void vt_open (const char *path) {
	vt_fp = fopen (path, "w");
	if (!vt_fp) { perror (path); exit (2); }
	setvbuf (vt_fp, NULL, _IOFBF, 1 << 20);
	signal (SIGSEGV, vt_crash); signal (SIGBUS, vt_crash); signal (SIGABRT, vt_crash); signal (SIGFPE, vt_crash);
}
static void vt_close (void) { if (vt_fp) { fflush (vt_fp); fclose (vt_fp); vt_fp = NULL; } }
/* emit one complete json line; fmt must produce a full object */
static void vt_emit (const char *fmt, ...) {
	va_list ap;
	pthread_mutex_lock (&vt_mx);
	va_start (ap, fmt);
	vfprintf (vt_fp, fmt, ap);
	va_end (ap);
	fputc ('\n', vt_fp);
	++vt_seq; ++vt_count;
	pthread_mutex_unlock (&vt_mx);
}
/* unlocked pieces for building long lines from one thread */
#define VT(...) fprintf (vt_fp, __VA_ARGS__)
#define VT_END() do { fputc ('\n', vt_fp); ++vt_seq; ++vt_count; } while (0)
static void vt_die (const char *msg) { fprintf (stderr, "driver error: %s\n", msg); if (vt_fp) fflush (vt_fp); _exit (3); }
#endif
