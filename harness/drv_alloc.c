/* C18 driver: every allocation of every representative program is made to fail (once / from there on).
 * usage: drv_alloc list                                   -> program names
 *        drv_alloc run <prog> <tracefile> <tmpdir> <prefix> [kmax]  -> child per (k, mode); one concatenated trace
 * A program is a sequence of public calls bracketed by begin/end events; it checks through the public API that a
 * failing call left the objects consistent and pre-existing state unchanged, and frees everything at the end. */
#define _GNU_SOURCE
#include <plibsys.h>
#include <sys/wait.h>
#include <sys/stat.h>
#include <sys/socket.h>
#include <netinet/in.h>
#include <errno.h>
#include <stdint.h>
#include <dlfcn.h>
#include "vtrace.h"
#if defined (__SANITIZE_ADDRESS__)
#include <sanitizer/lsan_interface.h>
#endif

/* ------------------------------------------------------------------ failing, tracking allocator */
static long alloc_no, fail_k; static int fail_mode; static int refused_in_call; static int tracking; static int nofail; static int ever_refused;
#define MAXLIVE 65536
static void *lptr[MAXLIVE]; static long lid[MAXLIVE]; static int nlive; static long next_id = 1;
static pthread_mutex_t amx = PTHREAD_MUTEX_INITIALIZER;
static long last_ok_id;      /* id of the last block handed out */
static long id_of (void *p, int remove) { int i; for (i = nlive - 1; i >= 0; i--) if (lptr[i] == p) { long id = lid[i]; if (remove) { lptr[i] = lptr[nlive - 1]; lid[i] = lid[nlive - 1]; nlive--; } return id; } return -1; }
/* allocations made by the program's own observation code (nofail) are neither counted nor refused */
static int refuse (void) { int r; if (nofail) return 0; alloc_no++; r = (fail_mode == 1 && alloc_no == fail_k) || (fail_mode == 2 && alloc_no >= fail_k); if (r) ever_refused = 1; return r; }
#define OBS(stmt) do { nofail++; stmt; nofail--; } while (0)
static ppointer a_malloc (psize n) {
	void *p; long id;
	if (!tracking) return malloc (n);
	pthread_mutex_lock (&amx);
	if (refuse ()) { refused_in_call = 1; vt_emit ("{\"e\":\"alloc\",\"id\":0,\"size\":%ld,\"ok\":0,\"n\":%ld}", (long) n, alloc_no); pthread_mutex_unlock (&amx); return NULL; }
	p = malloc (n); id = next_id++; lptr[nlive] = p; lid[nlive++] = id; last_ok_id = id;
	vt_emit ("{\"e\":\"alloc\",\"id\":%ld,\"size\":%ld,\"ok\":1,\"n\":%ld}", id, (long) n, alloc_no);
	pthread_mutex_unlock (&amx);
	return p;
}
static ppointer a_realloc (ppointer old, psize n) {
	void *p; long oid, id;
	if (!tracking) return realloc (old, n);
	pthread_mutex_lock (&amx);
	oid = old ? id_of (old, 0) : 0;
	if (refuse ()) { refused_in_call = 1; vt_emit ("{\"e\":\"realloc\",\"old\":%ld,\"id\":0,\"ok\":0}", oid); pthread_mutex_unlock (&amx); return NULL; }
	if (old) id_of (old, 1);
	p = realloc (old, n); id = next_id++; lptr[nlive] = p; lid[nlive++] = id;
	vt_emit ("{\"e\":\"realloc\",\"old\":%ld,\"id\":%ld,\"ok\":1}", oid, id);
	pthread_mutex_unlock (&amx);
	return p;
}
static void a_free (ppointer p) {
	long id;
	if (!tracking || !p) { free (p); return; }
	pthread_mutex_lock (&amx);
	id = id_of (p, 1);
	vt_emit ("{\"e\":\"free\",\"id\":%ld}", id);
	pthread_mutex_unlock (&amx);
	if (id > 0) free (p);          /* an unknown / already freed pointer is reported, not handed to libc */
}
static const char *curf;
static void B (const char *f) { curf = f; refused_in_call = 0; vt_emit ("{\"e\":\"begin\",\"f\":\"%s\"}", f); }
/* ok: the call reported success; cons: the objects are consistent; pres: pre-existing state unchanged */
/* after an earlier refusal the objects may legitimately be in a degraded state (a pair that was not stored, a shorter
 * list), so a later call may report failure for that reason: only the call in which the refusal happened is judged on
 * its result; crashes, leaks and inconsistencies are judged everywhere */
static void E (int ok, int cons, int pres) { vt_emit ("{\"e\":\"end\",\"f\":\"%s\",\"res\":\"%s\",\"consistent\":%d,\"preserved\":%d}", curf, (ok || (ever_refused && !refused_in_call)) ? "ok" : (refused_in_call ? "fail" : "fail-without-refusal"), cons, pres); }
/* a call that legitimately degrades (partial list, entry without name ...) when memory runs out */
static void ED (int ok, int cons, int pres) { vt_emit ("{\"e\":\"end\",\"f\":\"%s\",\"res\":\"%s\",\"consistent\":%d,\"preserved\":%d}", curf, (ok && !refused_in_call) || (ever_refused && !refused_in_call) ? "ok" : (refused_in_call ? "degraded" : "fail-without-refusal"), cons, pres); }
static const char *tmpdir, *prefix;

/* ------------------------------------------------------------------ programs */
static pint icmp (pconstpointer a, pconstpointer b, ppointer d) { (void) d; return (pint) ((intptr_t) a - (intptr_t) b); }
static int tree_ok (PTree *t, const long *val, int n) { int k, cnt = 0; for (k = 1; k <= n; k++) { long v = (long) p_tree_lookup (t, (pconstpointer) (intptr_t) k); if (v != val[k]) return 0; if (val[k]) cnt++; } return p_tree_get_nnodes (t) == cnt; }
static void prog_tree (int type) {
	PTree *t; long val[16] = { 0 }; int i; static const int order[] = { 8, 4, 12, 2, 6, 10, 14, 1, 3, 5, 7 };
	B ("p_tree_new_full"); t = p_tree_new_full ((PTreeType) type, icmp, NULL, NULL, NULL); E (t != NULL, 1, 1);
	if (!t) return;
	for (i = 0; i < 11; i++) {
		int k = order[i]; long nv = 100 + k, got;
		B ("p_tree_insert"); p_tree_insert (t, (ppointer) (intptr_t) k, (ppointer) nv);
		got = (long) p_tree_lookup (t, (pconstpointer) (intptr_t) k);
		if (got == nv) val[k] = nv;
		ED (got == nv, got == nv || got == 0, tree_ok (t, val, 15));
	}
	B ("p_tree_insert"); p_tree_insert (t, (ppointer) (intptr_t) 4, (ppointer) 999L); val[4] = (long) p_tree_lookup (t, (pconstpointer) (intptr_t) 4); E (val[4] == 999 || val[4] == 104 || val[4] == 0, 1, tree_ok (t, val, 15));
	B ("p_tree_remove"); { pboolean had = val[8] != 0, r = p_tree_remove (t, (pconstpointer) (intptr_t) 8); if (r) val[8] = 0; E (r == had, 1, tree_ok (t, val, 15)); }
	B ("p_tree_clear"); p_tree_clear (t); E (p_tree_get_nnodes (t) == 0, 1, 1);
	B ("p_tree_free"); p_tree_free (t); E (1, 1, 1);
}
static void prog_tree_bst (void) { prog_tree (0); } static void prog_tree_rb (void) { prog_tree (1); } static void prog_tree_avl (void) { prog_tree (2); }
static int list_len (PList *l) { int n = 0; for (; l; l = l->next) n++; return n; }
static void prog_hash_list (void) {
	PHashTable *h; PList *l = NULL, *r; int i, stored = 0;
	B ("p_hash_table_new"); h = p_hash_table_new (); E (h != NULL, 1, 1);
	if (h) {
		for (i = 0; i < 5; i++) { ppointer k = (ppointer) (intptr_t) (1 + 101 * i); int before = stored; B ("p_hash_table_insert"); p_hash_table_insert (h, k, (ppointer) (intptr_t) (i + 1));
			if (p_hash_table_lookup (h, k) == (ppointer) (intptr_t) (i + 1)) stored++; ED (stored == before + 1, 1, 1); }
		B ("p_hash_table_keys"); r = p_hash_table_keys (h); ED (list_len (r) == stored, list_len (r) <= stored, 1); p_list_free (r);
		B ("p_hash_table_values"); r = p_hash_table_values (h); ED (list_len (r) == stored, list_len (r) <= stored, 1); p_list_free (r);
		B ("p_hash_table_lookup_by_value"); r = p_hash_table_lookup_by_value (h, (ppointer) (intptr_t) 1, NULL); ED (list_len (r) == (p_hash_table_lookup (h, (ppointer) (intptr_t) 1) == (ppointer) (intptr_t) 1), list_len (r) <= 1, 1); p_list_free (r);
		B ("p_hash_table_remove"); p_hash_table_remove (h, (ppointer) (intptr_t) 102); E (p_hash_table_lookup (h, (ppointer) (intptr_t) 102) == (ppointer) -1, 1, 1);
		B ("p_hash_table_free"); p_hash_table_free (h); E (1, 1, 1);
	}
	for (i = 1; i <= 4; i++) { int n0 = list_len (l); B (i & 1 ? "p_list_append" : "p_list_prepend"); l = (i & 1) ? p_list_append (l, (ppointer) (intptr_t) i) : p_list_prepend (l, (ppointer) (intptr_t) i); ED (list_len (l) == n0 + 1, list_len (l) == n0 || list_len (l) == n0 + 1, 1); }
	B ("p_list_reverse"); l = p_list_reverse (l); E (1, 1, 1);
	B ("p_list_remove"); l = p_list_remove (l, (ppointer) (intptr_t) 2); E (1, 1, 1);
	B ("p_list_free"); p_list_free (l); E (1, 1, 1);
}
static void prog_ini (void) {
	char path[256]; FILE *f; PIniFile *ini; PList *l; pchar *s; pboolean ok;
	snprintf (path, sizeof path, "%s/a.ini", tmpdir);
	f = fopen (path, "w"); fputs ("[s1]\nk1 = v1\nk2 = {a b c}\n; c\n[s2]\nk3 = 7\nk3 = 8\n[empty]\n", f); fclose (f);
	B ("p_ini_file_new"); ini = p_ini_file_new (path); E (ini != NULL, 1, 1);
	if (!ini) return;
	B ("p_ini_file_parse"); ok = p_ini_file_parse (ini, NULL);
	{ int cons = 1; PList *secs, *it;
	  nofail++;
	  secs = p_ini_file_sections (ini);
	  for (it = secs; it; it = it->next) { PList *ks = p_ini_file_keys (ini, it->data), *k; if (!ks) cons = 0; for (k = ks; k; k = k->next) if (!p_ini_file_is_key_exists (ini, it->data, k->data)) cons = 0; p_list_foreach (ks, (PFunc) p_free, NULL); p_list_free (ks); }
	  p_list_foreach (secs, (PFunc) p_free, NULL); p_list_free (secs);
	  nofail--;
	  ED (ok, cons, 1); }
	B ("p_ini_file_sections"); l = p_ini_file_sections (ini); ED (l != NULL, 1, 1); p_list_foreach (l, (PFunc) p_free, NULL); p_list_free (l);
	B ("p_ini_file_keys"); l = p_ini_file_keys (ini, "s1"); ED (l != NULL, 1, 1); p_list_foreach (l, (PFunc) p_free, NULL); p_list_free (l);
	B ("p_ini_file_parameter_string"); s = p_ini_file_parameter_string (ini, "s2", "k3", "dflt"); ED (s != NULL && !strcmp (s, "8"), s == NULL || !strcmp (s, "8") || !strcmp (s, "dflt") || ever_refused, 1); p_free (s);
	B ("p_ini_file_parameter_list"); l = p_ini_file_parameter_list (ini, "s1", "k2"); ED (list_len (l) == 3, list_len (l) <= 3, 1); p_list_foreach (l, (PFunc) p_free, NULL); p_list_free (l);
	B ("p_ini_file_parameter_int"); { pint v = p_ini_file_parameter_int (ini, "s2", "k3", -1); ED (v == 8, v == 8 || v == -1 || ever_refused, 1); }
	B ("p_ini_file_free"); p_ini_file_free (ini); E (1, 1, 1);
}
static void prog_hashes (void) {
	int a;
	for (a = 0; a <= 10; a++) {
		PCryptoHash *h; pchar *s, *sref = NULL; puchar d[64]; psize n = sizeof d;
		B ("p_crypto_hash_new"); h = p_crypto_hash_new ((PCryptoHashType) a); E (h != NULL, 1, 1);
		if (!h) continue;
		B ("p_crypto_hash_update"); p_crypto_hash_update (h, (const puchar *) "abc", 3); E (1, 1, 1);
		/* reference digest of the same message from a second context (observation: never refused) */
		{ PCryptoHash *r; nofail++; r = p_crypto_hash_new ((PCryptoHashType) a); p_crypto_hash_update (r, (const puchar *) "abc", 3); sref = p_crypto_hash_get_string (r); p_crypto_hash_free (r); nofail--; }
		B ("p_crypto_hash_get_string"); s = p_crypto_hash_get_string (h);
		/* whether or not the string could be allocated, the context still holds the digest of "abc": a second read must give it */
		{ pchar *s2; int cons = s == NULL || (sref && !strcmp (s, sref)), pres; nofail++; s2 = p_crypto_hash_get_string (h); pres = s2 && sref && !strcmp (s2, sref); p_free (s2); nofail--; E (s != NULL, cons, pres); }
		p_free (s);
		B ("p_crypto_hash_get_digest"); p_crypto_hash_get_digest (h, d, &n);
		{ char hex[160]; psize i; int same; for (i = 0; i < n && i < 64; i++) sprintf (hex + 2 * i, "%02x", d[i]); hex[2 * (n < 64 ? n : 64)] = 0; same = sref && !strcmp (hex, sref); E (n > 0, same, 1); }
		nofail++; p_free (sref); sref = NULL; nofail--;
		B ("p_crypto_hash_reset"); p_crypto_hash_reset (h); E (1, 1, 1);
		B ("p_crypto_hash_free"); p_crypto_hash_free (h); E (1, 1, 1);
	}
}
static void prog_error_string (void) {
	PError *e, *c, *e2 = NULL; pchar *s, *buf = NULL, *tok; char text[] = "a b  c";
	B ("p_error_new_literal"); e = p_error_new_literal (5, 6, "message"); E (e != NULL && (p_error_get_message (e) != NULL || refused_in_call), 1, 1);
	if (e) {
		B ("p_error_copy"); c = p_error_copy (e); E (c != NULL, 1, p_error_get_code (e) == 5); if (c) p_error_free (c);
		B ("p_error_set_error"); p_error_set_error (e, 7, 8, "other"); ED (p_error_get_message (e) != NULL, p_error_get_code (e) == 7, 1);
		B ("p_error_set_message"); p_error_set_message (e, "third"); ED (p_error_get_message (e) != NULL, 1, p_error_get_code (e) == 7);
		B ("p_error_clear"); p_error_clear (e); E (1, 1, 1);
		B ("p_error_free"); p_error_free (e); E (1, 1, 1);
	}
	B ("p_error_set_error_p"); p_error_set_error_p (&e2, 1, 2, "x"); ED (e2 != NULL, 1, 1); if (e2) p_error_free (e2);
	B ("p_error_new"); e = p_error_new (); E (e != NULL, 1, 1); if (e) p_error_free (e);
	B ("p_strdup"); s = p_strdup ("hello"); E (s != NULL, s == NULL || !strcmp (s, "hello"), 1); p_free (s);
	B ("p_strchomp"); s = p_strchomp ("  hi  "); E (s != NULL, s == NULL || !strcmp (s, "hi"), 1); p_free (s);
	B ("p_strtok"); tok = p_strtok (text, " ", &buf); E (tok != NULL, 1, 1);
	B ("p_strtok"); tok = p_strtok (NULL, " ", &buf); E (tok != NULL, 1, 1);
}
static void prog_dir (void) {
	char d[256], f[300]; PDir *dir; PDirEntry *en; pchar *p; int i, n = 0; FILE *fh;
	snprintf (d, sizeof d, "%s/dd", tmpdir); mkdir (d, 0700);
	for (i = 0; i < 3; i++) { snprintf (f, sizeof f, "%s/f%d", d, i); fh = fopen (f, "w"); if (fh) fclose (fh); }
	snprintf (f, sizeof f, "%s/dangling", d); if (symlink ("/no/such/target", f) != 0 && errno != EEXIST) return;      /* an entry whose stat() fails */
	B ("p_dir_new"); dir = p_dir_new (d, NULL); E (dir != NULL, 1, 1);
	if (!dir) return;
	B ("p_dir_get_path"); p = p_dir_get_path (dir); E (p != NULL, p == NULL || !strcmp (p, d), 1); p_free (p);
	for (i = 0; i < 7; i++) {
		B ("p_dir_get_next_entry"); en = p_dir_get_next_entry (dir, NULL);
		if (en) n++;
		ED (en != NULL || n >= 6, en == NULL || en->name != NULL || refused_in_call, 1);
		if (en) { B ("p_dir_entry_free"); p_dir_entry_free (en); E (1, 1, 1); } else if (!refused_in_call) break;
	}
	B ("p_dir_rewind"); E (p_dir_rewind (dir, NULL), 1, 1);
	B ("p_dir_free"); p_dir_free (dir); E (1, 1, 1);
}
static void prog_sockaddr (void) {
	PSocketAddress *a, *b; struct sockaddr_in sin; pchar *s; struct sockaddr_storage st;
	B ("p_socket_address_new"); a = p_socket_address_new ("127.0.0.1", 80); E (a != NULL, 1, 1);
	if (a) {
		B ("p_socket_address_get_address"); s = p_socket_address_get_address (a); E (s != NULL, s == NULL || !strcmp (s, "127.0.0.1"), 1); p_free (s);
		B ("p_socket_address_to_native"); E (p_socket_address_to_native (a, &st, sizeof st), 1, 1);
		B ("p_socket_address_free"); p_socket_address_free (a); E (1, 1, 1);
	}
	memset (&sin, 0, sizeof sin); sin.sin_family = AF_INET; sin.sin_port = htons (5); sin.sin_addr.s_addr = htonl (INADDR_LOOPBACK);
	B ("p_socket_address_new_from_native"); b = p_socket_address_new_from_native (&sin, sizeof sin); E (b != NULL, 1, 1); if (b) p_socket_address_free (b);
	B ("p_socket_address_new"); b = p_socket_address_new ("::1", 81); E (b != NULL, 1, 1); if (b) p_socket_address_free (b);
	B ("p_socket_address_new"); b = p_socket_address_new ("fe80::1%lo", 82); ED (1, 1, 1); if (b) p_socket_address_free (b);
	B ("p_socket_address_new_any"); b = p_socket_address_new_any (P_SOCKET_FAMILY_INET6, 9); E (b != NULL, 1, 1); if (b) p_socket_address_free (b);
	B ("p_socket_address_new_loopback"); b = p_socket_address_new_loopback (P_SOCKET_FAMILY_INET, 9); E (b != NULL, 1, 1); if (b) p_socket_address_free (b);
}
static void prog_socket (void) {
	PSocket *l, *c = NULL, *s = NULL; PSocketAddress *a, *la = NULL; char buf[16]; pboolean ok;
	B ("p_socket_new"); l = p_socket_new (P_SOCKET_FAMILY_INET, P_SOCKET_TYPE_STREAM, P_SOCKET_PROTOCOL_TCP, NULL); E (l != NULL, 1, 1);
	if (!l) return;
	a = NULL; { int sv = tracking; tracking = 0; a = p_socket_address_new ("127.0.0.1", 0); tracking = sv; }
	B ("p_socket_bind"); ok = p_socket_bind (l, a, FALSE, NULL); E (ok, 1, 1);
	B ("p_socket_listen"); ok = p_socket_listen (l, NULL); E (ok, 1, 1);
	B ("p_socket_get_local_address"); la = p_socket_get_local_address (l, NULL); E (la != NULL, 1, 1);
	if (la) {
		B ("p_socket_new"); c = p_socket_new (P_SOCKET_FAMILY_INET, P_SOCKET_TYPE_STREAM, P_SOCKET_PROTOCOL_TCP, NULL); E (c != NULL, 1, 1);
		if (c) {
			B ("p_socket_connect"); ok = p_socket_connect (c, la, NULL); E (ok, 1, 1);
			if (ok) {
				p_socket_set_timeout (l, 2000);
				B ("p_socket_accept"); s = p_socket_accept (l, NULL); E (s != NULL, 1, p_socket_is_connected (c));
				if (s) {
					PSocketAddress *ra;
					B ("p_socket_get_remote_address"); ra = p_socket_get_remote_address (s, NULL); E (ra != NULL, 1, 1); if (ra) p_socket_address_free (ra);
					B ("p_socket_send"); E (p_socket_send (c, "hi", 2, NULL) == 2, 1, 1);
					p_socket_set_timeout (s, 2000);
					B ("p_socket_receive"); E (p_socket_receive (s, buf, sizeof buf, NULL) == 2, 1, 1);
					B ("p_socket_free"); p_socket_free (s); E (1, 1, 1);
				}
			}
			B ("p_socket_close"); E (p_socket_close (c, NULL), 1, 1);
			B ("p_socket_free"); p_socket_free (c); E (1, 1, 1);
		}
		{ int sv = tracking; tracking = 0; tracking = sv; }
		B ("p_socket_address_free"); p_socket_address_free (la); E (1, 1, 1);
	}
	{ int sv = tracking; tracking = 0; p_socket_address_free (a); tracking = sv; }
	B ("p_socket_free"); p_socket_free (l); E (1, 1, 1);
}
static void prog_ipc (void) {
	char name[128]; PSemaphore *sem; PShm *shm; PShmBuffer *sb; char buf[8];
	snprintf (name, sizeof name, "%s_al", prefix);
	B ("p_semaphore_new"); sem = p_semaphore_new (name, 1, P_SEM_ACCESS_CREATE, NULL); E (sem != NULL, 1, 1);
	if (sem) { B ("p_semaphore_acquire"); E (p_semaphore_acquire (sem, NULL), 1, 1); B ("p_semaphore_release"); E (p_semaphore_release (sem, NULL), 1, 1);
		   B ("p_semaphore_free"); p_semaphore_take_ownership (sem); p_semaphore_free (sem); E (1, 1, 1); }
	B ("p_shm_new"); shm = p_shm_new (name, 256, P_SHM_ACCESS_READWRITE, NULL); E (shm != NULL, 1, 1);
	if (shm) { B ("p_shm_lock"); E (p_shm_lock (shm, NULL), 1, 1); B ("p_shm_unlock"); E (p_shm_unlock (shm, NULL), 1, 1);
		   B ("p_shm_free"); p_shm_take_ownership (shm); p_shm_free (shm); E (1, 1, 1); }
	B ("p_shm_buffer_new"); sb = p_shm_buffer_new (name, 64, NULL); E (sb != NULL, 1, 1);
	if (sb) { B ("p_shm_buffer_write"); E (p_shm_buffer_write (sb, (ppointer) "abc", 3, NULL) == 3, 1, 1); B ("p_shm_buffer_read"); E (p_shm_buffer_read (sb, buf, 8, NULL) == 3, 1, 1);
		  B ("p_shm_buffer_free"); p_shm_buffer_take_ownership (sb); p_shm_buffer_free (sb); E (1, 1, 1); }
}
/* a second handle is attached to a segment / buffer whose creator is alive, and that attach runs out of memory: whatever the call
 * returns, the object that existed before stays what it was - a later opener of the name finds the creator's data, not a fresh object */
static void prog_ipc_attach (void) {
	char name[128]; PShmBuffer *a, *b, *c; PShm *s, *t, *u; int pres, sv;
	snprintf (name, sizeof name, "%s_at", prefix);
	sv = tracking; tracking = 0;
	a = p_shm_buffer_new (name, 64, NULL); if (a) p_shm_buffer_write (a, (ppointer) "hello", 5, NULL);
	tracking = sv;
	if (a) {
		B ("p_shm_buffer_new"); b = p_shm_buffer_new (name, 64, NULL);
		sv = tracking; tracking = 0;
		c = p_shm_buffer_new (name, 64, NULL); pres = c != NULL && p_shm_buffer_get_used_space (c, NULL) == 5 && p_shm_buffer_get_used_space (a, NULL) == 5; if (c) p_shm_buffer_free (c);
		tracking = sv;
		E (b != NULL, 1, pres);
		if (b) { B ("p_shm_buffer_free"); p_shm_buffer_free (b); E (1, 1, 1); }
		sv = tracking; tracking = 0; p_shm_buffer_take_ownership (a); p_shm_buffer_free (a); tracking = sv;
	}
	snprintf (name, sizeof name, "%s_as", prefix);
	sv = tracking; tracking = 0;
	s = p_shm_new (name, 300, P_SHM_ACCESS_READWRITE, NULL); if (s) ((char *) p_shm_get_address (s))[7] = 77;
	tracking = sv;
	if (s) {
		B ("p_shm_new"); t = p_shm_new (name, 300, P_SHM_ACCESS_READONLY, NULL);
		sv = tracking; tracking = 0;
		u = p_shm_new (name, 0, P_SHM_ACCESS_READWRITE, NULL); pres = u != NULL && p_shm_get_size (u) >= 300 && ((char *) p_shm_get_address (u))[7] == 77; if (u) p_shm_free (u);
		tracking = sv;
		E (t != NULL, 1, pres);
		if (t) { B ("p_shm_free"); p_shm_free (t); E (1, 1, 1); }
		sv = tracking; tracking = 0; p_shm_take_ownership (s); p_shm_free (s); tracking = sv;
	}
}
static void prog_sync (void) {
	PMutex *m; PCondVariable *c; PSpinLock *s; PRWLock *r; PTimeProfiler *t;
	B ("p_mutex_new"); m = p_mutex_new (); E (m != NULL, 1, 1); if (m) { B ("p_mutex_lock"); E (p_mutex_lock (m), 1, 1); B ("p_mutex_unlock"); E (p_mutex_unlock (m), 1, 1); B ("p_mutex_free"); p_mutex_free (m); E (1, 1, 1); }
	B ("p_cond_variable_new"); c = p_cond_variable_new (); E (c != NULL, 1, 1); if (c) { B ("p_cond_variable_free"); p_cond_variable_free (c); E (1, 1, 1); }
	B ("p_spinlock_new"); s = p_spinlock_new (); E (s != NULL, 1, 1); if (s) { B ("p_spinlock_lock"); E (p_spinlock_lock (s), 1, 1); B ("p_spinlock_unlock"); E (p_spinlock_unlock (s), 1, 1); B ("p_spinlock_free"); p_spinlock_free (s); E (1, 1, 1); }
	B ("p_rwlock_new"); r = p_rwlock_new (); E (r != NULL, 1, 1);
	if (r) { B ("p_rwlock_reader_lock"); E (p_rwlock_reader_lock (r), 1, 1); B ("p_rwlock_reader_unlock"); E (p_rwlock_reader_unlock (r), 1, 1);
		 B ("p_rwlock_writer_lock"); E (p_rwlock_writer_lock (r), 1, 1); B ("p_rwlock_writer_unlock"); E (p_rwlock_writer_unlock (r), 1, 1); B ("p_rwlock_free"); p_rwlock_free (r); E (1, 1, 1); }
	B ("p_time_profiler_new"); t = p_time_profiler_new (); E (t != NULL, 1, 1); if (t) { B ("p_time_profiler_free"); p_time_profiler_free (t); E (1, 1, 1); }
}
static volatile int thr_ran;
static ppointer thr_fn (ppointer arg) { (void) arg; thr_ran = 1; return NULL; }
static void prog_thread (void) {
	PUThreadKey *k; PUThread *t;
	B ("p_uthread_local_new"); k = p_uthread_local_new (NULL); E (k != NULL, 1, 1);
	if (k) { long keyblk; int got; last_ok_id = 0;
		 /* the native key (and the block holding it) is created lazily by whichever TLS call comes first */
		 B ("p_uthread_set_local"); p_uthread_set_local (k, (ppointer) 5); got = p_uthread_get_local (k) == (ppointer) 5; keyblk = last_ok_id; ED (got, 1, 1);
		 B ("p_uthread_set_local"); p_uthread_set_local (k, NULL); if (!keyblk) keyblk = last_ok_id; ED (1, 1, 1);
		 B ("p_uthread_local_free"); p_uthread_local_free (k); E (1, 1, 1);
		 /* documented: p_uthread_local_free "doesn't remove the TLS key itself" - the block holding the native key stays */
		 if (keyblk) vt_emit ("{\"e\":\"residue\",\"id\":%ld,\"why\":\"native TLS key kept by p_uthread_local_free (documented)\"}", keyblk); }
	B ("p_uthread_create"); thr_ran = 0; t = p_uthread_create ((PUThreadFunc) thr_fn, NULL, TRUE, NULL); E (t != NULL, 1, 1);
	if (t) { pint jr; B ("p_uthread_join"); jr = p_uthread_join (t); E (jr == 0, thr_ran == 1, 1); B ("p_uthread_unref"); p_uthread_unref (t); E (1, 1, 1); }
}
static void prog_loader (void) {
	PLibraryLoader *l; pchar *e;
	B ("p_library_loader_new"); l = p_library_loader_new ("/lib/x86_64-linux-gnu/libm.so.6"); E (l != NULL, 1, 1);
	/* a library nobody else in the process uses: after a failed or finished load it is not resident any more (RTLD_NOLOAD finds nothing) */
	{ static const char *P2 = "/lib/x86_64-linux-gnu/libBrokenLocale.so.1"; PLibraryLoader *l2; void *h; int gone;
	  B ("p_library_loader_new"); l2 = p_library_loader_new (P2);
	  if (l2) { E (1, 1, 1); B ("p_library_loader_free"); p_library_loader_free (l2); l2 = NULL; h = dlopen (P2, RTLD_NOLOAD | RTLD_LAZY); gone = h == NULL; if (h) { dlclose (h); dlclose (h); } E (1, gone, 1); }
	  else { h = dlopen (P2, RTLD_NOLOAD | RTLD_LAZY); gone = h == NULL; if (h) { dlclose (h); dlclose (h); } E (0, gone, 1); } }
	if (l) { B ("p_library_loader_get_symbol"); E (p_library_loader_get_symbol (l, "cos") != NULL, 1, 1);
		 B ("p_library_loader_get_symbol"); ED (p_library_loader_get_symbol (l, "no_such_symbol_") == NULL, 1, 1);
		 B ("p_library_loader_get_last_error"); e = p_library_loader_get_last_error (l); ED (1, 1, 1); p_free (e);
		 B ("p_library_loader_free"); p_library_loader_free (l); E (1, 1, 1); }
}

/* ---- calls that fail for a reason other than memory, with an error out-parameter: the PError is allocated on the failure path ---- */
static int err_ok (PError **e) { int ok = 1; if (*e) { if (p_error_get_message (*e) == NULL && !ever_refused) ok = 0; p_error_free (*e); *e = NULL; } return ok; }
static void prog_errors (void) {
	PError *err = NULL; char path[300], name[128]; PDir *d; PSocket *s; PIniFile *ini; PSemaphore *sem; PShmBuffer *sb; PLibraryLoader *ll; PSocketAddress *a; ppointer m; pboolean r;
	snprintf (path, sizeof path, "%s/no_such_entry", tmpdir);
	B ("p_dir_new"); d = p_dir_new (path, &err); E (d == NULL, err_ok (&err), 1); if (d) p_dir_free (d);
	B ("p_dir_remove"); r = p_dir_remove (path, &err); E (!r, err_ok (&err), 1);
	B ("p_file_remove"); r = p_file_remove (path, &err); E (!r, err_ok (&err), 1);
	B ("p_ini_file_new"); ini = p_ini_file_new (path); E (ini != NULL, 1, 1);
	if (ini) { B ("p_ini_file_parse"); r = p_ini_file_parse (ini, &err); E (!r, err_ok (&err), !p_ini_file_is_parsed (ini)); B ("p_ini_file_free"); p_ini_file_free (ini); E (1, 1, 1); }
	B ("p_socket_new"); s = p_socket_new (P_SOCKET_FAMILY_INET, P_SOCKET_TYPE_STREAM, P_SOCKET_PROTOCOL_TCP, &err); E (s != NULL, err_ok (&err), 1);
	if (s) {
		/* a port nobody listens on */
		int fd = socket (AF_INET, SOCK_STREAM, 0); struct sockaddr_in sin; socklen_t sl = sizeof sin; int sv;
		memset (&sin, 0, sizeof sin); sin.sin_family = AF_INET; sin.sin_addr.s_addr = htonl (INADDR_LOOPBACK);
		bind (fd, (struct sockaddr *) &sin, sizeof sin); getsockname (fd, (struct sockaddr *) &sin, &sl); close (fd);
		sv = tracking; tracking = 0; a = p_socket_address_new_from_native (&sin, sizeof sin); tracking = sv;
		B ("p_socket_connect"); r = p_socket_connect (s, a, &err); E (!r, err_ok (&err), !p_socket_is_connected (s));
		B ("p_socket_send"); E (p_socket_send (s, "x", 1, &err) < 0, err_ok (&err), 1);
		B ("p_socket_close"); E (p_socket_close (s, &err), err_ok (&err), 1);
		B ("p_socket_receive"); { char b[4]; E (p_socket_receive (s, b, 4, &err) < 0, err_ok (&err), 1); }
		B ("p_socket_free"); p_socket_free (s); E (1, 1, 1);
		sv = tracking; tracking = 0; p_socket_address_free (a); tracking = sv;
	}
	B ("p_socket_new_from_fd"); s = p_socket_new_from_fd (-1, &err); E (s == NULL, err_ok (&err), 1);
	B ("p_semaphore_new"); sem = p_semaphore_new (NULL, 1, P_SEM_ACCESS_OPEN, &err); E (sem == NULL, err_ok (&err), 1);
	B ("p_shm_buffer_new"); sb = p_shm_buffer_new (NULL, 16, &err); E (sb == NULL, err_ok (&err), 1);
	snprintf (name, sizeof name, "%s_er", prefix);
	B ("p_shm_new"); { PShm *shm = p_shm_new (name, 0, P_SHM_ACCESS_READWRITE, &err); E (shm == NULL, err_ok (&err), 1); if (shm) { p_shm_take_ownership (shm); p_shm_free (shm); } }
	B ("p_library_loader_new"); ll = p_library_loader_new (path); E (ll == NULL, 1, 1);
	B ("p_library_loader_get_last_error"); { pchar *e = p_library_loader_get_last_error (NULL); ED (1, 1, 1); p_free (e); }
	B ("p_socket_address_new"); a = p_socket_address_new ("not-an-address", 1); E (a == NULL, 1, 1); if (a) p_socket_address_free (a);
	B ("p_mem_mmap"); m = p_mem_mmap (0, &err); E (m == NULL, err_ok (&err), 1);
	B ("p_mem_mmap"); m = p_mem_mmap (8192, &err); E (m != NULL, err_ok (&err), 1);
	if (m) { B ("p_mem_munmap"); r = p_mem_munmap (m, 8192, &err); E (r, err_ok (&err), 1); }
	B ("p_mem_munmap"); r = p_mem_munmap (NULL, 10, &err); E (!r, err_ok (&err), 1);
	B ("p_error_set_error_p"); p_error_set_error_p (&err, 3, 4, "first"); ED (err != NULL, 1, 1);
	B ("p_error_set_error_p"); p_error_set_error_p (&err, 5, 6, "second"); E (1, err == NULL || p_error_get_code (err) == 3 || ever_refused, 1);
	if (err) { PError *c; pint code0 = p_error_get_code (err); B ("p_error_copy"); c = p_error_copy (err); E (c != NULL, c == NULL || p_error_get_code (c) == code0, p_error_get_code (err) == code0); if (c) p_error_free (c);
		   B ("p_error_set_code"); p_error_set_code (err, 9); E (p_error_get_code (err) == 9, 1, 1);
		   B ("p_error_set_native_code"); p_error_set_native_code (err, 10); E (p_error_get_native_code (err) == 10, 1, 1);
		   B ("p_error_free"); p_error_free (err); err = NULL; E (1, 1, 1); }
}
/* ---- datagram sockets with sender address, socket from an existing descriptor, options; every call with an error out-parameter ---- */
static void prog_socket_udp (void) {
	PError *err = NULL; PSocket *a, *b, *c = NULL; PSocketAddress *any, *la = NULL, *from = NULL; char buf[16]; pboolean r; pssize n; int sv, fd2;
	sv = tracking; tracking = 0; any = p_socket_address_new ("127.0.0.1", 0); tracking = sv;
	B ("p_socket_new"); a = p_socket_new (P_SOCKET_FAMILY_INET, P_SOCKET_TYPE_DATAGRAM, P_SOCKET_PROTOCOL_UDP, &err); E (a != NULL, err_ok (&err), 1);
	B ("p_socket_new"); b = p_socket_new (P_SOCKET_FAMILY_INET, P_SOCKET_TYPE_DATAGRAM, P_SOCKET_PROTOCOL_UDP, &err); E (b != NULL, err_ok (&err), 1);
	if (a && b) {
		B ("p_socket_bind"); r = p_socket_bind (b, any, TRUE, &err); E (r, err_ok (&err), 1);
		B ("p_socket_get_local_address"); la = p_socket_get_local_address (b, &err); E (la != NULL, err_ok (&err), 1);
		if (la) {
			B ("p_socket_set_buffer_size"); r = p_socket_set_buffer_size (a, P_SOCKET_DIRECTION_SND, 8192, &err); E (r, err_ok (&err), 1);
			B ("p_socket_io_condition_wait"); r = p_socket_io_condition_wait (a, P_SOCKET_IO_CONDITION_POLLOUT, &err); E (r, err_ok (&err), 1);
			B ("p_socket_send_to"); n = p_socket_send_to (a, la, "xyz", 3, &err); E (n == 3, err_ok (&err), 1);
			if (n == 3) {
				p_socket_set_timeout (b, 2000);
				B ("p_socket_receive_from"); n = p_socket_receive_from (b, &from, buf, sizeof buf, &err);
				/* the datagram is consumed even when the sender's address could not be allocated */
				ED (n == 3 && from != NULL, n == 3 || refused_in_call, err_ok (&err)); if (from) { B ("p_socket_address_free"); p_socket_address_free (from); E (1, 1, 1); }
			}
			p_socket_set_timeout (b, 30);
			B ("p_socket_receive_from"); n = p_socket_receive_from (b, &from, buf, sizeof buf, &err); E (n < 0, err_ok (&err), 1);
			B ("p_socket_address_free"); p_socket_address_free (la); E (1, 1, 1);
		}
		fd2 = dup (p_socket_get_fd (a));
		B ("p_socket_new_from_fd"); c = p_socket_new_from_fd (fd2, &err); E (c != NULL, err_ok (&err), 1);
		if (c) { B ("p_socket_get_local_address"); la = p_socket_get_local_address (c, &err); ED (la != NULL, err_ok (&err), 1); if (la) p_socket_address_free (la);
			 B ("p_socket_free"); p_socket_free (c); E (1, 1, 1); } else close (fd2);
		B ("p_socket_shutdown"); r = p_socket_shutdown (b, TRUE, TRUE, &err); ED (1, err_ok (&err), 1);
		B ("p_socket_close"); r = p_socket_close (b, &err); E (r, err_ok (&err), 1);
		B ("p_socket_send_to"); n = p_socket_send_to (b, any, "q", 1, &err); E (n < 0, err_ok (&err), 1);
	}
	if (a) { B ("p_socket_free"); p_socket_free (a); E (1, 1, 1); }
	if (b) { B ("p_socket_free"); p_socket_free (b); E (1, 1, 1); }
	sv = tracking; tracking = 0; p_socket_address_free (any); tracking = sv;
}
/* ---- threads: full creation call, handle of a thread the library did not create, TLS replace with a notifier, explicit exit ---- */
static volatile int t2_seen, t2_destroyed; static PUThreadKey *t2_key; static volatile long t2_keyblk;
/* the block holding the native key is allocated by whichever TLS call on the key comes first and succeeds (no other allocation happens in these calls) */
#define TLS_CALL(stmt) do { last_ok_id = 0; stmt; if (!t2_keyblk && last_ok_id) t2_keyblk = last_ok_id; } while (0)
static void t2_destroy (ppointer v) { (void) v; t2_destroyed++; }
static ppointer t2_fn (ppointer arg) { (void) arg; t2_seen = p_uthread_current () != NULL; TLS_CALL (p_uthread_set_local (t2_key, (ppointer) 11)); TLS_CALL (p_uthread_replace_local (t2_key, (ppointer) 12)); p_uthread_exit (7); return NULL; }
static void *foreign_fn (void *arg) { PUThread *me = p_uthread_current (); *(int *) arg = me != NULL; if (me) { p_uthread_ref (me); p_uthread_unref (me); } return NULL; }
static void prog_thread2 (void) {
	PUThread *t; pthread_t ft; int fok = -1;
	B ("p_uthread_local_new"); t2_key = p_uthread_local_new (t2_destroy); E (t2_key != NULL, 1, 1);
	if (!t2_key) return;
	B ("p_uthread_create_full"); t2_seen = 0; t2_destroyed = 0; t2_keyblk = 0;
	t = p_uthread_create_full ((PUThreadFunc) t2_fn, NULL, TRUE, P_UTHREAD_PRIORITY_INHERIT, 128 * 1024, "worker"); E (t != NULL, 1, 1);
	if (t) { pint jr; B ("p_uthread_join"); jr = p_uthread_join (t); ED (jr == 7, jr == 7 || ever_refused, 1);
		 B ("p_uthread_set_priority"); ED (p_uthread_set_priority (t, P_UTHREAD_PRIORITY_NORMAL) || 1, 1, 1);
		 B ("p_uthread_unref"); p_uthread_unref (t); E (1, 1, 1); }
	/* a thread created behind the library's back asks for its handle: allocated on demand, released when that thread ends */
	B ("p_uthread_current"); if (pthread_create (&ft, NULL, foreign_fn, &fok) == 0) pthread_join (ft, NULL); ED (fok == 1, 1, 1);
	B ("p_uthread_replace_local"); TLS_CALL (p_uthread_replace_local (t2_key, (ppointer) 21)); ED (1, 1, 1);
	B ("p_uthread_replace_local"); TLS_CALL (p_uthread_replace_local (t2_key, NULL)); ED (1, 1, 1);
	B ("p_uthread_local_free"); p_uthread_local_free (t2_key); E (1, 1, 1);
	if (t2_keyblk) vt_emit ("{\"e\":\"residue\",\"id\":%ld,\"why\":\"native TLS key kept by p_uthread_local_free (documented)\"}", (long) t2_keyblk);
}
/* ---- remaining container / INI entry points ---- */
static pboolean count_cb (ppointer k, ppointer v, ppointer d) { (void) k; (void) v; (*(int *) d)++; return FALSE; }
static void prog_misc (void) {
	PTree *t; int n = 0, i; char path[256]; FILE *f; PIniFile *ini; ppointer m;
	B ("p_tree_new"); t = p_tree_new (P_TREE_TYPE_RB, (PCompareFunc) icmp); E (t != NULL, 1, 1);
	if (t) { for (i = 1; i <= 5; i++) { B ("p_tree_insert"); p_tree_insert (t, (ppointer) (intptr_t) i, (ppointer) (intptr_t) (i * 2)); ED (p_tree_lookup (t, (pconstpointer) (intptr_t) i) != NULL, 1, 1); }
		 B ("p_tree_foreach"); p_tree_foreach (t, count_cb, &n); E (n == p_tree_get_nnodes (t), 1, 1);
		 B ("p_tree_free"); p_tree_free (t); E (1, 1, 1); }
	B ("p_tree_new_with_data"); t = p_tree_new_with_data (P_TREE_TYPE_AVL, icmp, NULL); E (t != NULL, 1, 1); if (t) { B ("p_tree_free"); p_tree_free (t); E (1, 1, 1); }
	snprintf (path, sizeof path, "%s/b.ini", tmpdir);
	f = fopen (path, "w"); fputs ("[n]\nb = true\nd = 2.5\nl = {1 2}\n", f); fclose (f);
	B ("p_ini_file_new"); ini = p_ini_file_new (path); E (ini != NULL, 1, 1);
	if (ini) { pboolean ok; B ("p_ini_file_parse"); ok = p_ini_file_parse (ini, NULL); ED (ok, p_ini_file_is_parsed (ini) == ok, 1);
		   B ("p_ini_file_parameter_boolean"); { pboolean v = p_ini_file_parameter_boolean (ini, "n", "b", FALSE); ED (v, 1, 1); }
		   B ("p_ini_file_parameter_double"); { double v = p_ini_file_parameter_double (ini, "n", "d", -1.0); ED (v == 2.5, v == 2.5 || v == -1.0 || ever_refused, 1); }
		   B ("p_ini_file_free"); p_ini_file_free (ini); E (1, 1, 1); }
	B ("p_malloc"); m = p_malloc (40); E (m != NULL, 1, 1);
	if (m) { ppointer m2; B ("p_realloc"); m2 = p_realloc (m, 4000); E (m2 != NULL, 1, 1); if (m2) m = m2; B ("p_free"); p_free (m); E (1, 1, 1); }
	B ("p_malloc0"); m = p_malloc0 (64); E (m != NULL, m == NULL || ((char *) m)[63] == 0, 1); p_free (m);
}
typedef struct { const char *name; void (*fn) (void); } Prog;
static Prog PROGS[] = { { "tree_bst", prog_tree_bst }, { "tree_rb", prog_tree_rb }, { "tree_avl", prog_tree_avl }, { "hash_list", prog_hash_list }, { "ini", prog_ini }, { "hashes", prog_hashes },
			{ "error_string", prog_error_string }, { "dir", prog_dir }, { "sockaddr", prog_sockaddr }, { "socket", prog_socket }, { "ipc", prog_ipc }, { "ipc_attach", prog_ipc_attach }, { "sync", prog_sync },
			{ "thread", prog_thread }, { "loader", prog_loader },
			{ "errors", prog_errors }, { "socket_udp", prog_socket_udp }, { "thread2", prog_thread2 }, { "misc", prog_misc }, { NULL, NULL } };

/* resources next to the allocator table: mappings of shared-memory objects and open descriptors of the process */
#include <dirent.h>
static int count_shm_maps (void) { FILE *f = fopen ("/proc/self/maps", "r"); char line[512]; int n = 0; if (!f) return -1; while (fgets (line, sizeof line, f)) if (strstr (line, "/dev/shm/")) n++; fclose (f); return n; }
static int count_fds (void) { DIR *d = opendir ("/proc/self/fd"); struct dirent *e; int n = 0; if (!d) return -1; while ((e = readdir (d))) if (e->d_name[0] != '.') n++; closedir (d); return n; }
static int child_run (Prog *pr, long k, int mode, const char *path) {
	PMemVTable vt; int maps0, fds0;
	vt_open (path);
	p_libsys_init ();
	/* warm-up outside the ledger: lazily initialised libc / library state */
	{ PError *w = p_error_new_literal (1, 1, "w"); PUThread *wt; p_error_free (w);
	  wt = p_uthread_create ((PUThreadFunc) thr_fn, NULL, TRUE, NULL); if (wt) { p_uthread_join (wt); p_uthread_unref (wt); } }
	vt.f_malloc = a_malloc; vt.f_realloc = a_realloc; vt.f_free = a_free;
	if (!p_mem_set_vtable (&vt)) return 3;
	maps0 = count_shm_maps (); fds0 = count_fds ();
	fail_k = k; fail_mode = mode; alloc_no = 0; ever_refused = 0; tracking = 1;
	pr->fn ();
	tracking = 0;
	vt_emit ("{\"e\":\"quiesce\",\"allocs\":%ld,\"live\":%d,\"maps\":%d,\"fds\":%d}", alloc_no, nlive, count_shm_maps () - maps0, count_fds () - fds0);
	p_mem_restore_vtable ();
#if defined (__SANITIZE_ADDRESS__)
	/* memory the C library allocated on behalf of a call (resolver results, ...) does not go through the allocator table: blocks that
	 * nothing points to any more are found by the leak checker of the sanitizer build (the ledger's own table keeps its blocks reachable) */
	{ fflush (vt_fp); vt_emit ("{\"e\":\"lsan\",\"leaks\":%d}", __lsan_do_recoverable_leak_check () ? 1 : 0); }
#endif
	fflush (vt_fp);
	{ FILE *f = fopen (path, "a"); (void) f; }
	{ char cnt[300]; FILE *f; snprintf (cnt, sizeof cnt, "%s.count", path); f = fopen (cnt, "w"); if (f) { fprintf (f, "%ld\n", alloc_no); fclose (f); } }
	_exit (0);        /* no p_libsys_shutdown: the ledger covers the program, not the library's own teardown */
}
int main (int argc, char **argv) {
	Prog *pr; long N = 0, k, kmax; int mode; FILE *out; char tmp[512];
	if (argc >= 2 && !strcmp (argv[1], "list")) { for (pr = PROGS; pr->name; pr++) puts (pr->name); return 0; }
	if (argc < 6) return 2;
	for (pr = PROGS; pr->name && strcmp (pr->name, argv[2]); pr++) ;
	if (!pr->name) return 2;
	tmpdir = argv[4]; prefix = argv[5]; kmax = argc > 6 ? atol (argv[6]) : 100000;
	out = fopen (argv[3], "w"); if (!out) return 2;
	snprintf (tmp, sizeof tmp, "%s/child.ndjson", tmpdir);
	for (mode = 0; mode <= 2; mode++) {
		for (k = (mode == 0 ? 0 : 1); k <= (mode == 0 ? 0 : (N < kmax ? N : kmax)); k++) {
			pid_t pid; int st; FILE *c; char line[4096]; char status[64];
			fflush (NULL);
			pid = fork ();
			if (pid == 0) { fclose (out); child_run (pr, k, mode, tmp); _exit (0); }
			waitpid (pid, &st, 0);
			if (WIFEXITED (st) && WEXITSTATUS (st) == 0) strcpy (status, "ok"); else if (WIFSIGNALED (st)) snprintf (status, sizeof status, "signal %d", WTERMSIG (st)); else snprintf (status, sizeof status, "exit %d", WEXITSTATUS (st));
			c = fopen (tmp, "r");
			if (c) { while (fgets (line, sizeof line, c)) if (line[strlen (line) - 1] == '\n' && strchr (line, '}')) fputs (line, out); fclose (c); }
			fprintf (out, "{\"e\":\"child\",\"prog\":\"%s\",\"k\":%ld,\"mode\":%d,\"status\":\"%s\"}\n", pr->name, k, mode, status);
			if (mode == 0) { char cnt[600]; FILE *f; snprintf (cnt, sizeof cnt, "%s.count", tmp); f = fopen (cnt, "r"); if (f) { if (fscanf (f, "%ld", &N) != 1) N = 0; fclose (f); } }
			unlink (tmp);
		}
	}
	fclose (out);
	printf ("%s allocations=%ld\n", pr->name, N);
	return 0;
}
