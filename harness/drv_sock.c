/* PSocket driver (C09 data integrity under retries, C10 modes and life-cycle).
 * usage: drv_sock <script> <trace>
 * script: new H fam(4|6) tcp|udp | bind H | listen H | connect H L | reconnect H L|0 | connectdead H | accept A L | send H n | recv H buflen
 *         sendto H H2 id len | recvfrom H buflen | set H blocking|timeout|keepalive|backlog v | shutdown H r w
 *         close H | free H | getters H | plan call:outcome[,call:outcome..] | bg <op ..> | join | sleepms n | scenario
 * Every API call is a scall event and an sret event (with result, error code, elapsed time, the system calls it made,
 * and a snapshot of all getters). Link-time wrappers log / count the system calls and inject the planned faults. */
#define _GNU_SOURCE
#include <plibsys.h>
#include <sys/socket.h>
#include <netinet/in.h>
#include <poll.h>
#include <fcntl.h>
#include <errno.h>
#include <time.h>
#include <signal.h>
#include "vtrace.h"
#include "galloc.h"

#define MAXS 12
static PSocket *sk[MAXS]; static int sport[MAXS], sfam[MAXS]; static long tx_off[MAXS], rx_off[MAXS];
static unsigned char fbyte (long i) { return (unsigned char) ((i * 7 + (i >> 8) * 13 + (i >> 16) * 17 + 3) & 0xff); }

/* ---- syscall wrappers: counting, logging, fault plan ---- */
static __thread int in_api; static __thread int nsys, npoll; static __thread char syslog_[512]; static __thread int last_poll_timeout = -2;
typedef struct { char call[16]; char out[16]; } PlanE;
static PlanE plan[32]; static int nplan, iplan; static int injected;
static void slog (const char *s) { size_t n = strlen (syslog_); if (n + strlen (s) + 2 < sizeof syslog_) { if (n) strcat (syslog_, " "); strcat (syslog_, s); } }
/* returns 0 = pass through, 1 = fail with errno set, 2 = short transfer (len in *k) */
static int consult (const char *call, long *k) {
	if (!in_api) return 0;
	nsys++; slog (call);
	if (iplan < nplan && !strcmp (plan[iplan].call, call)) {
		const char *o = plan[iplan++].out; injected++;
		if (!strcmp (o, "EINTR")) { errno = EINTR; slog ("!EINTR"); return 1; }
		if (!strcmp (o, "EAGAIN")) { errno = EAGAIN; slog ("!EAGAIN"); return 1; }
		if (!strncmp (o, "SHORT", 5)) { *k = atol (o + 5); slog ("!SHORT"); return 2; }
		/* a signal that arrives after the call has been waiting for a while: the wait lasts N ms, then reports EINTR */
		if (!strncmp (o, "LATE", 4)) { struct timespec ts; long ms = atol (o + 4); ts.tv_sec = ms / 1000; ts.tv_nsec = (ms % 1000) * 1000000L; while (nanosleep (&ts, &ts) == -1 && errno == EINTR) ; errno = EINTR; slog ("!EINTR"); return 1; }
	}
	return 0;
}
int __real_poll (struct pollfd *, nfds_t, int);
int __wrap_poll (struct pollfd *f, nfds_t n, int t) { long k; if (in_api) { npoll++; last_poll_timeout = t; } if (consult ("poll", &k) == 1) return -1; return __real_poll (f, n, t); }
ssize_t __real_send (int, const void *, size_t, int);
ssize_t __wrap_send (int fd, const void *b, size_t n, int fl) { long k = 0; int c = consult ("send", &k); if (c == 1) return -1; if (c == 2 && (size_t) k < n) n = (size_t) k; return __real_send (fd, b, n, fl); }
ssize_t __real_recv (int, void *, size_t, int);
ssize_t __wrap_recv (int fd, void *b, size_t n, int fl) { long k = 0; int c = consult ("recv", &k); if (c == 1) return -1; if (c == 2 && (size_t) k < n) n = (size_t) k; return __real_recv (fd, b, n, fl); }
ssize_t __real_sendto (int, const void *, size_t, int, const struct sockaddr *, socklen_t);
ssize_t __wrap_sendto (int fd, const void *b, size_t n, int fl, const struct sockaddr *a, socklen_t al) { long k = 0; int c = consult ("sendto", &k); if (c == 1) return -1; return __real_sendto (fd, b, n, fl, a, al); }
ssize_t __real_recvfrom (int, void *, size_t, int, struct sockaddr *, socklen_t *);
ssize_t __wrap_recvfrom (int fd, void *b, size_t n, int fl, struct sockaddr *a, socklen_t *al) { long k = 0; int c = consult ("recvfrom", &k); if (c == 1) return -1; return __real_recvfrom (fd, b, n, fl, a, al); }
int __real_connect (int, const struct sockaddr *, socklen_t);
int __wrap_connect (int fd, const struct sockaddr *a, socklen_t al) { long k; if (consult ("connect", &k) == 1) return -1; return __real_connect (fd, a, al); }
int __real_accept (int, struct sockaddr *, socklen_t *);
int __wrap_accept (int fd, struct sockaddr *a, socklen_t *al) { long k; if (consult ("accept", &k) == 1) return -1; return __real_accept (fd, a, al); }
int __real_close (int); int __wrap_close (int fd) { long k; consult ("close", &k); return __real_close (fd); }
int __real_shutdown (int, int); int __wrap_shutdown (int fd, int how) { long k; consult ("shutdown", &k); return __real_shutdown (fd, how); }
int __real_bind (int, const struct sockaddr *, socklen_t); int __wrap_bind (int fd, const struct sockaddr *a, socklen_t al) { long k; consult ("bind", &k); return __real_bind (fd, a, al); }
int __real_listen (int, int); int __wrap_listen (int fd, int b) { long k; consult ("listen", &k); return __real_listen (fd, b); }
int __real_setsockopt (int, int, int, const void *, socklen_t); int __wrap_setsockopt (int fd, int l, int o, const void *v, socklen_t n) { long k; consult ("setsockopt", &k); return __real_setsockopt (fd, l, o, v, n); }
int __real_getsockopt (int, int, int, void *, socklen_t *); int __wrap_getsockopt (int fd, int l, int o, void *v, socklen_t *n) { long k; consult ("getsockopt", &k); return __real_getsockopt (fd, l, o, v, n); }

#include <sys/time.h>
static volatile long nsig; static void on_alarm (int x) { (void) x; nsig++; }
static void storm (long usec) {
	struct itimerval it; struct sigaction sa;
	memset (&sa, 0, sizeof sa); sa.sa_handler = on_alarm; sa.sa_flags = 0;     /* no SA_RESTART */
	sigaction (SIGALRM, &sa, NULL);
	it.it_interval.tv_sec = 0; it.it_interval.tv_usec = usec; it.it_value = it.it_interval;
	setitimer (ITIMER_REAL, &it, NULL);
}
static double now_ms (void) { struct timespec ts; clock_gettime (CLOCK_MONOTONIC, &ts); return ts.tv_sec * 1e3 + ts.tv_nsec * 1e-6; }
static void getters (int h) {
	PSocket *s = sk[h];
	if (!s) { VT ("\"g\":[]"); return; }
	VT ("\"g\":[%d,%d,%d,%d,%d,%d,%d]", p_socket_is_closed (s) ? 1 : 0, p_socket_is_connected (s) ? 1 : 0, p_socket_get_blocking (s) ? 1 : 0,
	    (int) p_socket_get_timeout (s), p_socket_get_keepalive (s) ? 1 : 0, (int) p_socket_get_listen_backlog (s), p_socket_get_fd (s) < 0 ? -1 : 1);
}
static PSocketAddress *loop_addr (int fam, int port) { return p_socket_address_new (fam == 6 ? "::1" : "127.0.0.1", (puint16) port); }
static int port_owner (int port) { int i; for (i = 1; i < MAXS; i++) if (sk[i] && sport[i] == port) return i; return 0; }

/* raw filler connections: occupy the accept queue of listener L (nobody accepts) until a fresh connection attempt stays pending */
static int fillfd[16], nfill;
static void fill_clear (void) { while (nfill > 0) __real_close (fillfd[--nfill]); }
static int fill_listener (int l) {
	PSocketAddress *a = loop_addr (sfam[l], sport[l]); struct sockaddr_storage ss; psize al = p_socket_address_get_native_size (a); int pending = 0;
	memset (&ss, 0, sizeof ss); p_socket_address_to_native (a, &ss, al); p_socket_address_free (a);
	while (nfill < 16 && !pending) {
		int fd = socket (sfam[l] == 6 ? AF_INET6 : AF_INET, SOCK_STREAM | SOCK_NONBLOCK, 0); struct pollfd pf; int r;
		if (fd < 0) break;
		fillfd[nfill++] = fd;
		r = __real_connect (fd, (struct sockaddr *) &ss, (socklen_t) al);
		if (r == 0) continue;
		if (errno != EINPROGRESS) break;
		pf.fd = fd; pf.events = POLLOUT; pf.revents = 0;
		if (__real_poll (&pf, 1, 250) == 0) pending = 1;        /* this attempt did not complete in 250 ms: the queue is full */
	}
	return pending;
}

typedef struct { char op[16]; int h, a, b, c; char sarg[24]; } Cmd;
static pthread_mutex_t emx = PTHREAD_MUTEX_INITIALIZER; static __thread int is_bg;
static void run_cmd (const Cmd *cm) {
	int h = cm->h, ok = 0, cloexec = -1, dataok = 1, from = 0, id = 0, osconn = -1, kka = -1; long res = 0, off = 0; PError *err = NULL; double t0; int code = 0, ms;
	const char *op = cm->op;
	pthread_mutex_lock (&emx);
	VT ("{\"e\":\"scall\",\"h\":%d,\"op\":\"%s\",\"a\":%d,\"b\":%d,\"c\":%d,\"s\":\"%s\",\"bg\":%d}", h, op, cm->a, cm->b, cm->c, cm->sarg, is_bg); VT_END ();
	pthread_mutex_unlock (&emx);
	in_api = 1; nsys = npoll = 0; syslog_[0] = 0; last_poll_timeout = -2; t0 = now_ms ();
	if (!strcmp (op, "new")) {
		sk[h] = p_socket_new (cm->a == 6 ? P_SOCKET_FAMILY_INET6 : P_SOCKET_FAMILY_INET, !strcmp (cm->sarg, "udp") ? P_SOCKET_TYPE_DATAGRAM : P_SOCKET_TYPE_STREAM,
				      !strcmp (cm->sarg, "udp") ? P_SOCKET_PROTOCOL_UDP : P_SOCKET_PROTOCOL_TCP, &err);
		ok = sk[h] != NULL; sfam[h] = cm->a; tx_off[h] = rx_off[h] = 0; sport[h] = 0;
		if (ok) { int fl = fcntl (p_socket_get_fd (sk[h]), F_GETFD); cloexec = (fl != -1 && (fl & FD_CLOEXEC)) ? 1 : 0; }
	} else if (!strcmp (op, "bind")) {
		PSocketAddress *a = loop_addr (sfam[h], 0), *la;
		ok = p_socket_bind (sk[h], a, FALSE, &err); p_socket_address_free (a);
		if (ok && (la = p_socket_get_local_address (sk[h], NULL)) != NULL) { sport[h] = p_socket_address_get_port (la); p_socket_address_free (la); }
	} else if (!strcmp (op, "listen")) ok = p_socket_listen (sk[h], &err);
	else if (!strcmp (op, "connect")) {
		PSocketAddress *a = loop_addr (sfam[h], sport[cm->a]), *la;
		ok = p_socket_connect (sk[h], a, &err); p_socket_address_free (a);
		if (!p_socket_is_closed (sk[h]) && (la = p_socket_get_local_address (sk[h], NULL)) != NULL) { sport[h] = p_socket_address_get_port (la); p_socket_address_free (la); }
	} else if (!strcmp (op, "reconnect")) {        /* connect called on a socket that is connected already (L = 0: an address of the other family, which cannot succeed) */
		PSocketAddress *a = cm->a ? loop_addr (sfam[h], sport[cm->a]) : loop_addr (sfam[h] == 6 ? 4 : 6, 9); struct sockaddr_storage peer; socklen_t pl = sizeof peer;
		ok = p_socket_connect (sk[h], a, &err); p_socket_address_free (a);
		in_api = 0;
		osconn = (!p_socket_is_closed (sk[h]) && getpeername (p_socket_get_fd (sk[h]), (struct sockaddr *) &peer, &pl) == 0) ? 1 : 0;   /* what the OS says */
	} else if (!strcmp (op, "connectfull")) {      /* a listener whose accept queue was filled by "fill": the attempt cannot complete */
		PSocketAddress *a = loop_addr (sfam[h], sport[cm->a]); struct sockaddr_storage peer; socklen_t pl = sizeof peer;
		ok = p_socket_connect (sk[h], a, &err); p_socket_address_free (a);
		in_api = 0;
		osconn = (!p_socket_is_closed (sk[h]) && getpeername (p_socket_get_fd (sk[h]), (struct sockaddr *) &peer, &pl) == 0) ? 1 : 0;   /* what the OS says */
	} else if (!strcmp (op, "connectdead")) {      /* a port nobody listens on: bind a socket, remember its port, close it */
		PSocket *t = p_socket_new (sfam[h] == 6 ? P_SOCKET_FAMILY_INET6 : P_SOCKET_FAMILY_INET, P_SOCKET_TYPE_STREAM, P_SOCKET_PROTOCOL_TCP, NULL);
		PSocketAddress *a = loop_addr (sfam[h], 0), *la; int port = 1;
		in_api = 0;
		if (t && p_socket_bind (t, a, FALSE, NULL) && (la = p_socket_get_local_address (t, NULL))) { port = p_socket_address_get_port (la); p_socket_address_free (la); }
		p_socket_address_free (a); if (t) p_socket_free (t);
		a = loop_addr (sfam[h], port);
		in_api = 1; nsys = npoll = 0; syslog_[0] = 0; t0 = now_ms ();
		ok = p_socket_connect (sk[h], a, &err); p_socket_address_free (a);
	} else if (!strcmp (op, "accept")) {
		sk[h] = p_socket_accept (sk[cm->a], &err); ok = sk[h] != NULL;
		if (ok) { int fl = fcntl (p_socket_get_fd (sk[h]), F_GETFD); PSocketAddress *ra; cloexec = (fl != -1 && (fl & FD_CLOEXEC)) ? 1 : 0; sfam[h] = sfam[cm->a];
			  { int v = 0; socklen_t vl = sizeof v; in_api = 0; if (__real_getsockopt (p_socket_get_fd (sk[h]), SOL_SOCKET, SO_KEEPALIVE, &v, &vl) == 0) kka = v ? 1 : 0; }      /* what the OS gave the new descriptor (it may inherit the listener's option) */ tx_off[h] = rx_off[h] = 0; sport[h] = -1;
			  if ((ra = p_socket_get_remote_address (sk[h], NULL)) != NULL) { pchar *as = p_socket_address_get_address (ra); { int tries; from = 0;
				    /* (an acceptor parked in the background can be served while the connecting call of the foreground thread is still on its way back: the port
				     * of the connecting socket is recorded by that thread right after its call - give it a moment) */
				    for (tries = 0; tries < 300 && !(from = port_owner (p_socket_address_get_port (ra))); tries++) { struct timespec ts = { 0, 1000000 }; nanosleep (&ts, NULL); } }
				  if (!as || strcmp (as, sfam[h] == 6 ? "::1" : "127.0.0.1")) from = -1; p_free (as); p_socket_address_free (ra); } }
	} else if (!strcmp (op, "send")) {
		int n = cm->a, i; char *buf = malloc (n ? n : 1);
		off = tx_off[h];
		for (i = 0; i < n; i++) buf[i] = (char) fbyte (off + i);
		if (cm->b == 1) {       /* the same bytes through p_socket_send_to (the address is ignored on a connected stream socket) */
			PSocketAddress *a = loop_addr (sfam[h], 9);
			res = (long) p_socket_send_to (sk[h], a, buf, (psize) n, &err); p_socket_address_free (a);
		} else res = (long) p_socket_send (sk[h], buf, (psize) n, &err);
		ok = res >= 0;
		if (res > 0) tx_off[h] += res;
		free (buf);
	} else if (!strcmp (op, "recv")) {
		int n = cm->a, i; char *buf = malloc (n ? n : 1);
		off = rx_off[h];
		res = (long) p_socket_receive (sk[h], buf, (psize) n, &err); ok = res >= 0;
		for (i = 0; i < res; i++) if ((unsigned char) buf[i] != fbyte (off + i)) dataok = 0;
		if (res > 0) rx_off[h] += res;
		free (buf);
	} else if (!strcmp (op, "sendto")) {
		int n = cm->c, i; char *buf = malloc (n + 4); PSocketAddress *a = loop_addr (sfam[h], sport[cm->a]);
		id = cm->b;
		buf[0] = (char) (id >> 8); buf[1] = (char) id;
		for (i = 2; i < n; i++) buf[i] = (char) fbyte (id * 31 + i);
		res = (long) p_socket_send_to (sk[h], a, buf, (psize) n, &err); ok = res >= 0;
		p_socket_address_free (a); free (buf);
	} else if (!strcmp (op, "recvfrom")) {
		int n = cm->a, i; char *buf = malloc (n + 4); PSocketAddress *ra = NULL;
		res = (long) p_socket_receive_from (sk[h], &ra, buf, (psize) n, &err); ok = res >= 0;
		if (res >= 2) { id = ((unsigned char) buf[0] << 8) | (unsigned char) buf[1]; for (i = 2; i < res; i++) if ((unsigned char) buf[i] != fbyte (id * 31 + i)) dataok = 0; }
		if (ra) { pchar *as = p_socket_address_get_address (ra);        /* the sender is identified by its whole address: family, host part and port */
			  from = port_owner (p_socket_address_get_port (ra));
			  if (!as || strcmp (as, sfam[h] == 6 ? "::1" : "127.0.0.1") || p_socket_address_get_family (ra) != (sfam[h] == 6 ? P_SOCKET_FAMILY_INET6 : P_SOCKET_FAMILY_INET)) from = -1;
			  p_free (as); p_socket_address_free (ra); }
		free (buf);
	} else if (!strcmp (op, "set")) {
		if (!strcmp (cm->sarg, "blocking")) p_socket_set_blocking (sk[h], cm->a ? TRUE : FALSE);
		else if (!strcmp (cm->sarg, "timeout")) p_socket_set_timeout (sk[h], cm->a);
		else if (!strcmp (cm->sarg, "keepalive")) p_socket_set_keepalive (sk[h], cm->a ? TRUE : FALSE);
		else if (!strcmp (cm->sarg, "backlog")) p_socket_set_listen_backlog (sk[h], cm->a);
		ok = 1;
	} else if (!strcmp (op, "shutdown")) ok = p_socket_shutdown (sk[h], cm->a ? TRUE : FALSE, cm->b ? TRUE : FALSE, &err);
	else if (!strcmp (op, "ccr")) ok = p_socket_check_connect_result (sk[h], &err);
	else if (!strcmp (op, "iowait")) ok = p_socket_io_condition_wait (sk[h], cm->a == 2 ? P_SOCKET_IO_CONDITION_POLLOUT : P_SOCKET_IO_CONDITION_POLLIN, &err);
	else if (!strcmp (op, "bufsize")) ok = p_socket_set_buffer_size (sk[h], cm->a ? P_SOCKET_DIRECTION_RCV : P_SOCKET_DIRECTION_SND, (psize) cm->b, &err);
	else if (!strcmp (op, "addrs")) {        /* id = 1 iff the local address is the loopback address with the socket's own port; from = owner of the remote port */
		PSocketAddress *la = p_socket_get_local_address (sk[h], NULL), *ra = p_socket_get_remote_address (sk[h], NULL); pchar *as;
		ok = 1; id = 0; from = 0;
		if (la) { as = p_socket_address_get_address (la); id = (as && !strcmp (as, sfam[h] == 6 ? "::1" : "127.0.0.1") && (sport[h] <= 0 || p_socket_address_get_port (la) == sport[h])) ? 1 : 0; p_free (as); p_socket_address_free (la); }
		if (ra) { as = p_socket_address_get_address (ra); from = port_owner (p_socket_address_get_port (ra)); if (!as || strcmp (as, sfam[h] == 6 ? "::1" : "127.0.0.1")) from = -1; p_free (as); p_socket_address_free (ra); }
	}
	else if (!strcmp (op, "close")) ok = p_socket_close (sk[h], &err);
	else if (!strcmp (op, "getters")) ok = 1;
	else if (!strcmp (op, "free")) { p_socket_free (sk[h]); sk[h] = NULL; ok = 1; }
	ms = (int) (now_ms () - t0);
	in_api = 0;
	if (err) { code = p_error_get_code (err); p_error_free (err); }
	pthread_mutex_lock (&emx);
	VT ("{\"e\":\"sret\",\"h\":%d,\"op\":\"%s\",\"ok\":%d,\"res\":%ld,\"err\":%d,\"off\":%ld,\"dataok\":%d,\"from\":%d,\"id\":%d,\"cloexec\":%d,\"ms\":%d,\"nsys\":%d,\"npoll\":%d,\"pto\":%d,\"osconn\":%d,\"kka\":%d,\"bg\":%d,\"sys\":\"%s\",",
	    h, op, ok, res, code, off, dataok, from, id, cloexec, ms, nsys, npoll, last_poll_timeout, osconn, kka, is_bg, syslog_);
	getters (h); VT ("}"); VT_END ();
	pthread_mutex_unlock (&emx);
}
static void *bg_main (void *arg) { is_bg = 1; run_cmd ((Cmd *) arg); free (arg); return NULL; }

int main (int argc, char **argv) {
	FILE *in; char line[512]; pthread_t bg; int have_bg = 0;
	if (argc < 3) return 2;
	in = fopen (argv[1], "r"); if (!in) return 2;
	vt_open (argv[2]);
	p_libsys_init (); p_libsys_shutdown (); p_libsys_init ();      /* the library is used after a shutdown / re-initialisation cycle */
	if (!ga_install ()) return 2;      /* fresh memory is garbage, released memory is overwritten (galloc.h) */
	while (fgets (line, sizeof line, in)) {
		Cmd cm; char *p = line; char w1[24] = "", w2[24] = "", w3[24] = "", w4[24] = "", w5[24] = ""; int isbg = 0;
		memset (&cm, 0, sizeof cm);
		if (!strncmp (p, "bg ", 3)) { isbg = 1; p += 3; }
		if (sscanf (p, "%15s %23s %23s %23s %23s", cm.op, w1, w2, w3, w4) < 1) continue;
		(void) w5;
		if (!strcmp (cm.op, "scenario")) {
			int i;
			if (have_bg) { pthread_join (bg, NULL); have_bg = 0; }
			for (i = 1; i < MAXS; i++) if (sk[i]) { p_socket_free (sk[i]); sk[i] = NULL; }
			nplan = iplan = 0; fill_clear ();
			VT ("{\"e\":\"Reset\"}"); VT_END (); continue;
		}
		if (!strcmp (cm.op, "plan")) {
			char *tok, *save, *pl = strchr (p, ' '); nplan = iplan = 0;
			if (!pl) continue;
			pl[strcspn (pl, "\n")] = 0;
			for (tok = strtok_r (pl + 1, ",", &save); tok && nplan < 32; tok = strtok_r (NULL, ",", &save)) { char *c = strchr (tok, ':'); if (!c) continue; *c = 0; snprintf (plan[nplan].call, 16, "%s", tok); snprintf (plan[nplan].out, 16, "%s", c + 1); nplan++; }
			continue;
		}
		if (!strcmp (cm.op, "storm")) { storm (atol (w1)); continue; }
		if (!strcmp (cm.op, "fill")) { int ok = fill_listener (atoi (w1)); VT ("{\"e\":\"fill\",\"l\":%d,\"pending\":%d,\"n\":%d}", atoi (w1), ok, nfill); VT_END (); continue; }
		if (!strcmp (cm.op, "join")) { if (have_bg) { pthread_join (bg, NULL); have_bg = 0; } continue; }
		if (!strcmp (cm.op, "sleepms")) { struct timespec ts = { 0, 0 }; ts.tv_sec = atoi (w1) / 1000; ts.tv_nsec = (atoi (w1) % 1000) * 1000000L; nanosleep (&ts, NULL); continue; }
		cm.h = atoi (w1);
		if (!strcmp (cm.op, "new")) { cm.a = atoi (w2); snprintf (cm.sarg, sizeof cm.sarg, "%s", w3); }
		else if (!strcmp (cm.op, "set")) { snprintf (cm.sarg, sizeof cm.sarg, "%s", w2); cm.a = atoi (w3); }
		else { cm.a = atoi (w2); cm.b = atoi (w3); cm.c = atoi (w4); }
		if (isbg) { Cmd *c2 = malloc (sizeof cm); *c2 = cm; pthread_create (&bg, NULL, bg_main, c2); have_bg = 1; }
		else run_cmd (&cm);
		if (iplan >= nplan) nplan = iplan = 0;
	}
	if (have_bg) pthread_join (bg, NULL);
	{ int i; for (i = 1; i < MAXS; i++) if (sk[i]) p_socket_free (sk[i]); }
	p_mem_restore_vtable ();
	p_libsys_shutdown ();
	vt_close ();
	return 0;
}
