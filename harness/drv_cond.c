/* PCondVariable driver (C03).
 *   drv_cond pc   <tracebase> <nprod> <ncons> <cap> <items> <episodes> <seed>   bounded buffer, predicate loops, broadcast
 *   drv_cond wake <tracebase> <nwaiters> <signal|broadcast> <rounds>            who gets woken (watchdog -> Stuck events)
 * Every p_mutex_* / p_cond_variable_* call and return is logged; "cs" events are accesses to the protected data. */
#include <plibsys.h>
#include <sched.h>
#include <time.h>
#include <errno.h>
#include "vtmt.h"
#include "galloc.h"

static PMutex *mx, *mx_ab[2]; static PCondVariable *cv; static const char *base;
static int call_ (int t, const char *op) {
	pboolean r;
	VTM ("\"e\":\"call\",\"t\":%d,\"op\":\"%s\"", t, op);
	if (!strcmp (op, "lock")) r = p_mutex_lock (mx);
	else if (!strcmp (op, "try")) r = p_mutex_trylock (mx);
	else if (!strcmp (op, "unlock")) r = p_mutex_unlock (mx);
	else if (!strcmp (op, "wait")) r = p_cond_variable_wait (cv, mx);
	else if (!strcmp (op, "signal")) r = p_cond_variable_signal (cv);
	else r = p_cond_variable_broadcast (cv);
	VTM ("\"e\":\"ret\",\"t\":%d,\"res\":%d", t, r ? 1 : 0);
	return r;
}
/* ---- producer / consumer ---- */
static int nprod, ncons, cap, items, episodes; static unsigned seed; static long fill;
static unsigned rnd (unsigned *s) { *s = *s * 1103515245u + 12345u; return (*s >> 16) & 0x7fff; }
static void *pc_actor (void *arg) {
	int t = (int) (long) arg, ep, i, prod = t <= nprod; unsigned s = seed * 31u + (unsigned) t;
	int quota = prod ? items * ncons : items * nprod;
	vtm_open (base, t);
	for (ep = 0; ep < episodes; ep++) {
		vtm_barrier ();
		for (i = 0; i < quota; i++) {
			call_ (t, "lock");
			while (prod ? fill >= cap : fill <= 0) call_ (t, "wait");
			{ long v = fill; fill = prod ? v + 1 : v - 1; VTM ("\"e\":\"cs\",\"t\":%d,\"rd\":%ld,\"wr\":%ld", t, v, fill); }
			/* the wake-up is issued inside the critical section or (every other time) right after leaving it - both are legal uses */
			if (rnd (&s) % 2) { call_ (t, "broadcast"); call_ (t, "unlock"); } else { call_ (t, "unlock"); call_ (t, "broadcast"); }
			if (rnd (&s) % 4 == 0) sched_yield ();
		}
		vtm_barrier ();
	}
	vtm_close ();
	return NULL;
}
/* ---- wake scenario ---- */
static volatile pint inwait, returned; static int nw; static long gen;
static pthread_t wth[32]; static volatile int wstate[32];   /* 0 idle 1 waiting 2 returned */
static void *waiter (void *arg) {
	int t = (int) (long) arg;
	vtm_open (base, t);
	for (;;) {
		vtm_barrier ();
		if (vtm_sh->stop) break;
		call_ (t, "lock");
		{ long v = gen; VTM ("\"e\":\"cs\",\"t\":%d,\"rd\":%ld,\"wr\":%ld", t, v, v); }
		p_atomic_int_inc (&inwait); wstate[t] = 1;
		call_ (t, "wait");           /* a single wait, no predicate loop: returns only when woken */
		wstate[t] = 2; p_atomic_int_inc (&returned);
		call_ (t, "unlock");
		vtm_barrier ();
	}
	vtm_close ();
	return NULL;
}
static double now (void) { struct timespec ts; clock_gettime (CLOCK_MONOTONIC, &ts); return ts.tv_sec + ts.tv_nsec * 1e-9; }
static int wait_returned (int want) {
	double t0 = now ();
	while (p_atomic_int_get (&returned) < want) { if (now () - t0 > 10.0) return 0; sched_yield (); }
	return 1;
}
static void hold (int ms) { struct timespec ts; if (ms <= 0) return; ts.tv_sec = ms / 1000; ts.tv_nsec = (ms % 1000) * 1000000L; while (nanosleep (&ts, &ts) == -1 && errno == EINTR) ; }
static void stuck_exit (void) {
	int i;
	for (i = 1; i <= nw; i++) if (wstate[i] == 1) VTM ("\"e\":\"Stuck\",\"t\":%d", i);
	fflush (NULL);
	_exit (0);
}
/* ---- generation scenario (not logged): waiters wait in a predicate loop for a generation counter to move; the main thread advances it under the
 * mutex and issues the wake-up after leaving the critical section, as fast as it can; every 7 events it lets everybody catch up (so that all
 * waiters are asleep when the next event comes).  A waiter that does not see an event within 5 s although it was broadcast has lost a wake-up. */
static volatile long g_gen; static volatile int g_stop; static volatile long g_seen[32];
static void *gen_waiter (void *arg) {
	int t = (int) (long) arg; long seen = 0;
	for (;;) {
		p_mutex_lock (mx);
		while (g_gen == seen && !g_stop) p_cond_variable_wait (cv, mx);
		seen = g_gen; g_seen[t] = seen;
		p_mutex_unlock (mx);
		if (g_stop) break;
	}
	return NULL;
}
static int gen_scenario (int nwait, int rounds, int use_signal) {
	pthread_t w[32]; int i, r, lost = 0;
	for (i = 1; i <= nwait; i++) pthread_create (&w[i], NULL, gen_waiter, (void *) (long) i);
	for (r = 1; r <= rounds && !lost; r++) {
		p_mutex_lock (mx); g_gen = r; p_mutex_unlock (mx);
		if (use_signal) { for (i = 0; i < nwait; i++) p_cond_variable_signal (cv); } else p_cond_variable_broadcast (cv);
		if (r % 7 == 0 || r == rounds) {
			double t0 = now ();
			for (i = 1; i <= nwait; i++) while (g_seen[i] < r) { if (now () - t0 > 5.0) { lost = i; break; } sched_yield (); }
		}
	}
	if (lost) { fprintf (stderr, "LOST-WAKEUP waiter %d did not see event %ld\n", lost, (long) g_gen); fflush (NULL); _exit (4); }
	p_mutex_lock (mx); g_stop = 1; p_mutex_unlock (mx); p_cond_variable_broadcast (cv);
	for (i = 1; i <= nwait; i++) pthread_join (w[i], NULL);
	return 0;
}
/* ---- first-use scenario (not logged): every round uses a FRESH condition variable.  The main thread issues a signal without holding the mutex
 * (legal, and a no-op if nobody waits yet) at about the moment the waiter makes the first wait on that object; then it sets the predicate under the
 * mutex and signals once.  The waiter must return (5 s watchdog).  Whatever an implementation sets up lazily on first use is raced here. */
static PCondVariable *volatile f_cv; static volatile int f_round, f_done, f_flag, f_quit;
static void *fresh_waiter (void *arg) {
	int r = 0; (void) arg;
	for (;;) {
		{ int sp_ = 0; while (__atomic_load_n (&f_round, __ATOMIC_SEQ_CST) == r && !f_quit) if (++sp_ > 20000) { sched_yield (); sp_ = 0; } }
		if (f_quit) break;
		r = __atomic_load_n (&f_round, __ATOMIC_SEQ_CST);
		p_mutex_lock (mx);
		while (!f_flag) p_cond_variable_wait (f_cv, mx);
		f_flag = 0;
		p_mutex_unlock (mx);
		__atomic_store_n (&f_done, r, __ATOMIC_SEQ_CST);
	}
	return NULL;
}
static int fresh_scenario (int rounds, int use_broadcast) {
	pthread_t w; int r; unsigned s = 12345;
	pthread_create (&w, NULL, fresh_waiter, NULL);
	for (r = 1; r <= rounds; r++) {
		PCondVariable *c = p_cond_variable_new (); volatile int spin; int d; double t0;
		if (!c) return 3;
		f_cv = c;
		__atomic_store_n (&f_round, r, __ATOMIC_SEQ_CST);
		s = s * 1103515245u + 12345u; d = (int) ((s >> 16) % 3000);
		for (spin = 0; spin < d; spin++) ;
		if (use_broadcast) p_cond_variable_broadcast (c); else p_cond_variable_signal (c);          /* nobody may be waiting yet: no effect required */
		p_mutex_lock (mx); f_flag = 1; p_mutex_unlock (mx);
		if (use_broadcast) p_cond_variable_broadcast (c); else p_cond_variable_signal (c);
		t0 = now ();
		while (__atomic_load_n (&f_done, __ATOMIC_SEQ_CST) != r) {
			if (now () - t0 > 5.0) { fprintf (stderr, "LOST-WAKEUP round %d: the waiter of a fresh condition variable did not return although its predicate was set and signalled\n", r); fflush (NULL); _exit (4); }
			if (now () - t0 > 0.001) sched_yield ();
		}
		p_cond_variable_free (c);
	}
	f_quit = 1; pthread_join (w, NULL);
	return 0;
}
int main (int argc, char **argv) {
	int i, ep; pthread_t th[32];
	if (argc < 6) return 2;
	base = argv[2];
	p_libsys_init (); p_libsys_shutdown (); p_libsys_init ();      /* the library is used after a shutdown / re-initialisation cycle */
	if (!ga_install ()) return 2;      /* fresh memory is garbage, released memory is overwritten (galloc.h) */
	mx_ab[0] = mx = p_mutex_new (); mx_ab[1] = p_mutex_new (); cv = p_cond_variable_new ();
	if (!strcmp (argv[1], "fresh")) {
		vtm_init (1); vtm_open (base, 0);
		VTM ("\"e\":\"Epoch\",\"cell\":0");
		fresh_scenario (atoi (argv[5]), !strcmp (argv[4], "broadcast"));
	} else if (!strcmp (argv[1], "gen")) {
		vtm_init (1); vtm_open (base, 0);
		VTM ("\"e\":\"Epoch\",\"cell\":0");
		gen_scenario (atoi (argv[3]), atoi (argv[5]), !strcmp (argv[4], "signal"));
	} else if (!strcmp (argv[1], "pc")) {
		if (argc < 9) return 2;
		nprod = atoi (argv[3]); ncons = atoi (argv[4]); cap = atoi (argv[5]); items = atoi (argv[6]); episodes = atoi (argv[7]); seed = (unsigned) atoi (argv[8]);
		vtm_init (nprod + ncons + 1); vtm_open (base, 0);
		for (i = 1; i <= nprod + ncons; i++) pthread_create (&th[i], NULL, pc_actor, (void *) (long) i);
		for (ep = 0; ep < episodes; ep++) { VTM ("\"e\":\"Epoch\",\"cell\":%ld", fill); vtm_barrier (); vtm_barrier (); }
		VTM ("\"e\":\"Epoch\",\"cell\":%ld", fill);
		for (i = 1; i <= nprod + ncons; i++) pthread_join (th[i], NULL);
	} else {
		int bcast = !strcmp (argv[4], "broadcast"), rounds = atoi (argv[5]), r, hold_ms = argc > 6 ? atoi (argv[6]) : 0,   /* the signaller's critical section lasts hold_ms */
		    burst = argc > 7 ? atoi (argv[7]) : 0;      /* > 0: that many signal / broadcast calls inside one critical section, then every waiter must return */
		nw = atoi (argv[3]);
		vtm_init (nw + 1); vtm_open (base, 0);
		for (i = 1; i <= nw; i++) pthread_create (&wth[i], NULL, waiter, (void *) (long) i);
		for (r = 0; r < rounds; r++) {
			VTM ("\"e\":\"Epoch\",\"cell\":%ld", gen);
			inwait = 0; returned = 0; for (i = 1; i <= nw; i++) wstate[i] = 0;
			/* the condition variable is paired with the mutex given to each wait, not with the first one it saw: between rounds (nobody
			 * is inside) the mutex is exchanged - A, B, B, A, A, B, ... so that the first round with the other mutex is a trylock round */
			mx = mx_ab[((r + 1) / 2) % 2];
			vtm_barrier ();
			/* wait until every waiter has announced (under the mutex) that it is about to wait; acquiring the mutex
			 * afterwards orders us after its atomic release-and-block */
			/* odd rounds take the mutex with trylock only (a blocking lock/unlock by this thread could hide a mutex that
			 * wait did not really release); a trylock that keeps failing for 3 s while nobody can legitimately hold
			 * the mutex is reported as TryStarved */
			{ int tries = 0;
			  for (;;) {
				int n = -1;
				if (r & 1) { if (call_ (17, "try")) { n = p_atomic_int_get (&inwait); call_ (17, "unlock"); } else { struct timespec ts = { 0, 1000000 }; nanosleep (&ts, NULL); if (++tries > 3000) { VTM ("\"e\":\"TryStarved\",\"t\":17"); stuck_exit (); } } }
				else { call_ (17, "lock"); n = p_atomic_int_get (&inwait); call_ (17, "unlock"); }
				if (n == nw) break;
				sched_yield ();
			  } }
			if (burst > 0) {
				int b;
				call_ (17, "lock"); hold (hold_ms);
				for (b = 0; b < burst; b++) call_ (17, bcast ? "broadcast" : "signal");
				call_ (17, "unlock");
				if (!wait_returned (nw)) stuck_exit ();
			} else if (bcast) {
				call_ (17, "lock"); hold (hold_ms); call_ (17, "broadcast"); call_ (17, "unlock");
				if (!wait_returned (nw)) stuck_exit ();
			} else {
				for (i = 1; i <= nw; i++) {
					call_ (17, "lock"); hold (hold_ms); call_ (17, "signal"); call_ (17, "unlock");
					if (!wait_returned (i)) stuck_exit ();
				}
			}
			vtm_barrier ();
		}
		vtm_sh->stop = 1;
		VTM ("\"e\":\"Epoch\",\"cell\":%ld", gen);
		vtm_barrier ();
		for (i = 1; i <= nw; i++) pthread_join (wth[i], NULL);
	}
	p_cond_variable_free (cv); p_mutex_free (mx_ab[0]); p_mutex_free (mx_ab[1]);
	vtm_close ();
	p_mem_restore_vtable ();
	p_libsys_shutdown ();
	return 0;
}
