/* PUThread driver (C05).  usage: drv_thread <script> <tracebase>
 * The main thread interprets the script; library-created threads run their own sub-scripts between
 * gates, so that the orders "unref before the thread starts", "thread finished before join",
 * "join while running" are forced by the script and not left to chance.
 *
 * main script lines:
 *   keynew K F | keyfree K | refchurn H K | newfast H J | new H J | go H S | waitst H S | ref H | unref H | join H
 *   tset K V | trepl K V | tget K | epoch
 *   T H: <op> ...     sub-script of thread H (before "new H"): tset K V | trepl K V | tget K | write V | exit C | ret
 * thread life: [gate 1] start event, ops in order, write, [gate 2] exit/ret
 * The handle block is identified through the tracking allocator (p_mem_set_vtable). */
#include <plibsys.h>
#include <sched.h>
#include <time.h>
#include "vtmt.h"

#define MAXH 8
#define MAXK 4
typedef struct { char op[8]; int a, b; } TOp;
static TOp tops[MAXH][32]; static int ntops[MAXH];
static PUThread *hd[MAXH]; static volatile pint gate[MAXH], state[MAXH]; static volatile long cellv[MAXH];
static void *haddr[MAXH];
static PUThreadKey *keys[MAXK]; static int keyf[MAXK], keyused[MAXK];      /* keyused: created in this scenario (its reference may have been released since) */
static volatile pint exp_destroy, got_destroy, nfreed, ncreated;
static const char *base; static volatile pint next_file = 100;
static __thread int my_h = 0;

static void ensure_fp (void) { if (!vtm_fp) vtm_open (base, p_atomic_int_add (&next_file, 1)); }
/* values are small integers 1.. encoded as pointers */
static void dfn (int k, ppointer v) { ensure_fp (); VTM ("\"e\":\"tdestroy\",\"k\":%d,\"v\":%ld,\"t\":%d", k, (long) v, my_h); p_atomic_int_inc (&got_destroy); }
static void d1 (ppointer v) { dfn (1, v); } static void d2 (ppointer v) { dfn (2, v); } static void d3 (ppointer v) { dfn (3, v); }
static PDestroyFunc DF[] = { NULL, d1, d2, d3 };

/* tracking allocator */
static ppointer t_malloc (psize n) { return malloc (n); }
static ppointer t_realloc (ppointer p, psize n) { return realloc (p, n); }
static int quarantine;      /* keep released handle blocks allocated so that a premature release is judged from the trace, not by a crash */
static void *qaddr[MAXH];      /* quarantined (released but kept) handle blocks: a second release of one of them is an event too */
static void t_free (ppointer p) {
	int h;
	if (p) for (h = 1; h < MAXH; h++) if (haddr[h] == p) {
		haddr[h] = NULL; ensure_fp ();
		VTM ("\"e\":\"hfree\",\"h\":%d", h);
		p_atomic_int_inc (&nfreed);
		if (quarantine) { qaddr[h] = p; return; }
		break;
	}
	if (p && quarantine) for (h = 1; h < MAXH; h++) if (qaddr[h] == p) { ensure_fp (); VTM ("\"e\":\"hfree\",\"h\":%d,\"again\":1", h); return; }
	free (p);
}
static double now (void) { struct timespec ts; clock_gettime (CLOCK_MONOTONIC, &ts); return ts.tv_sec + ts.tv_nsec * 1e-9; }
static double wd_limit = 10.0;      /* watchdog: 10 s; once it has expired in a run the later waits of that run give up after 1 s */
static int wait_until (volatile pint *v, int want) { double t0 = now (); while (p_atomic_int_get (v) < want) { if (now () - t0 > wd_limit) { wd_limit = 1.0; return 0; } sched_yield (); } return 1; }

/* first use of a fresh key by several threads at once: "race N" arms a rendezvous; the thread op "bar" is a spin barrier right before
 * the first TLS call, and pthread_key_create (wrapped at link time) returns late - after the others arrived or 20 ms - so that the lazy
 * creation of the native key is a real race.  The wrapper changes no result. */
#include <pthread.h>
static volatile int kc_expect, kc_arrived, bar_count;
int __real_pthread_key_create (pthread_key_t *, void (*) (void *));
int __wrap_pthread_key_create (pthread_key_t *k, void (*d) (void *)) {
	int r = __real_pthread_key_create (k, d);
	if (__atomic_load_n (&kc_expect, __ATOMIC_SEQ_CST) > 1) {
		double t0 = now ();
		__atomic_add_fetch (&kc_arrived, 1, __ATOMIC_SEQ_CST);
		while (__atomic_load_n (&kc_arrived, __ATOMIC_SEQ_CST) < __atomic_load_n (&kc_expect, __ATOMIC_SEQ_CST) && now () - t0 < 0.02) ;
	}
	return r;
}
static void spin_barrier (void) {
	double t0 = now (); int n = __atomic_load_n (&kc_expect, __ATOMIC_SEQ_CST);
	__atomic_add_fetch (&bar_count, 1, __ATOMIC_SEQ_CST);
	while (__atomic_load_n (&bar_count, __ATOMIC_SEQ_CST) < n && now () - t0 < 10.0) ;
}
static void tls_op (int t, const char *op, int k, int v, long myval[]) {
	if (!strcmp (op, "tset")) { p_uthread_set_local (keys[k], (ppointer) (long) v); VTM ("\"e\":\"tset\",\"k\":%d,\"t\":%d,\"v\":%d", k, t, v); myval[k] = v; }
	else if (!strcmp (op, "trepl")) {
		VTM ("\"e\":\"trepl_b\",\"k\":%d,\"t\":%d,\"v\":%d", k, t, v);
		if (keyf[k] && myval[k]) p_atomic_int_inc (&exp_destroy);
		p_uthread_replace_local (keys[k], (ppointer) (long) v);
		VTM ("\"e\":\"trepl_e\",\"k\":%d,\"t\":%d,\"old\":%ld", k, t, myval[k]); myval[k] = v;
	}
	else if (!strcmp (op, "tget")) { long g = (long) p_uthread_get_local (keys[k]); VTM ("\"e\":\"tget\",\"k\":%d,\"t\":%d,\"v\":%ld", k, t, g); }
}
/* several threads drop a reference of the same handle at the same moment */
static volatile int ur_go, ur_ready; static int ur_h;
static volatile int churn_go;
static void *churn_fn (void *arg) { while (!__atomic_load_n (&churn_go, __ATOMIC_SEQ_CST)) sched_yield (); return arg; }
static int rc_h;
static void *refchurn_fn (void *arg) { int i; while (!__atomic_load_n (&churn_go, __ATOMIC_SEQ_CST)) sched_yield (); for (i = 0; i < 20000; i++) { p_uthread_ref (hd[rc_h]); p_uthread_unref (hd[rc_h]); } return arg; }
static void *ur_fn (void *arg) {
	int id = (int) (long) arg; double t0 = now ();
	my_h = 20 + id; ensure_fp ();
	VTM ("\"e\":\"unref\",\"h\":%d", ur_h);
	fflush (vtm_fp);
	__atomic_add_fetch (&ur_ready, 1, __ATOMIC_SEQ_CST);
	while (!__atomic_load_n (&ur_go, __ATOMIC_SEQ_CST) && now () - t0 < 10.0) ;
	p_uthread_unref (hd[ur_h]);
	vtm_close ();
	return NULL;
}
/* the creating thread is held up for 2 ms right after it released a spinlock inside p_uthread_create (link-time wrapper; no result changes): a thread
 * that runs and exits at once does so before the creating call has finished its bookkeeping */
static __thread int delay_after_unlock;
pboolean __real_p_spinlock_unlock (PSpinLock *s);
pboolean __wrap_p_spinlock_unlock (PSpinLock *s) { pboolean r = __real_p_spinlock_unlock (s); if (delay_after_unlock) { struct timespec ts = { 0, 2000000 }; nanosleep (&ts, NULL); } return r; }
static int fast_code (int h) { return (h % 2 ? 1 : -1) * (100 + h); }
static void *fast_fn (void *arg) {
	int h = (int) (long) arg;
	my_h = h; ensure_fp ();
	VTM ("\"e\":\"start\",\"h\":%d,\"curok\":1", h);
	cellv[h] = 900 + h; VTM ("\"e\":\"twrite\",\"h\":%d,\"v\":%d", h, 900 + h);
	VTM ("\"e\":\"exit\",\"h\":%d,\"code\":%d", h, fast_code (h));
	fflush (vtm_fp);
	p_atomic_int_set (&state[h], 3);
	p_uthread_exit (fast_code (h));
	VTM ("\"e\":\"exitreturned\",\"h\":%d", h);       /* p_uthread_exit does not return: no spec action explains this event */
	fflush (vtm_fp);
	return NULL;
}
static void *thread_fn (void *arg) {
	int h = (int) (long) arg, i, k; long myval[MAXK] = { 0 };
	my_h = h; ensure_fp ();
	wait_until (&gate[h], 1);
	VTM ("\"e\":\"start\",\"h\":%d,\"curok\":%d", h, p_uthread_current () == hd[h] ? 1 : 0);
	p_atomic_int_set (&state[h], 1);
	for (i = 0; i < ntops[h]; i++) {
		TOp *o = &tops[h][i];
		if (!strcmp (o->op, "write")) { cellv[h] = o->a; VTM ("\"e\":\"twrite\",\"h\":%d,\"v\":%d", h, o->a); }
		else if (!strcmp (o->op, "exit") || !strcmp (o->op, "ret")) {
			p_atomic_int_set (&state[h], 2);
			wait_until (&gate[h], 2);
			for (k = 1; k < MAXK; k++) if (keyused[k] && keyf[k] && myval[k]) p_atomic_int_inc (&exp_destroy);
			VTM ("\"e\":\"exit\",\"h\":%d,\"code\":%d", h, o->op[0] == 'e' ? o->a : 0);
			fflush (vtm_fp);
			p_atomic_int_set (&state[h], 3);
			if (o->op[0] == 'e') p_uthread_exit (o->a);
			return NULL;
		}
		else if (!strcmp (o->op, "bar")) spin_barrier ();
		else tls_op (h, o->op, o->a, o->b, myval);
	}
	return NULL;
}
int main (int argc, char **argv) {
	FILE *in; char line[256], op[32]; int a, b; long mainval[MAXK] = { 0 }; PMemVTable vt;
	if (argc < 3) return 2;
	base = argv[2];
	quarantine = getenv ("VERIF_QUARANTINE") != NULL;
	in = fopen (argv[1], "r"); if (!in) return 2;
	vtm_init (0);
	p_libsys_init (); p_libsys_shutdown (); p_libsys_init ();      /* the library is used after a shutdown / re-initialisation cycle */
	vt.f_malloc = t_malloc; vt.f_realloc = t_realloc; vt.f_free = t_free;
	if (!p_mem_set_vtable (&vt)) return 2;
	vtm_open (base, 0);
	while (fgets (line, sizeof line, in)) {
		a = b = 0;
		if (line[0] == 'T') { int h; TOp o; memset (&o, 0, sizeof o); if (sscanf (line, "T %d: %7s %d %d", &h, o.op, &o.a, &o.b) >= 2) tops[h][ntops[h]++] = o; continue; }
		if (sscanf (line, "%31s %d %d", op, &a, &b) < 1) continue;
		if (!strcmp (op, "keynew")) { keys[a] = p_uthread_local_new (b ? DF[a] : NULL); keyf[a] = b; keyused[a] = 1; VTM ("\"e\":\"keynew\",\"k\":%d,\"f\":%d", a, b); }
		else if (!strcmp (op, "newfast")) {         /* newfast H J: the thread calls p_uthread_exit at once - while the creating call is still on its way back */
			gate[a] = 0; state[a] = 0;
			VTM ("\"e\":\"create\",\"h\":%d,\"j\":%d", a, b);          /* logged first: the thread's own events come before the creating call returns */
			delay_after_unlock = 1;
			hd[a] = p_uthread_create ((PUThreadFunc) fast_fn, (ppointer) (long) a, b ? TRUE : FALSE, NULL);
			delay_after_unlock = 0;
			if (!hd[a]) { fprintf (stderr, "thread create failed\n"); return 3; }
			haddr[a] = hd[a]; p_atomic_int_inc (&ncreated);
		}
		else if (!strcmp (op, "new")) {
			gate[a] = 0; state[a] = 0;
			hd[a] = p_uthread_create ((PUThreadFunc) thread_fn, (ppointer) (long) a, b ? TRUE : FALSE, NULL);
			if (!hd[a]) { fprintf (stderr, "thread create failed\n"); return 3; }
			haddr[a] = hd[a]; p_atomic_int_inc (&ncreated);
			VTM ("\"e\":\"create\",\"h\":%d,\"j\":%d", a, b);
		}
		else if (!strcmp (op, "keyfree")) {         /* the reference to the key is released; values stored under it stay with their threads */
			if (keys[a] && !mainval[a]) { VTM ("\"e\":\"keyfree\",\"k\":%d", a); p_uthread_local_free (keys[a]); keys[a] = NULL; }
		}
		else if (!strcmp (op, "race")) { __atomic_store_n (&kc_arrived, 0, __ATOMIC_SEQ_CST); __atomic_store_n (&bar_count, 0, __ATOMIC_SEQ_CST); __atomic_store_n (&kc_expect, a, __ATOMIC_SEQ_CST); }
		else if (!strcmp (op, "go")) p_atomic_int_set (&gate[a], b);
		else if (!strcmp (op, "waitst")) { if (!wait_until (&state[a], b)) { fprintf (stderr, "waitst timeout\n"); } }
		else if (!strcmp (op, "ref")) { p_uthread_ref (hd[a]); VTM ("\"e\":\"ref\",\"h\":%d", a); }
		else if (!strcmp (op, "unref")) { VTM ("\"e\":\"unref\",\"h\":%d", a); p_uthread_unref (hd[a]); }
		else if (!strcmp (op, "unrefrace")) {       /* unrefrace H K: K raw threads each drop one reference of H, released together */
			pthread_t ut[8]; int k, n = b > 8 ? 8 : b; double t0 = now ();
			ur_h = a; ur_go = 0; ur_ready = 0;
			for (k = 0; k < n; k++) pthread_create (&ut[k], NULL, ur_fn, (void *) (long) k);
			while (__atomic_load_n (&ur_ready, __ATOMIC_SEQ_CST) < n && now () - t0 < 10.0) sched_yield ();
			__atomic_store_n (&ur_go, 1, __ATOMIC_SEQ_CST);
			for (k = 0; k < n; k++) pthread_join (ut[k], NULL);
		}
		else if (!strcmp (op, "refchurn")) {        /* refchurn H K: K raw threads each take and drop a reference of H 20000 times, together (not logged: the count is the same afterwards) */
			pthread_t rt[8]; int k, n = b > 8 ? 8 : b;
			rc_h = a; __atomic_store_n (&churn_go, 0, __ATOMIC_SEQ_CST);
			for (k = 0; k < n; k++) if (pthread_create (&rt[k], NULL, refchurn_fn, NULL) != 0) { n = k; break; }
			__atomic_store_n (&churn_go, 1, __ATOMIC_SEQ_CST);
			for (k = 0; k < n; k++) pthread_join (rt[k], NULL);
		}
		else if (!strcmp (op, "churn")) {           /* churn N: N raw threads with 8 MB stacks alive together - pushes finished threads' stacks out of the C library's cache */
			static pthread_t ct[128]; pthread_attr_t at; int k, n = a > 128 ? 128 : a;
			pthread_attr_init (&at); pthread_attr_setstacksize (&at, 8u << 20);
			__atomic_store_n (&churn_go, 0, __ATOMIC_SEQ_CST);
			for (k = 0; k < n; k++) if (pthread_create (&ct[k], &at, churn_fn, NULL) != 0) { n = k; break; }
			__atomic_store_n (&churn_go, 1, __ATOMIC_SEQ_CST);
			for (k = 0; k < n; k++) pthread_join (ct[k], NULL);
			pthread_attr_destroy (&at);
		}
		else if (!strcmp (op, "join")) { pint c; long seen; VTM ("\"e\":\"joincall\",\"h\":%d", a); c = p_uthread_join (hd[a]); seen = cellv[a]; VTM ("\"e\":\"joinret\",\"h\":%d,\"code\":%d,\"seen\":%ld", a, (int) c, seen); }
		else if (!strcmp (op, "tset") || !strcmp (op, "trepl") || !strcmp (op, "tget")) tls_op (0, op, a, b, mainval);
		else if (!strcmp (op, "epoch")) {
			int h, k;
			/* all threads were released by the script; wait (watchdog) until handles are gone and notifiers ran */
			wait_until (&nfreed, p_atomic_int_get (&ncreated));
			wait_until (&got_destroy, p_atomic_int_get (&exp_destroy));
			for (k = 1; k < MAXK; k++) if (keys[k]) { if (mainval[k]) { p_uthread_set_local (keys[k], NULL); mainval[k] = 0; } p_uthread_local_free (keys[k]); keys[k] = NULL; }
			for (k = 1; k < MAXK; k++) keyused[k] = 0;
			__atomic_store_n (&kc_expect, 0, __ATOMIC_SEQ_CST);
			VTM ("\"e\":\"Epoch\"");
			for (h = 1; h < MAXH; h++) { ntops[h] = 0; hd[h] = NULL; cellv[h] = 0; if (qaddr[h]) { free (qaddr[h]); qaddr[h] = NULL; } }
		}
	}
	fflush (NULL);
	p_mem_restore_vtable ();
	/* no p_libsys_shutdown: detached threads may still be unwinding */
	_exit (0);
}
