/* PCryptoHash driver (C11).  usage: drv_hash <script> <trace>
 * script: new ALG | upd ID LEN SEED | updmap ID LOG2 EXTRA SEED | gets | getsfail | getd | len | reset | free | scenario
 * chunk content: byte i = (seed * 131 + i * 7 + (i >> 8) * 13) & 0xff   (reproduced by the oracle) */
#include <plibsys.h>
#include <sys/mman.h>
#include "vtrace.h"
#include "galloc.h"
/* seeds from 1000: content made of extreme words (all ones, zero, alternating) - the same classes as the oracle's sbyte() */
static unsigned char sbyte (size_t i, unsigned seed) {
	static const unsigned char w[4] = { 0x01, 0x00, 0x00, 0x80 };
	if (seed == 1000) return 0xff;
	if (seed == 1001) return 0x00;
	if (seed == 1002) return i % 32 == 0 ? 0x01 : 0xff;
	if (seed == 1003) return (i / 4) % 2 == 0 ? 0xff : w[i % 4];
	return i % 64 == 63 ? 0x80 : 0xff;
}
static void fill (unsigned char *b, size_t n, unsigned seed) { size_t i; if (seed >= 1000) { for (i = 0; i < n; i++) b[i] = sbyte (i, seed); return; } for (i = 0; i < n; i++) b[i] = (unsigned char) ((seed * 131u + (unsigned) i * 7u + (unsigned) (i >> 8) * 13u) & 0xff); }
int main (int argc, char **argv) {
	FILE *in; char line[256], op[32]; long a, b, c, d; PCryptoHash *h = NULL;
	if (argc < 3) return 2;
	in = fopen (argv[1], "r"); if (!in) return 2;
	vt_open (argv[2]);
	p_libsys_init (); p_libsys_shutdown (); p_libsys_init ();      /* the library is used after a shutdown / re-initialisation cycle */
	if (!ga_install ()) return 2;      /* fresh memory is garbage, released memory is overwritten (galloc.h) */
	while (fgets (line, sizeof line, in)) {
		a = b = c = d = 0;
		if (sscanf (line, "%31s %ld %ld %ld %ld", op, &a, &b, &c, &d) < 1) continue;
		if (!strcmp (op, "scenario")) { if (h) { p_crypto_hash_free (h); h = NULL; } vt_emit ("{\"e\":\"Reset\"}"); }
		else if (!strcmp (op, "new")) { h = p_crypto_hash_new ((PCryptoHashType) a); vt_emit ("{\"e\":\"hnew\",\"alg\":%ld,\"ok\":%d}", a, h ? 1 : 0); }
		else if (!strcmp (op, "upd")) {
			/* exact-size heap block: an over-read is visible to ASan */
			unsigned char *buf = malloc (b ? (size_t) b : 1);
			fill (buf, (size_t) b, (unsigned) c);
			p_crypto_hash_update (h, buf, (psize) b);
			free (buf);
			vt_emit ("{\"e\":\"upd\",\"c\":%ld,\"len\":%ld}", a, b);
		}
		else if (!strcmp (op, "updmap")) {
			/* one update of 2^LOG2 + EXTRA bytes from a private anonymous mapping filled with the pattern */
			size_t n = ((size_t) 1 << b) + (size_t) c; unsigned char *m = mmap (NULL, n, PROT_READ | PROT_WRITE, MAP_PRIVATE | MAP_ANONYMOUS | MAP_NORESERVE, -1, 0);
			if (m == MAP_FAILED) vt_die ("mmap for big update");
			fill (m, n, (unsigned) d);
			p_crypto_hash_update (h, m, (psize) n);
			munmap (m, n);
			vt_emit ("{\"e\":\"upd\",\"c\":%ld,\"len\":1}", a);
		}
		else if (!strcmp (op, "getsfail")) {        /* the hex string cannot be allocated: the call returns NULL - and the context keeps its digest for the next read */
			pchar *s; ga_fail_next = 1; s = p_crypto_hash_get_string (h); ga_fail_next = 0;
			vt_emit ("{\"e\":\"getsfail\",\"null\":%d}", s ? 0 : 1); p_free (s);
		}
		else if (!strcmp (op, "gets")) { pchar *s = p_crypto_hash_get_string (h); vt_emit ("{\"e\":\"gets\",\"hex\":\"%s\"}", s ? s : "NULL"); p_free (s); }
		else if (!strcmp (op, "getd")) {
			unsigned char buf[80]; psize n = sizeof buf, i; char hex[170];
			p_crypto_hash_get_digest (h, buf, &n);
			for (i = 0; i < n; i++) sprintf (hex + 2 * i, "%02x", buf[i]);
			hex[2 * n] = 0;
			vt_emit ("{\"e\":\"getd\",\"hex\":\"%s\",\"n\":%ld}", hex, (long) n);
		}
		else if (!strcmp (op, "len")) vt_emit ("{\"e\":\"len\",\"v\":%ld}", (long) p_crypto_hash_get_length (h));
		else if (!strcmp (op, "reset")) { p_crypto_hash_reset (h); vt_emit ("{\"e\":\"reset\"}"); }
		else if (!strcmp (op, "free")) { p_crypto_hash_free (h); h = NULL; vt_emit ("{\"e\":\"free\"}"); }
		else vt_die ("bad op");
	}
	if (h) p_crypto_hash_free (h);
	p_mem_restore_vtable ();
	p_libsys_shutdown ();
	vt_close ();
	return 0;
}
