/* PSocketAddress driver (C17).  usage: drv_addr <script> <trace>
 * script: scenario | new HEXTEXT|- PORT | nat LEN HEXBYTES|- | any 4|6 PORT | loop 4|6 PORT | flow HEX32 | scope HEX32
 *         | tonat LEN | obs | free
 * Buffers handed to the library are heap blocks of exactly the stated size, so that an access behind them is visible to
 * the sanitizer build; texts are passed as NUL-terminated heap copies of exactly their length + 1. */
#include <plibsys.h>
#include <ctype.h>
#include "vtrace.h"
#include "galloc.h"

static PSocketAddress *cur;
static int unhex (const char *h, unsigned char *out, int max) {
	int n = 0;
	if (!strcmp (h, "-")) return 0;
	while (h[0] && h[1] && n < max) { unsigned v; if (sscanf (h, "%2x", &v) != 1) break; out[n++] = (unsigned char) v; h += 2; }
	return n;
}
static void emit_bytes (const char *key, const unsigned char *b, int n) { int i; VT ("\"%s\":[", key); for (i = 0; i < n; i++) VT ("%s%u", i ? "," : "", (unsigned) b[i]); VT ("]"); }
static void le32 (unsigned char *o, puint32 v) { memcpy (o, &v, 4); }       /* the bytes of the field as they lie in memory */
static int fam_code (PSocketFamily f) { return f == P_SOCKET_FAMILY_INET ? 4 : f == P_SOCKET_FAMILY_INET6 ? 6 : 0; }

int main (int argc, char **argv) {
	FILE *in; static char line[8192], op[32], a1[4200], a2[4200];
	if (argc < 3) return 2;
	in = fopen (argv[1], "r"); if (!in) return 2;
	vt_open (argv[2]);
	p_libsys_init (); p_libsys_shutdown (); p_libsys_init ();      /* the library is used after a shutdown / re-initialisation cycle */
	if (!ga_install ()) return 2;      /* fresh memory is garbage, released memory is overwritten (galloc.h) */
	while (fgets (line, sizeof line, in)) {
		a1[0] = a2[0] = 0;
		if (sscanf (line, "%31s %4199s %4199s", op, a1, a2) < 1) continue;
		if (!strcmp (op, "scenario")) { if (cur) { p_socket_address_free (cur); cur = NULL; } vt_emit ("{\"e\":\"Reset\"}"); }
		else if (!strcmp (op, "new")) {
			static unsigned char raw[2100]; int n = unhex (a1, raw, 2048); char *txt = malloc ((size_t) n + 1);
			memcpy (txt, raw, (size_t) n); txt[n] = 0;
			if (cur) continue;
			VT ("{\"e\":\"begin\",\"op\":\"new\",\"text\":\"%s\"}", a1); VT_END (); fflush (vt_fp);
			cur = p_socket_address_new (txt, (puint16) atoi (a2));
			free (txt);
			vt_emit ("{\"e\":\"new\",\"text\":\"%s\",\"port\":%d,\"ok\":%d}", a1, atoi (a2), cur ? 1 : 0);
		}
		else if (!strcmp (op, "nat")) {
			static unsigned char raw[300]; int len = atoi (a1), n = unhex (a2, raw, 256); unsigned char *buf = malloc ((size_t) len);
			if (cur || n != len) continue;
			if (len) memcpy (buf, raw, (size_t) len);
			VT ("{\"e\":\"begin\",\"op\":\"nat\",\"len\":%d}", len); VT_END (); fflush (vt_fp);
			cur = p_socket_address_new_from_native (buf, (psize) len);
			VT ("{\"e\":\"nat\",\"len\":%d,\"ok\":%d,", len, cur ? 1 : 0); emit_bytes ("b", raw, len); VT ("}"); VT_END ();
			free (buf);
		}
		else if (!strcmp (op, "any") || !strcmp (op, "loop")) {
			int f = atoi (a1); PSocketFamily pf = f == 4 ? P_SOCKET_FAMILY_INET : P_SOCKET_FAMILY_INET6;
			if (cur) continue;
			cur = op[0] == 'a' ? p_socket_address_new_any (pf, (puint16) atoi (a2)) : p_socket_address_new_loopback (pf, (puint16) atoi (a2));
			if (op[0] == 'a') vt_emit ("{\"e\":\"any\",\"fam\":%d,\"port\":%d,\"ok\":%d}", f, atoi (a2), cur ? 1 : 0);
			else {
				unsigned char nb[64]; memset (nb, 0, sizeof nb);
				if (cur) p_socket_address_to_native (cur, nb, sizeof nb);
				VT ("{\"e\":\"loop\",\"fam\":%d,\"port\":%d,\"ok\":%d,", f, atoi (a2), cur ? 1 : 0); emit_bytes ("a", f == 4 ? nb + 4 : nb + 8, f == 4 ? 4 : 16); VT ("}"); VT_END ();
			}
		}
		else if (!strcmp (op, "flow") || !strcmp (op, "scope")) {
			puint32 v = (puint32) strtoul (a1, NULL, 16); unsigned char b[4];
			if (!cur) continue;
			if (op[0] == 'f') p_socket_address_set_flow_info (cur, v); else p_socket_address_set_scope_id (cur, v);
			le32 (b, v);
			VT ("{\"e\":\"%s\",", op); emit_bytes ("v", b, 4); VT ("}"); VT_END ();
		}
		else if (!strcmp (op, "tonat")) {
			int len = atoi (a1); unsigned char *buf = malloc ((size_t) len); pboolean ok;
			if (!cur || len > 200) { free (buf); continue; }
			memset (buf, 165, (size_t) len);
			VT ("{\"e\":\"begin\",\"op\":\"tonat\",\"len\":%d}", len); VT_END (); fflush (vt_fp);
			ok = p_socket_address_to_native (cur, buf, (psize) len);
			VT ("{\"e\":\"tonat\",\"len\":%d,\"ok\":%d,", len, ok ? 1 : 0); emit_bytes ("b", buf, len); VT ("}"); VT_END ();
			free (buf);
		}
		else if (!strcmp (op, "obs")) {
			unsigned char fb[4], sb[4]; pchar *t; size_t i;
			if (!cur) continue;
			le32 (fb, p_socket_address_get_flow_info (cur)); le32 (sb, p_socket_address_get_scope_id (cur));
			t = p_socket_address_get_address (cur);
			VT ("{\"e\":\"obs\",\"fam\":%d,\"port\":%d,\"nsize\":%d,\"any\":%d,\"loopback\":%d,", fam_code (p_socket_address_get_family (cur)), (int) p_socket_address_get_port (cur),
			    (int) p_socket_address_get_native_size (cur), p_socket_address_is_any (cur) ? 1 : 0, p_socket_address_is_loopback (cur) ? 1 : 0);
			emit_bytes ("flow", fb, 4); VT (","); emit_bytes ("scope", sb, 4);
			VT (",\"text\":\""); if (t) for (i = 0; t[i]; i++) VT ("%02x", (unsigned char) t[i]); else VT ("NULL"); VT ("\"}"); VT_END ();
			p_free (t);
		}
		else if (!strcmp (op, "free")) { if (!cur) continue; p_socket_address_free (cur); cur = NULL; vt_emit ("{\"e\":\"free\"}"); }
		else vt_die ("bad op");
	}
	if (cur) p_socket_address_free (cur);
	p_mem_restore_vtable ();
	p_libsys_shutdown ();
	vt_close ();
	return 0;
}
