/* PError driver (specs/sys/ErrObj.tla; not one of the listed properties).  usage: drv_err <script> <trace>
 * script: scenario | new S | newlit S CODE NATIVE MSG | seterror S CODE NATIVE MSG | seterrorp S CODE NATIVE MSG | setcode S CODE | setnative S N
 *         | setmsg S MSG | clear S | copy S T | free S | obs S          (S, T = slots 1..3; MSG = 0 for NULL, otherwise an index into a text table) */
#include <plibsys.h>
#include "vtrace.h"
#include "galloc.h"
static PError *slot[4];
static const char *TXT[] = { NULL, "", "a", "a message with spaces and a percent sign %d", "\xc3\xa4\xc3\xb6", "0123456789012345678901234567890123456789012345678901234567890123456789012345678901234567890123456789" };
#define NTXT 6
static int msg_id (const char *m) { int i; if (!m) return 0; for (i = 1; i < NTXT; i++) if (!strcmp (m, TXT[i])) return i; return -2; }
int main (int argc, char **argv) {
	FILE *in; char line[256], op[32]; int s, a, b, c;
	if (argc < 3) return 2;
	in = fopen (argv[1], "r"); if (!in) return 2;
	vt_open (argv[2]);
	p_libsys_init (); p_libsys_shutdown (); p_libsys_init ();
	if (!ga_install ()) return 2;
	while (fgets (line, sizeof line, in)) {
		s = a = b = c = 0;
		if (sscanf (line, "%31s %d %d %d %d", op, &s, &a, &b, &c) < 1) continue;
		if (!strcmp (op, "scenario")) { int i; for (i = 1; i <= 3; i++) if (slot[i]) { p_error_free (slot[i]); slot[i] = NULL; } vt_emit ("{\"e\":\"Reset\"}"); continue; }
		if (s < 1 || s > 3) continue;
		if (c < 0 || c >= NTXT) c = 0;
		if (!strcmp (op, "new")) { if (slot[s]) continue; slot[s] = p_error_new (); vt_emit ("{\"e\":\"new\",\"s\":%d,\"ok\":%d}", s, slot[s] ? 1 : 0); }
		else if (!strcmp (op, "newlit")) { if (slot[s]) continue; slot[s] = p_error_new_literal (a, b, TXT[c]); vt_emit ("{\"e\":\"newlit\",\"s\":%d,\"c\":%d,\"n\":%d,\"m\":%d,\"ok\":%d}", s, a, b, c, slot[s] ? 1 : 0); }
		else if (!strcmp (op, "seterror")) { if (!slot[s]) continue; p_error_set_error (slot[s], a, b, TXT[c]); vt_emit ("{\"e\":\"seterror\",\"s\":%d,\"c\":%d,\"n\":%d,\"m\":%d}", s, a, b, c); }
		else if (!strcmp (op, "seterrorp")) { p_error_set_error_p (&slot[s], a, b, TXT[c]); vt_emit ("{\"e\":\"seterrorp\",\"s\":%d,\"c\":%d,\"n\":%d,\"m\":%d}", s, a, b, c); p_error_set_error_p (NULL, a, b, TXT[c]); }
		else if (!strcmp (op, "setcode")) { if (!slot[s]) continue; p_error_set_code (slot[s], a); vt_emit ("{\"e\":\"setcode\",\"s\":%d,\"c\":%d}", s, a); }
		else if (!strcmp (op, "setnative")) { if (!slot[s]) continue; p_error_set_native_code (slot[s], a); vt_emit ("{\"e\":\"setnative\",\"s\":%d,\"n\":%d}", s, a); }
		else if (!strcmp (op, "setmsg")) { if (!slot[s]) continue; if (a < 0 || a >= NTXT) a = 0; p_error_set_message (slot[s], TXT[a]); vt_emit ("{\"e\":\"setmsg\",\"s\":%d,\"m\":%d}", s, a); }
		else if (!strcmp (op, "clear")) { if (!slot[s]) continue; p_error_clear (slot[s]); vt_emit ("{\"e\":\"clear\",\"s\":%d}", s); }
		else if (!strcmp (op, "copy")) { if (!slot[s] || a < 1 || a > 3 || a == s || slot[a]) continue; slot[a] = p_error_copy (slot[s]); vt_emit ("{\"e\":\"copy\",\"s\":%d,\"t\":%d,\"ok\":%d}", s, a, slot[a] ? 1 : 0); }
		else if (!strcmp (op, "free")) { if (!slot[s]) continue; p_error_free (slot[s]); slot[s] = NULL; vt_emit ("{\"e\":\"free\",\"s\":%d}", s); }
		else if (!strcmp (op, "obs")) {
			PError *e = slot[s];      /* may be NULL: the getters then report "nothing" */
			vt_emit ("{\"e\":\"obs\",\"s\":%d,\"ex\":%d,\"code\":%d,\"nat\":%d,\"msg\":%d,\"dom\":%d}", s, e ? 1 : 0, p_error_get_code (e), p_error_get_native_code (e),
				 msg_id (p_error_get_message (e)), (int) p_error_get_domain (e));
		}
		else vt_die ("bad op");
	}
	{ int i; for (i = 1; i <= 3; i++) if (slot[i]) p_error_free (slot[i]); }
	p_error_free (NULL); p_error_clear (NULL); p_error_set_code (NULL, 1); p_error_set_message (NULL, "x");
	p_mem_restore_vtable ();
	p_libsys_shutdown ();
	vt_close ();
	return 0;
}
