/* p_atomic_* driver (C04).
 *   drv_atomic seq  <script> <tracebase>                 one thread, operands from the script
 *   drv_atomic conc <tracebase> <nthreads> <episodes> <ops> <seed>
 * script lines:  <i|p> <op> <hexA> <hexB>
 * Words are logged as 16-bit limbs, least significant first. */
#include <plibsys.h>
#include <stdint.h>
#include <sched.h>
#include "vtmt.h"

static volatile pint ai; static volatile psize ap;   /* the two shared words */
static void limbs (char *buf, uint64_t v, int n) { int i, k = 0; k += sprintf (buf + k, "["); for (i = 0; i < n; i++) k += sprintf (buf + k, "%s%u", i ? "," : "", (unsigned) ((v >> (16 * i)) & 0xffff)); sprintf (buf + k, "]"); }
static void do_op (int t, char c, const char *op, uint64_t a, uint64_t b) {
	char la[64], lb[64], lr[64]; int n = c == 'i' ? 2 : (int) sizeof (psize) / 2; int ok = -1; int hasres = 0; uint64_t res = 0;
	limbs (la, a, n); limbs (lb, b, n);
	VTM ("\"e\":\"call\",\"t\":%d,\"c\":\"%c\",\"op\":\"%s\",\"a\":%s,\"b\":%s", t, c, op, la, lb);
	if (c == 'i') {
		if (!strcmp (op, "get")) { res = (uint32_t) p_atomic_int_get (&ai); hasres = 1; }
		else if (!strcmp (op, "set")) p_atomic_int_set (&ai, (pint) (uint32_t) a);
		else if (!strcmp (op, "inc")) p_atomic_int_inc (&ai);
		else if (!strcmp (op, "dec_and_test")) ok = p_atomic_int_dec_and_test (&ai) ? 1 : 0;
		else if (!strcmp (op, "cas")) ok = p_atomic_int_compare_and_exchange (&ai, (pint) (uint32_t) a, (pint) (uint32_t) b) ? 1 : 0;
		else if (!strcmp (op, "add")) { res = (uint32_t) p_atomic_int_add (&ai, (pint) (uint32_t) a); hasres = 1; }
		else if (!strcmp (op, "and")) { res = p_atomic_int_and ((volatile puint *) &ai, (puint) a); hasres = 1; }
		else if (!strcmp (op, "or")) { res = p_atomic_int_or ((volatile puint *) &ai, (puint) a); hasres = 1; }
		else if (!strcmp (op, "xor")) { res = p_atomic_int_xor ((volatile puint *) &ai, (puint) a); hasres = 1; }
	} else {
		if (!strcmp (op, "get")) { res = (uint64_t) (uintptr_t) p_atomic_pointer_get (&ap); hasres = 1; }
		else if (!strcmp (op, "set")) p_atomic_pointer_set (&ap, (ppointer) (uintptr_t) a);
		else if (!strcmp (op, "cas")) ok = p_atomic_pointer_compare_and_exchange (&ap, (ppointer) (uintptr_t) a, (ppointer) (uintptr_t) b) ? 1 : 0;
		else if (!strcmp (op, "add")) { res = (uint64_t) p_atomic_pointer_add (&ap, (pssize) a); hasres = 1; }
		else if (!strcmp (op, "and")) { res = p_atomic_pointer_and (&ap, (psize) a); hasres = 1; }
		else if (!strcmp (op, "or")) { res = p_atomic_pointer_or (&ap, (psize) a); hasres = 1; }
		else if (!strcmp (op, "xor")) { res = p_atomic_pointer_xor (&ap, (psize) a); hasres = 1; }
	}
	if (hasres) limbs (lr, res, n); else strcpy (lr, "[]");
	VTM ("\"e\":\"ret\",\"t\":%d,\"res\":%s,\"ok\":%d", t, lr, ok);
}
static void epoch (int reset) { char li[64], lp[64]; limbs (li, (uint32_t) ai, 2); limbs (lp, (uint64_t) ap, (int) sizeof (psize) / 2); VTM ("\"e\":\"Epoch\",\"reset\":%d,\"i\":%s,\"p\":%s", reset, li, lp); }

static const char *base; static int nth, episodes, ops; static unsigned seed;
static unsigned rnd (unsigned *s) { *s = *s * 1103515245u + 12345u; return (*s >> 16) & 0x7fff; }
static const uint64_t BND[] = { 0, 1, 2, 0x7fffffffull, 0x80000000ull, 0xffffffffull, 0xfffffffeull, 0x7fffffffffffffffull, 0x8000000000000000ull, 0xffffffffffffffffull, 0x5555555555555555ull, 0xaaaaaaaaaaaaaaaaull, 0x10000ull, 0xffffull };
static void *actor (void *arg) {
	int t = (int) (long) arg, ep, i; unsigned s = seed * 7919u + (unsigned) t * 104729u;
	static const char *IOPS[] = { "add", "add", "inc", "dec_and_test", "cas", "or", "xor", "and", "get", "set" };
	static const char *POPS[] = { "add", "add", "cas", "or", "xor", "and", "get", "set" };
	vtm_open (base, t);
	for (ep = 0; ep < episodes; ep++) {
		vtm_barrier ();
		for (i = 0; i < ops; i++) {
			unsigned x = rnd (&s); char c = (x & 1) ? 'i' : 'p'; const char *op = c == 'i' ? IOPS[rnd (&s) % 10] : POPS[rnd (&s) % 8];
			uint64_t a, b = 0;
			/* episode styles: 0 countdown tickets, 1 unique bit per thread, 2 boundary operands, 3 random */
			switch (ep % 4) {
			case 0: op = (rnd (&s) & 1) ? "add" : (c == 'i' ? "dec_and_test" : "add"); a = 1; break;
			case 1: op = (rnd (&s) & 1) ? "or" : "xor"; a = 1ull << (t - 1); break;
			case 2: a = BND[rnd (&s) % 14]; b = BND[rnd (&s) % 14]; break;
			default: a = ((uint64_t) rnd (&s) << 45) ^ ((uint64_t) rnd (&s) << 30) ^ ((uint64_t) rnd (&s) << 15) ^ rnd (&s); b = rnd (&s); break;
			}
			if (!strcmp (op, "cas")) { a = c == 'i' ? (uint32_t) ai : ap; if (rnd (&s) % 3 == 0) a ^= 1; }
			if (c == 'i') { a &= 0xffffffffull; b &= 0xffffffffull; }
			do_op (t, c, op, a, b);
			if (rnd (&s) % 8 == 0) sched_yield ();
		}
		vtm_barrier ();
	}
	vtm_close ();
	return NULL;
}
/* message passing litmus: data is written plainly, the flag through p_atomic_int_set/get */
static volatile long mp_data; static volatile pint mp_flag; static volatile int mp_go;
static long mp_seen[2][2];
static void *mp_reader (void *arg) { (void) arg; while (mp_go) { if (p_atomic_int_get (&mp_flag) == 1) { long d = mp_data; mp_seen[1][d == 42 ? 1 : 0]++; } } return NULL; }
static void litmus (long rounds) {
	pthread_t r; long i;
	mp_go = 1; pthread_create (&r, NULL, mp_reader, NULL);
	for (i = 0; i < rounds; i++) { mp_data = 42; p_atomic_int_set (&mp_flag, 1); mp_data = 0; p_atomic_int_set (&mp_flag, 0); }
	mp_go = 0; pthread_join (r, NULL);
	if (mp_seen[1][1]) VTM ("\"e\":\"mp\",\"flag\":1,\"data\":42,\"expect\":42,\"count\":%ld", mp_seen[1][1]);
	/* data = 0 with flag = 1 can be a legitimate late read (writer already reset data), so only a read that happened
	 * strictly between set(flag,1) and the next plain write could be judged; the reader cannot know, hence only the
	 * positive observations are logged */
}
/* store-buffering litmus: T1: set(x,1); r1 = get(y)   T2: set(y,1); r2 = get(x).  The two threads sit on different cores (when the
 * process may use more than one), rounds are separated by a spin barrier built from compiler atomics, every round has its own pair
 * of zero-initialised words (different cache lines), and nothing is logged inside a round.  One event per observed outcome and API. */
#include <sched.h>
#define SB_ROUNDS 40000
typedef struct { volatile pint x; char pad1[60]; volatile pint y; char pad2[60]; volatile ppointer px; char pad3[56]; volatile ppointer py; char pad4[56]; } SbCell;
static int sb_ncpu = 1; static SbCell *sb_cell; static volatile int sb_round[2]; static int sb_api; static unsigned char *sb_res[2];
static void sb_pin (int which) {
	cpu_set_t all, one; int c, n = 0;
	if (sched_getaffinity (0, sizeof all, &all) != 0) return;
	for (c = 0; c < CPU_SETSIZE; c++) if (CPU_ISSET (c, &all)) { if (n == which) { CPU_ZERO (&one); CPU_SET (c, &one); pthread_setaffinity_np (pthread_self (), sizeof one, &one); return; } n++; }
}
static void *sb_thread (void *arg) {
	int me = (int) (long) arg, other = 1 - me, i;
	sb_pin (me);
	for (i = 0; i < SB_ROUNDS; i++) {
		SbCell *c = &sb_cell[i]; int spins = 0; long r;
		__atomic_store_n (&sb_round[me], i + 1, __ATOMIC_SEQ_CST);
		while (__atomic_load_n (&sb_round[other], __ATOMIC_SEQ_CST) < i + 1) if (++spins > (sb_ncpu > 1 ? 50000 : 0)) { sched_yield (); spins = 0; }
		if (sb_api == 0) {
			if (me == 0) { p_atomic_int_set (&c->x, 1); r = p_atomic_int_get (&c->y); }
			else { p_atomic_int_set (&c->y, 1); r = p_atomic_int_get (&c->x); }
		} else {
			if (me == 0) { p_atomic_pointer_set (&c->px, (ppointer) 1); r = (long) p_atomic_pointer_get (&c->py); }
			else { p_atomic_pointer_set (&c->py, (ppointer) 1); r = (long) p_atomic_pointer_get (&c->px); }
		}
		sb_res[me][i] = (unsigned char) (r ? 1 : 0);
	}
	return NULL;
}
static void sb_litmus (void) {
	pthread_t th[2]; int i; long cnt[2][2];
	{ cpu_set_t all; if (sched_getaffinity (0, sizeof all, &all) == 0) sb_ncpu = CPU_COUNT (&all); }
	sb_cell = calloc (SB_ROUNDS, sizeof (SbCell)); sb_res[0] = calloc (SB_ROUNDS, 1); sb_res[1] = calloc (SB_ROUNDS, 1);
	if (!sb_cell || !sb_res[0] || !sb_res[1]) return;
	for (sb_api = 0; sb_api <= 1; sb_api++) {
		memset ((void *) sb_cell, 0, SB_ROUNDS * sizeof (SbCell)); sb_round[0] = sb_round[1] = 0; memset (cnt, 0, sizeof cnt);
		for (i = 0; i < 2; i++) pthread_create (&th[i], NULL, sb_thread, (void *) (long) i);
		for (i = 0; i < 2; i++) pthread_join (th[i], NULL);
		for (i = 0; i < SB_ROUNDS; i++) cnt[sb_res[0][i]][sb_res[1][i]]++;
		for (i = 0; i < 4; i++) if (cnt[i >> 1][i & 1]) VTM ("\"e\":\"sb\",\"api\":\"%s\",\"r1\":%d,\"r2\":%d,\"count\":%ld", sb_api ? "pointer" : "int", i >> 1, i & 1, cnt[i >> 1][i & 1]);
	}
	free (sb_cell); free (sb_res[0]); free (sb_res[1]);
}
/* read-modify-write litmus: in every round 2-4 threads leave a spin barrier together and each performs ONE library call on the same
 * fresh word, with nothing logged in between (taking event numbers around every call, as the mixes above do, keeps the calls
 * microseconds apart).  Afterwards the results of a round form an outcome; one event per distinct outcome and program. */
#define RM_ROUNDS 20000
static int lit_ncpu = 1, lit_rounds = RM_ROUNDS;    /* on a single core the barrier yields at once and fewer rounds are run */
typedef struct { const char *name; int nth; int ptr; uint64_t init; const char *op[4]; uint64_t a[4], b[4]; } RmProg;
static const RmProg RMP[] = {
	{ "countdown2", 2, 0, 2, { "dec_and_test", "dec_and_test" }, { 0 }, { 0 } },
	{ "countdown3", 3, 0, 3, { "dec_and_test", "dec_and_test", "dec_and_test" }, { 0 }, { 0 } },
	{ "countdown4of5", 4, 0, 5, { "dec_and_test", "dec_and_test", "dec_and_test", "dec_and_test" }, { 0 }, { 0 } },
	{ "inc-vs-dec", 3, 0, 2, { "dec_and_test", "dec_and_test", "inc" }, { 0 }, { 0 } },
	{ "tickets", 4, 0, 0xfffffffe, { "add", "add", "add", "add" }, { 1, 1, 1, 1 }, { 0 } },
	{ "bits", 4, 0, 0, { "or", "or", "xor", "and" }, { 1, 2, 3, 0xfffffffd }, { 0 } },
	{ "cas-race", 4, 0, 0, { "cas", "cas", "cas", "cas" }, { 0, 0, 0, 0 }, { 11, 12, 13, 14 } },
	{ "ptr-tickets", 3, 1, 0xffffffffffffffffULL, { "add", "add", "add" }, { 1, 1, 1 }, { 0 } },
	{ "ptr-cas-race", 3, 1, 0, { "cas", "cas", "cas" }, { 0, 0, 0 }, { 21, 22, 23 } },
	{ "ptr-bits", 3, 1, 0, { "or", "xor", "or" }, { 0x100000000ULL, 0x100000001ULL, 4 }, { 0 } },
};
typedef struct { volatile pint w; char pad1[60]; volatile ppointer pw; char pad2[56]; } RmCell;
static RmCell *rm_cell; static const RmProg *rm_p; static volatile int rm_round[4]; static uint64_t *rm_res[4]; static signed char *rm_ok[4];
static void *rm_thread (void *arg) {
	int me = (int) (long) arg, i, j; const char *op = rm_p->op[me]; uint64_t a = rm_p->a[me], b = rm_p->b[me];
	sb_pin (me);
	for (i = 0; i < lit_rounds; i++) {
		RmCell *c = &rm_cell[i]; int spins = 0; uint64_t res = 0; int ok = -1;
		__atomic_store_n (&rm_round[me], i + 1, __ATOMIC_SEQ_CST);
		for (j = 0; j < rm_p->nth; j++) while (__atomic_load_n (&rm_round[j], __ATOMIC_SEQ_CST) < i + 1) if (++spins > (lit_ncpu > 1 ? 50000 : 0)) { sched_yield (); spins = 0; }
		if (!rm_p->ptr) {
			if (!strcmp (op, "dec_and_test")) ok = p_atomic_int_dec_and_test (&c->w) ? 1 : 0;
			else if (!strcmp (op, "inc")) p_atomic_int_inc (&c->w);
			else if (!strcmp (op, "add")) res = (uint32_t) p_atomic_int_add (&c->w, (pint) (uint32_t) a);
			else if (!strcmp (op, "or")) res = p_atomic_int_or ((volatile puint *) &c->w, (puint) a);
			else if (!strcmp (op, "and")) res = p_atomic_int_and ((volatile puint *) &c->w, (puint) a);
			else if (!strcmp (op, "xor")) res = p_atomic_int_xor ((volatile puint *) &c->w, (puint) a);
			else if (!strcmp (op, "cas")) ok = p_atomic_int_compare_and_exchange (&c->w, (pint) (uint32_t) a, (pint) (uint32_t) b) ? 1 : 0;
		} else {
			if (!strcmp (op, "add")) res = (uint64_t) p_atomic_pointer_add (&c->pw, (pssize) a);
			else if (!strcmp (op, "or")) res = p_atomic_pointer_or (&c->pw, (psize) a);
			else if (!strcmp (op, "and")) res = p_atomic_pointer_and (&c->pw, (psize) a);
			else if (!strcmp (op, "xor")) res = p_atomic_pointer_xor (&c->pw, (psize) a);
			else if (!strcmp (op, "cas")) ok = p_atomic_pointer_compare_and_exchange (&c->pw, (ppointer) (uintptr_t) a, (ppointer) (uintptr_t) b) ? 1 : 0;
		}
		rm_res[me][i] = res; rm_ok[me][i] = (signed char) ok;
	}
	return NULL;
}
static void rmw_litmus (void) {
	pthread_t th[4]; size_t pi; int i, t;
	{ cpu_set_t all; if (sched_getaffinity (0, sizeof all, &all) == 0) lit_ncpu = CPU_COUNT (&all); lit_rounds = lit_ncpu > 1 ? RM_ROUNDS : 1500; }
	rm_cell = calloc (RM_ROUNDS, sizeof (RmCell)); if (!rm_cell) return;
	for (t = 0; t < 4; t++) { rm_res[t] = calloc (RM_ROUNDS, sizeof (uint64_t)); rm_ok[t] = calloc (RM_ROUNDS, 1); if (!rm_res[t] || !rm_ok[t]) return; }
	for (pi = 0; pi < sizeof RMP / sizeof RMP[0]; pi++) {
		/* distinct outcomes of this program: key = results + final word */
		static struct { uint64_t res[4]; signed char ok[4]; uint64_t fin; long count; } out[64]; int nout = 0, n;
		rm_p = &RMP[pi]; n = rm_p->ptr ? (int) sizeof (psize) / 2 : 2;
		for (i = 0; i < lit_rounds; i++) { rm_cell[i].w = (pint) (uint32_t) rm_p->init; rm_cell[i].pw = (ppointer) (uintptr_t) rm_p->init; }
		for (t = 0; t < 4; t++) rm_round[t] = 0;
		for (t = 0; t < rm_p->nth; t++) pthread_create (&th[t], NULL, rm_thread, (void *) (long) t);
		for (t = 0; t < rm_p->nth; t++) pthread_join (th[t], NULL);
		for (i = 0; i < lit_rounds; i++) {
			uint64_t fin = rm_p->ptr ? (uint64_t) (uintptr_t) rm_cell[i].pw : (uint64_t) (uint32_t) rm_cell[i].w; int k, same;
			for (k = 0; k < nout; k++) { same = out[k].fin == fin; for (t = 0; same && t < rm_p->nth; t++) same = out[k].res[t] == rm_res[t][i] && out[k].ok[t] == rm_ok[t][i]; if (same) break; }
			if (k == nout) { if (nout == 64) continue; out[k].fin = fin; out[k].count = 0; for (t = 0; t < rm_p->nth; t++) { out[k].res[t] = rm_res[t][i]; out[k].ok[t] = rm_ok[t][i]; } nout++; }
			out[k].count++;
		}
		for (i = 0; i < nout; i++) {
			char buf[1024], l1[64], l2[64]; int k = 0;
			limbs (l1, rm_p->init, n); limbs (l2, out[i].fin, n);
			k += sprintf (buf + k, "\"e\":\"rmw\",\"prog\":\"%s\",\"init\":%s,\"final\":%s,\"count\":%ld,\"ops\":[", rm_p->name, l1, l2, out[i].count);
			for (t = 0; t < rm_p->nth; t++) {
				const char *op = rm_p->op[t]; int hasres = strcmp (op, "dec_and_test") && strcmp (op, "inc") && strcmp (op, "cas"); char la[64], lb[64], lr[64];
				limbs (la, rm_p->a[t], n); limbs (lb, rm_p->b[t], n); if (hasres) limbs (lr, out[i].res[t], n); else strcpy (lr, "[]");
				k += sprintf (buf + k, "%s{\"op\":\"%s\",\"a\":%s,\"b\":%s,\"res\":%s,\"ok\":%d}", t ? "," : "", op, la, lb, lr, (int) out[i].ok[t]);
			}
			sprintf (buf + k, "]");
			VTM ("%s", buf);
		}
	}
	free (rm_cell); for (t = 0; t < 4; t++) { free (rm_res[t]); free (rm_ok[t]); }
}
/* compare-and-exchange flow litmus: a word is moved between the values 0, 1 and 2 by successful compare-and-exchange calls only.
 * Per round two "togglers" try 0->1 and 1->0 in turn and a "closer" spins on 1->2; when it succeeds everybody stops.  Nothing is logged
 * inside a round; afterwards the numbers of successful moves of each kind and the final word form the outcome (pairs of opposite
 * moves are cancelled before the outcome is recorded - that keeps the number of distinct outcomes small and preserves the balance
 * AtomicsLin checks). */
typedef struct { volatile pint w; char pad1[60]; volatile ppointer pw; char pad2[56]; volatile int stop, done; char pad3[56]; } FlCell;
static FlCell *fl_cell; static volatile int fl_round[3]; static int fl_ptr; static int *fl_n[3][2];
static int fl_cas (FlCell *c, long a, long b) {
	return fl_ptr ? (p_atomic_pointer_compare_and_exchange (&c->pw, (ppointer) a, (ppointer) b) ? 1 : 0) : (p_atomic_int_compare_and_exchange (&c->w, (pint) a, (pint) b) ? 1 : 0);
}
static void *fl_thread (void *arg) {
	int me = (int) (long) arg, i, j;
	sb_pin (me);
	for (i = 0; i < lit_rounds; i++) {
		FlCell *c = &fl_cell[i]; int spins = 0, k, n0 = 0, n1 = 0;
		__atomic_store_n (&fl_round[me], i + 1, __ATOMIC_SEQ_CST);
		for (j = 0; j < 3; j++) while (__atomic_load_n (&fl_round[j], __ATOMIC_SEQ_CST) < i + 1) if (++spins > (lit_ncpu > 1 ? 50000 : 0)) { sched_yield (); spins = 0; }
		if (me < 2) {          /* toggler */
			for (k = 0; k < 400 && !__atomic_load_n (&c->stop, __ATOMIC_RELAXED); k++) { n0 += fl_cas (c, 0, 1); n1 += fl_cas (c, 1, 0); }
			__atomic_add_fetch (&c->done, 1, __ATOMIC_SEQ_CST);
		} else {               /* closer */
			for (;;) {
				int fin = __atomic_load_n (&c->done, __ATOMIC_SEQ_CST) == 2;
				if (fl_cas (c, 1, 2)) { n0 = 1; break; }
				if (fin) break;
				if (lit_ncpu <= 1) sched_yield ();
			}
			__atomic_store_n (&c->stop, 1, __ATOMIC_SEQ_CST);
		}
		fl_n[me][0][i] = n0; fl_n[me][1][i] = n1;
	}
	return NULL;
}
static void flow_litmus (void) {
	pthread_t th[3]; int i, t;
	fl_cell = calloc (RM_ROUNDS, sizeof (FlCell)); if (!fl_cell) return;
	for (t = 0; t < 3; t++) { fl_n[t][0] = calloc (RM_ROUNDS, sizeof (int)); fl_n[t][1] = calloc (RM_ROUNDS, sizeof (int)); if (!fl_n[t][0] || !fl_n[t][1]) return; }
	for (fl_ptr = 0; fl_ptr <= 1; fl_ptr++) {
		static struct { int n01, n10, n12, fin; long count; } out[64]; int nout = 0, k;
		memset ((void *) fl_cell, 0, RM_ROUNDS * sizeof (FlCell));
		for (t = 0; t < 3; t++) fl_round[t] = 0;
		for (t = 0; t < 3; t++) pthread_create (&th[t], NULL, fl_thread, (void *) (long) t);
		for (t = 0; t < 3; t++) pthread_join (th[t], NULL);
		for (i = 0; i < lit_rounds; i++) {
			int n01 = fl_n[0][0][i] + fl_n[1][0][i], n10 = fl_n[0][1][i] + fl_n[1][1][i], n12 = fl_n[2][0][i], m = n01 < n10 ? n01 : n10;
			int fin = fl_ptr ? (int) (long) fl_cell[i].pw : (int) fl_cell[i].w;
			n01 -= m; n10 -= m;
			for (k = 0; k < nout; k++) if (out[k].n01 == n01 && out[k].n10 == n10 && out[k].n12 == n12 && out[k].fin == fin) break;
			if (k == nout) { if (nout == 64) continue; out[k].n01 = n01; out[k].n10 = n10; out[k].n12 = n12; out[k].fin = fin; out[k].count = 0; nout++; }
			out[k].count++;
		}
		for (k = 0; k < nout; k++)
			VTM ("\"e\":\"casflow\",\"api\":\"%s\",\"init\":0,\"final\":%d,\"count\":%ld,\"moves\":[{\"f\":0,\"t\":1,\"n\":%d},{\"f\":1,\"t\":0,\"n\":%d},{\"f\":1,\"t\":2,\"n\":%d}]",
			     fl_ptr ? "pointer" : "int", out[k].fin, out[k].count, out[k].n01, out[k].n10, out[k].n12);
	}
	free (fl_cell); for (t = 0; t < 3; t++) { free (fl_n[t][0]); free (fl_n[t][1]); }
}
int main (int argc, char **argv) {
	if (argc < 4) return 2;
	p_libsys_init (); p_libsys_shutdown (); p_libsys_init ();      /* the library is used after a shutdown / re-initialisation cycle */
	if (!strcmp (argv[1], "seq")) {
		FILE *in = fopen (argv[2], "r"); char line[256], c, op[32]; unsigned long long a, b;
		if (!in) return 2;
		vtm_init (0); vtm_open (argv[3], 1);
		epoch (1);
		while (fgets (line, sizeof line, in)) {
			if (sscanf (line, " %c %31s %llx %llx", &c, op, &a, &b) < 4) continue;
			do_op (1, c, op, a, b);
		}
		epoch (0);
		vtm_close ();
	} else {
		int i, ep; pthread_t th[32];
		if (argc < 7) return 2;
		base = argv[2]; nth = atoi (argv[3]); episodes = atoi (argv[4]); ops = atoi (argv[5]); seed = (unsigned) atoi (argv[6]);
		vtm_init (nth + 1); vtm_open (base, 0);
		for (i = 1; i <= nth; i++) pthread_create (&th[i], NULL, actor, (void *) (long) i);
		for (ep = 0; ep < episodes; ep++) {
			int reset = ep == 0;
			if (ep % 4 == 0) { ai = nth * ops / 3; ap = 0; reset = 1; } else if (ep % 4 == 1) { ai = 0; ap = 0; reset = 1; }
			epoch (reset); vtm_barrier (); vtm_barrier ();
		}
		epoch (0);
		for (i = 1; i <= nth; i++) pthread_join (th[i], NULL);
		litmus (200000);
		sb_litmus ();
		rmw_litmus ();
		flow_litmus ();
		vtm_close ();
	}
	p_libsys_shutdown ();
	return 0;
}
