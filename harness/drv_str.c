/* PString helpers driver (specs/data/StrOps.tla; not one of the listed properties).  usage: drv_str <script> <trace>
 * script (strings as hex, "-" = empty): dup HEX | chomp HEX | tok HEX DELIMHEX [DELIMHEX ...] | null
 * Strings handed to the library are exact-size heap copies, so that reading or writing past them is visible to the sanitizer build. */
#include <plibsys.h>
#include "vtrace.h"
#include "galloc.h"
static int unhex (const char *h, unsigned char *out, int max) {
	int n = 0;
	if (!strcmp (h, "-")) return 0;
	while (h[0] && h[1] && n < max) { unsigned v; if (sscanf (h, "%2x", &v) != 1) break; out[n++] = (unsigned char) v; h += 2; }
	return n;
}
static char *heapstr (const char *hex) { static unsigned char raw[4096]; int n = unhex (hex, raw, 4000); char *s = malloc ((size_t) n + 1); memcpy (s, raw, (size_t) n); s[n] = 0; return s; }
static void emit_str (const char *key, const char *s) { size_t i; VT ("\"%s\":[", key); for (i = 0; s[i]; i++) VT ("%s%u", i ? "," : "", (unsigned) (unsigned char) s[i]); VT ("]"); }
int main (int argc, char **argv) {
	FILE *in; static char line[65536]; char *w[40]; int nw;
	if (argc < 3) return 2;
	in = fopen (argv[1], "r"); if (!in) return 2;
	vt_open (argv[2]);
	p_libsys_init (); p_libsys_shutdown (); p_libsys_init ();
	if (!ga_install ()) return 2;      /* fresh memory is garbage, released memory is overwritten (galloc.h) */
	while (fgets (line, sizeof line, in)) {
		char *sv = NULL, *t; nw = 0;
		for (t = strtok_r (line, " \n", &sv); t && nw < 40; t = strtok_r (NULL, " \n", &sv)) w[nw++] = t;
		if (nw < 1) continue;
		if (!strcmp (w[0], "dup") && nw >= 2) { char *s = heapstr (w[1]), *r = p_strdup (s); if (!r) vt_die ("dup"); VT ("{\"e\":\"dup\","); emit_str ("s", s); VT (","); emit_str ("r", r); VT ("}"); VT_END (); p_free (r); free (s); }
		else if (!strcmp (w[0], "chomp") && nw >= 2) { char *s = heapstr (w[1]), *r = p_strchomp (s); if (!r) vt_die ("chomp"); VT ("{\"e\":\"chomp\","); emit_str ("s", s); VT (","); emit_str ("r", r); VT ("}"); VT_END (); p_free (r); free (s); }
		else if (!strcmp (w[0], "tok") && nw >= 3) {
			char *s = heapstr (w[1]), *buf = NULL; int i;
			VT ("{\"e\":\"tok\","); emit_str ("s", s); VT (",\"calls\":[");
			for (i = 2; i < nw; i++) {
				char *d = heapstr (w[i]), *r = p_strtok (i == 2 ? s : NULL, d, &buf);
				VT ("%s{", i > 2 ? "," : ""); emit_str ("d", d); VT (",");
				if (r) emit_str ("r", r); else VT ("\"r\":[-1]");
				VT ("}"); free (d);
			}
			VT ("]}"); VT_END (); free (s);
		}
		else if (!strcmp (w[0], "null")) {
			char s[4] = "a,b", *buf = NULL;
			vt_emit ("{\"e\":\"null\",\"r\":[%d,%d,%d,%d]}", p_strdup (NULL) == NULL, p_strchomp (NULL) == NULL, p_strtok (s, NULL, &buf) == s, p_strtok (s, ",", NULL) == s);
		}
		else vt_die ("bad op");
	}
	p_mem_restore_vtable ();
	p_libsys_shutdown ();
	vt_close ();
	return 0;
}
