/* Concurrent PShm lock driver (C07 "p_shm_lock/unlock behave as one system-wide mutex per name"):
 * actors (threads or forked processes), each with its own handle of the same name, increment a plain
 * counter stored in the segment under p_shm_lock. Events are in LockLin's format (object 1).
 * usage: drv_shm_conc <tracebase> <name> <nactors> <episodes> <ops> <procs:0|1> <seed> */
#include <plibsys.h>
#include <sys/wait.h>
#include <sched.h>
#include "vtmt.h"
static const char *base, *name; static int nact, episodes, ops, procs; static unsigned seed;
static unsigned rnd (unsigned *s) { *s = *s * 1103515245u + 12345u; return (*s >> 16) & 0x7fff; }
static void *actor (void *arg) {
	int t = (int) (long) arg, ep, i; unsigned s = seed * 7919u + (unsigned) t * 104729u; PShm *shm; volatile long *cell;
	if (procs) p_libsys_init ();
	vtm_open (base, t);
	shm = p_shm_new (name, 64, P_SHM_ACCESS_READWRITE, NULL);
	if (!shm) { fprintf (stderr, "actor %d: p_shm_new failed\n", t); exit (3); }
	cell = (volatile long *) p_shm_get_address (shm);
	for (ep = 0; ep < episodes; ep++) {
		vtm_barrier ();
		for (i = 0; i < ops; i++) {
			pboolean r; long v;
			VTM ("\"e\":\"call\",\"t\":%d,\"o\":1,\"op\":\"wlock\"", t);
			r = p_shm_lock (shm, NULL);
			VTM ("\"e\":\"ret\",\"t\":%d,\"o\":1,\"res\":%d", t, r ? 1 : 0);
			v = *cell; if (rnd (&s) % 4 == 0) sched_yield (); *cell = v + 1;
			VTM ("\"e\":\"cs\",\"t\":%d,\"o\":1,\"rd\":%ld,\"wr\":%ld", t, v, v + 1);
			VTM ("\"e\":\"call\",\"t\":%d,\"o\":1,\"op\":\"wunlock\"", t);
			r = p_shm_unlock (shm, NULL);
			VTM ("\"e\":\"ret\",\"t\":%d,\"o\":1,\"res\":%d", t, r ? 1 : 0);
			if (rnd (&s) % 6 == 0) sched_yield ();
		}
		vtm_barrier ();
	}
	p_shm_free (shm);
	vtm_close ();
	if (procs) p_libsys_shutdown ();
	return NULL;
}
int main (int argc, char **argv) {
	int i, ep; pthread_t th[16]; pid_t pids[16]; PShm *shm; volatile long *cell;
	if (argc < 8) return 2;
	base = argv[1]; name = argv[2]; nact = atoi (argv[3]); episodes = atoi (argv[4]); ops = atoi (argv[5]); procs = atoi (argv[6]); seed = (unsigned) atoi (argv[7]);
	if (nact > 8) return 2;
	vtm_init (nact + 1);
	p_libsys_init (); p_libsys_shutdown (); p_libsys_init ();      /* the library is used after a shutdown / re-initialisation cycle */
	vtm_open (base, 0);
	shm = p_shm_new (name, 64, P_SHM_ACCESS_READWRITE, NULL);
	if (!shm) return 3;
	cell = (volatile long *) p_shm_get_address (shm);
	for (i = 1; i <= nact; i++) {
		if (procs) { fflush (NULL); if ((pids[i] = fork ()) == 0) { vtm_fp = NULL; actor ((void *) (long) i); _exit (0); } }
		else pthread_create (&th[i], NULL, actor, (void *) (long) i);
	}
	for (ep = 0; ep < episodes; ep++) { VTM ("\"e\":\"Epoch\",\"cells\":[[1,%ld]]", *cell); vtm_barrier (); vtm_barrier (); }
	VTM ("\"e\":\"Epoch\",\"cells\":[[1,%ld]]", *cell);
	for (i = 1; i <= nact; i++) { if (procs) { int st; waitpid (pids[i], &st, 0); if (st) return 3; } else pthread_join (th[i], NULL); }
	p_shm_free (shm);
	vtm_close ();
	p_libsys_shutdown ();
	return 0;
}
