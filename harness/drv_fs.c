/* PDir / PFile driver (specs/sys/FsDir.tla; not one of the listed properties).  usage: drv_fs <script> <trace> <root directory>
 * script: reset | mkdir N | rmdir N | mkfile N | rmfile N | put N | take N | open C SLASH | openon N | next C | drain C | rewind C
 *         | close C | obs | null
 * N = 1..3 names an entry of the root directory ("a", "bb.txt", a 200-character name); in the trace "." is 101, ".." 102, the
 * file inside a sub-directory 103, anything else 0.  C = 1..2 is a PDir object on the root directory. */
#include <plibsys.h>
#include <sys/stat.h>
#include <fcntl.h>
#include "vtrace.h"
#include "galloc.h"

#define NN 3
static char names[NN + 1][256]; static const char *root; static PDir *cur[3];
static void path_of (int n, char *out, size_t sz) { snprintf (out, sz, "%s/%s", root, names[n]); }
static int id_of (const char *nm) {
	int i;
	if (!strcmp (nm, ".")) return 101;
	if (!strcmp (nm, "..")) return 102;
	if (!strcmp (nm, "x")) return 103;
	for (i = 1; i <= NN; i++) if (!strcmp (nm, names[i])) return i;
	return 0;
}
static const char *tname (PDirEntryType t) { return t == P_DIR_ENTRY_TYPE_DIR ? "dir" : t == P_DIR_ENTRY_TYPE_FILE ? "file" : "other"; }
static int code_of (PError **e) { int c = 0; if (*e) { c = p_error_get_code (*e); if (c == 0) c = -1; p_error_free (*e); *e = NULL; } return c; }
static void wipe (void) {
	int i; char p[700], q[720];
	for (i = 1; i <= 2; i++) if (cur[i]) { p_dir_free (cur[i]); cur[i] = NULL; }
	for (i = 1; i <= NN; i++) { path_of (i, p, sizeof p); snprintf (q, sizeof q, "%s/x", p); unlink (q); rmdir (p); unlink (p); }
}
static int next_ (int c) {
	PError *e = NULL; PDirEntry *en = p_dir_get_next_entry (cur[c], &e);
	if (en) { vt_emit ("{\"e\":\"next\",\"c\":%d,\"n\":%d,\"type\":\"%s\"}", c, id_of (en->name), tname (en->type)); p_dir_entry_free (en); if (e) vt_die ("entry and error"); return 1; }
	vt_emit ("{\"e\":\"end\",\"c\":%d,\"err\":%d}", c, code_of (&e));
	return 0;
}
int main (int argc, char **argv) {
	FILE *in; char line[256], op[32], p[700], q[720]; int a, b, i;
	if (argc < 4) return 2;
	root = argv[3];
	strcpy (names[1], "a"); strcpy (names[2], "bb.txt"); memset (names[3], 'z', 200); names[3][200] = 0;
	in = fopen (argv[1], "r"); if (!in) return 2;
	vt_open (argv[2]);
	p_libsys_init (); p_libsys_shutdown (); p_libsys_init ();
	if (!ga_install ()) return 2;      /* fresh memory is garbage, released memory is overwritten (galloc.h) */
	mkdir (root, 0777);
	while (fgets (line, sizeof line, in)) {
		PError *e = NULL; pboolean ok;
		a = b = 0;
		if (sscanf (line, "%31s %d %d", op, &a, &b) < 1) continue;
		if (!strcmp (op, "reset")) { wipe (); vt_emit ("{\"e\":\"Reset\"}"); continue; }
		if (!strcmp (op, "obs")) {
			VT ("{\"e\":\"obs\",\"d\":["); for (i = 1; i <= NN; i++) { path_of (i, p, sizeof p); VT ("%s%d", i > 1 ? "," : "", p_dir_is_exists (p) ? 1 : 0); }
			VT ("],\"f\":["); for (i = 1; i <= NN; i++) { path_of (i, p, sizeof p); VT ("%s%d", i > 1 ? "," : "", p_file_is_exists (p) ? 1 : 0); }
			VT ("]}"); VT_END (); continue;
		}
		if (!strcmp (op, "null")) {
			int r[15], k = 0; pchar *s;
			r[k++] = p_dir_new (NULL, &e) != NULL; r[k++] = code_of (&e);
			r[k++] = p_dir_create (NULL, 0777, &e) ? 1 : 0; r[k++] = code_of (&e);
			r[k++] = p_dir_remove (NULL, &e) ? 1 : 0; r[k++] = code_of (&e);
			r[k++] = p_dir_get_next_entry (NULL, &e) != NULL; r[k++] = code_of (&e);
			r[k++] = p_dir_rewind (NULL, &e) ? 1 : 0; r[k++] = code_of (&e);
			r[k++] = p_dir_is_exists (NULL) ? 1 : 0;
			s = p_dir_get_path (NULL); r[k++] = s != NULL;
			r[k++] = p_file_is_exists (NULL) ? 1 : 0;
			r[k++] = p_file_remove (NULL, &e) ? 1 : 0; r[k++] = code_of (&e);
			p_dir_free (NULL); p_dir_entry_free (NULL);
			VT ("{\"e\":\"null\",\"r\":["); for (i = 0; i < k; i++) VT ("%s%d", i ? "," : "", r[i]); VT ("]}"); VT_END (); continue;
		}
		if (!strcmp (op, "open") || !strcmp (op, "next") || !strcmp (op, "drain") || !strcmp (op, "rewind") || !strcmp (op, "close")) {
			int c = a;
			if (c < 1 || c > 2) continue;
			if (!strcmp (op, "open")) {
				pchar *gp; int pathok;
				if (cur[c]) continue;
				snprintf (p, sizeof p, "%s%s", root, b ? "/" : "");      /* with or without a trailing separator */
				cur[c] = p_dir_new (p, &e);
				gp = cur[c] ? p_dir_get_path (cur[c]) : NULL; pathok = gp && !strcmp (gp, p); p_free (gp);
				vt_emit ("{\"e\":\"open\",\"c\":%d,\"ok\":%d,\"err\":%d,\"pathok\":%d}", c, cur[c] ? 1 : 0, code_of (&e), pathok);
			} else if (!cur[c]) continue;
			else if (!strcmp (op, "next")) next_ (c);
			else if (!strcmp (op, "drain")) { int guard = 0; while (guard++ < 12 && next_ (c)) ; }
			else if (!strcmp (op, "rewind")) { ok = p_dir_rewind (cur[c], &e); vt_emit ("{\"e\":\"rewind\",\"c\":%d,\"ok\":%d}", c, ok ? 1 : 0); code_of (&e); }
			else { p_dir_free (cur[c]); cur[c] = NULL; vt_emit ("{\"e\":\"close\",\"c\":%d}", c); }
			continue;
		}
		if (a < 1 || a > NN) continue;
		path_of (a, p, sizeof p);
		if (!strcmp (op, "mkdir")) { ok = p_dir_create (p, 0777, &e); vt_emit ("{\"e\":\"mkdir\",\"n\":%d,\"ok\":%d,\"err\":%d}", a, ok ? 1 : 0, code_of (&e)); }
		else if (!strcmp (op, "rmdir")) { ok = p_dir_remove (p, &e); vt_emit ("{\"e\":\"rmdir\",\"n\":%d,\"ok\":%d,\"err\":%d}", a, ok ? 1 : 0, code_of (&e)); }
		else if (!strcmp (op, "rmfile")) { ok = p_file_remove (p, &e); vt_emit ("{\"e\":\"rmfile\",\"n\":%d,\"ok\":%d,\"err\":%d}", a, ok ? 1 : 0, code_of (&e)); }
		else if (!strcmp (op, "mkfile")) {
			struct stat sb; int fd;
			if (lstat (p, &sb) == 0) continue;                       /* the environment creates files only where nothing is */
			fd = open (p, O_CREAT | O_EXCL | O_WRONLY, 0666); if (fd < 0) vt_die ("mkfile"); close (fd);
			vt_emit ("{\"e\":\"mkfile\",\"n\":%d}", a);
		}
		else if (!strcmp (op, "put") || !strcmp (op, "take")) {
			struct stat sb; int fd, have;
			if (stat (p, &sb) != 0 || !S_ISDIR (sb.st_mode)) continue;
			snprintf (q, sizeof q, "%s/x", p); have = lstat (q, &sb) == 0;
			if (!strcmp (op, "put")) { if (have) continue; fd = open (q, O_CREAT | O_EXCL | O_WRONLY, 0666); if (fd < 0) vt_die ("put"); close (fd); vt_emit ("{\"e\":\"put\",\"n\":%d}", a); }
			else { if (!have) continue; ok = p_file_remove (q, &e); vt_emit ("{\"e\":\"take\",\"n\":%d,\"ok\":%d,\"err\":%d}", a, ok ? 1 : 0, code_of (&e)); }
		}
		else if (!strcmp (op, "openon")) {
			PDir *d = p_dir_new (p, &e); int ec = code_of (&e);
			if (!d) vt_emit ("{\"e\":\"openon\",\"n\":%d,\"ok\":0,\"err\":%d,\"names\":[],\"types\":[]}", a, ec);
			else {
				int ids[8], k = 0, guard = 0; const char *ty[8]; PDirEntry *en;
				while (guard++ < 8 && (en = p_dir_get_next_entry (d, &e)) != NULL) { ids[k] = id_of (en->name); ty[k++] = tname (en->type); p_dir_entry_free (en); }
				ec = code_of (&e);
				p_dir_free (d);
				VT ("{\"e\":\"openon\",\"n\":%d,\"ok\":1,\"err\":%d,\"names\":[", a, ec); for (i = 0; i < k; i++) VT ("%s%d", i ? "," : "", ids[i]);
				VT ("],\"types\":["); for (i = 0; i < k; i++) VT ("%s\"%s\"", i ? "," : "", ty[i]); VT ("]}"); VT_END ();
			}
		}
		else vt_die ("bad op");
	}
	wipe (); rmdir (root);
	p_mem_restore_vtable ();
	p_libsys_shutdown ();
	vt_close ();
	return 0;
}
