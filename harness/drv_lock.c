#define _GNU_SOURCE
/* Free-running lock driver (C01, C02): real threads hammer PMutex / PSpinLock / PRWLock objects,
 * every call / return and every critical-section access to a plain (non-atomic) data cell is
 * logged with the process-wide sequence number; TLC later searches a linearization (LockLin).
 * usage: drv_lock <tracebase> <mutex|spin|rw> <nthreads> <nobj> <episodes> <ops> <seed> */
#include <plibsys.h>
#include <sched.h>
#include <time.h>
#include "galloc.h"
#include "vtmt.h"

static const char *base, *kind; static int nth, nobj, episodes, ops, fresh; static unsigned seed;
static PMutex *mx[8]; static PSpinLock *sp[8]; static PRWLock *rw[8];
static volatile long cell[8][16];   /* plain data, one cache line apart */
static unsigned rnd (unsigned *s) { *s = *s * 1103515245u + 12345u; return (*s >> 16) & 0x7fff; }

static int do_call (int t, int o, const char *op) {
	pboolean r = FALSE;
	VTM ("\"e\":\"call\",\"t\":%d,\"o\":%d,\"op\":\"%s\"", t, o, op);
	if (kind[0] == 'm') {
		if (!strcmp (op, "wlock")) r = p_mutex_lock (mx[o]);
		else if (!strcmp (op, "wtry")) r = p_mutex_trylock (mx[o]);
		else r = p_mutex_unlock (mx[o]);
	} else if (kind[0] == 's') {
		if (!strcmp (op, "wlock")) r = p_spinlock_lock (sp[o]);
		else if (!strcmp (op, "wtry")) r = p_spinlock_trylock (sp[o]);
		else r = p_spinlock_unlock (sp[o]);
	} else {
		if (!strcmp (op, "wlock")) r = p_rwlock_writer_lock (rw[o]);
		else if (!strcmp (op, "wtry")) r = p_rwlock_writer_trylock (rw[o]);
		else if (!strcmp (op, "rlock")) r = p_rwlock_reader_lock (rw[o]);
		else if (!strcmp (op, "rtry")) r = p_rwlock_reader_trylock (rw[o]);
		else if (!strcmp (op, "wunlock")) r = p_rwlock_writer_unlock (rw[o]);
		else r = p_rwlock_reader_unlock (rw[o]);
	}
	VTM ("\"e\":\"ret\",\"t\":%d,\"o\":%d,\"res\":%d", t, o, r ? 1 : 0);
	return r ? 1 : 0;
}
static void *actor (void *arg) {
	int t = (int) (long) arg, ep, i; unsigned s = seed * 7919u + (unsigned) t * 104729u;
	vtm_open (base, t);
	for (ep = 0; ep < episodes; ep++) {
		vtm_barrier ();
		for (i = 0; i < ops; i++) {
			int o = 1 + (int) (rnd (&s) % (unsigned) nobj), x = (int) (rnd (&s) % 100), got, excl;
			const char *op;
			if (kind[0] == 'r') op = x < 35 ? "rlock" : x < 55 ? "rtry" : x < 85 ? "wlock" : "wtry";
			else op = x < 65 ? "wlock" : "wtry";
			excl = op[0] == 'w';
			got = do_call (t, o, op);
			if (!got) { if (op[1] == 'l') { fprintf (stderr, "lock call returned FALSE\n"); exit (3); } continue; }
			if (excl) {
				long v = cell[o][0];
				if (rnd (&s) % 8 == 0) sched_yield ();
				cell[o][0] = v + 1;
				VTM ("\"e\":\"cs\",\"t\":%d,\"o\":%d,\"rd\":%ld,\"wr\":%ld", t, o, v, v + 1);
			} else {
				long v = cell[o][0];
				if (rnd (&s) % 8 == 0) sched_yield ();
				VTM ("\"e\":\"cs\",\"t\":%d,\"o\":%d,\"rd\":%ld,\"wr\":-1", t, o, v);
			}
			do_call (t, o, excl ? "wunlock" : "runlock");
			if (rnd (&s) % 16 == 0) sched_yield ();
		}
		vtm_barrier ();
	}
	vtm_close ();
	return NULL;
}
/* "trylock never blocks": thread 16 holds object 1 and keeps holding it until thread 15's trylock calls have returned; if they have not
 * returned after 3 s although the lock was held all the time, the trylock is blocked (TryBlocked event - no spec action explains it) */
static volatile int th_flag;
static double now_s (void) { struct timespec ts; clock_gettime (CLOCK_MONOTONIC, &ts); return ts.tv_sec + ts.tv_nsec * 1e-9; }
static void *try_helper (void *arg) {
	(void) arg;
	vtm_open (base, 15);
	while (__atomic_load_n (&th_flag, __ATOMIC_SEQ_CST) < 1) sched_yield ();
	if (kind[0] == 'r') { if (do_call (15, 1, "rtry")) do_call (15, 1, "runlock"); }
	if (do_call (15, 1, "wtry")) do_call (15, 1, "wunlock");
	__atomic_store_n (&th_flag, 2, __ATOMIC_SEQ_CST);
	vtm_close ();
	return NULL;
}
static void tryhold (void) {
	pthread_t h; double t0;
	th_flag = 0;
	pthread_create (&h, NULL, try_helper, NULL);
	do_call (16, 1, "wlock");
	__atomic_store_n (&th_flag, 1, __ATOMIC_SEQ_CST);
	t0 = now_s ();
	while (__atomic_load_n (&th_flag, __ATOMIC_SEQ_CST) < 2 && now_s () - t0 < 3.0) sched_yield ();
	if (__atomic_load_n (&th_flag, __ATOMIC_SEQ_CST) < 2) VTM ("\"e\":\"TryBlocked\",\"t\":15,\"o\":1");
	do_call (16, 1, "wunlock");
	pthread_join (h, NULL);
}
/* trylock racing trylock on a free lock: both threads leave a spin barrier together; the winner keeps the lock until the loser's call has returned
 * (2 s watchdog -> TryBlocked: the loser was inside trylock all the time the lock was held) */
static volatile int tr_round[2], tr_ret[2]; static int tr_rounds, tr_spin = 20000; static volatile int tr_stop;
static int raw_try (void) { return kind[0] == 'm' ? p_mutex_trylock (mx[1]) : kind[0] == 's' ? p_spinlock_trylock (sp[1]) : p_rwlock_writer_trylock (rw[1]); }
static void raw_unlock (void) { if (kind[0] == 'm') p_mutex_unlock (mx[1]); else if (kind[0] == 's') p_spinlock_unlock (sp[1]); else p_rwlock_writer_unlock (rw[1]); }
static void *tryrace_thread (void *arg) {
	int me = (int) (long) arg, other = 1 - me, r;
	if (me == 0) vtm_open (base, 15);
	for (r = 1; r <= tr_rounds && !tr_stop; r++) {
		int got; double t0;
		__atomic_store_n (&tr_round[me], r, __ATOMIC_SEQ_CST);
		{ int sp_ = 0; while (__atomic_load_n (&tr_round[other], __ATOMIC_SEQ_CST) < r && !tr_stop) if (++sp_ > tr_spin) { sched_yield (); sp_ = 0; } }
		got = raw_try ();            /* not logged: event numbers around the calls would keep them apart; only a blocked call becomes an event */
		__atomic_store_n (&tr_ret[me], r, __ATOMIC_SEQ_CST);
		if (got) {
			t0 = now_s ();
			{ int sp_ = 0; while (__atomic_load_n (&tr_ret[other], __ATOMIC_SEQ_CST) < r && now_s () - t0 < 2.0) if (++sp_ > tr_spin) { sched_yield (); sp_ = 0; } }
			if (__atomic_load_n (&tr_ret[other], __ATOMIC_SEQ_CST) < r) { VTM ("\"e\":\"TryBlocked\",\"t\":%d,\"o\":1", 15 + other); tr_stop = 1; }      /* one such event decides the run */
			raw_unlock ();
		}
		/* both wait for the round to be over before the next one */
		{ int sp_ = 0; while (__atomic_load_n (&tr_ret[other], __ATOMIC_SEQ_CST) < r && !tr_stop) if (++sp_ > tr_spin) { sched_yield (); sp_ = 0; } }
	}
	if (me == 0) vtm_close ();
	return NULL;
}
static void tryrace (int rounds) {
	pthread_t h;
	{ cpu_set_t all; int n = 1; if (sched_getaffinity (0, sizeof all, &all) == 0) n = CPU_COUNT (&all); if (n < 2) { tr_spin = 0; rounds = rounds / 200; } }      /* one core: yield at once, fewer rounds */
	tr_rounds = rounds; tr_round[0] = tr_round[1] = tr_ret[0] = tr_ret[1] = 0;
	pthread_create (&h, NULL, tryrace_thread, (void *) 0L);
	tryrace_thread ((void *) 1L);
	pthread_join (h, NULL);
}
/* trylock against a busy holder (not logged): one thread locks and unlocks as fast as it can while another calls trylock all the time (releasing
 * whenever it got the lock) - a trylock attempt then regularly meets the holder's unlock half-way.  Afterwards, with nobody else around, the lock
 * must be free: a logged trylock by the main thread succeeds (LockLin decides).  If the locking thread does not finish within 15 s the lock has
 * been lost on the way (LockDead event - no spec action explains it). */
static void raw_lock (void) { if (kind[0] == 'm') p_mutex_lock (mx[1]); else if (kind[0] == 's') p_spinlock_lock (sp[1]); else p_rwlock_writer_lock (rw[1]); }
static volatile int tc_done, tc_n;
static void *churn_locker (void *arg) { int i; (void) arg; for (i = 0; i < tc_n; i++) { raw_lock (); raw_unlock (); } __atomic_store_n (&tc_done, 1, __ATOMIC_SEQ_CST); return NULL; }
static void *churn_trier (void *arg) { (void) arg; while (!__atomic_load_n (&tc_done, __ATOMIC_SEQ_CST)) if (raw_try ()) raw_unlock (); return NULL; }
static void trychurn (int n) {
	pthread_t a, b; double t0 = now_s ();
	{ cpu_set_t all; int c = 1; if (sched_getaffinity (0, sizeof all, &all) == 0) c = CPU_COUNT (&all); if (c < 2) n /= 20; }
	tc_done = 0; tc_n = n;
	pthread_create (&a, NULL, churn_locker, NULL); pthread_create (&b, NULL, churn_trier, NULL);
	while (!__atomic_load_n (&tc_done, __ATOMIC_SEQ_CST)) {
		if (now_s () - t0 > 15.0) { VTM ("\"e\":\"LockDead\",\"t\":15,\"o\":1"); vtm_close (); fflush (NULL); _exit (0); }
		sched_yield ();
	}
	pthread_join (a, NULL); pthread_join (b, NULL);
	if (do_call (16, 1, "wtry")) do_call (16, 1, "wunlock");
}
/* a trylock that meets the END of a critical section (not logged): in every round one thread locks, stays inside for some microseconds and unlocks once,
 * while another calls trylock all the time (releasing when it got the lock) until the first is done.  Afterwards, with both at rest, the lock is free
 * and uncontended: a trylock must succeed.  If it does not, that is a TryRefused event which no spec action explains. */
static volatile int te_phase, te_done; static int te_rounds;
static void *tryend_holder (void *arg) {
	int r; (void) arg;
	for (r = 1; r <= te_rounds; r++) {
		volatile int w;
		{ int sp_ = 0; while (__atomic_load_n (&te_phase, __ATOMIC_SEQ_CST) < r) if (++sp_ > 20000) { sched_yield (); sp_ = 0; } }
		raw_lock (); for (w = 0; w < 2000; w++) ; raw_unlock ();
		__atomic_store_n (&te_done, r, __ATOMIC_SEQ_CST);
	}
	return NULL;
}
static void tryend (int rounds) {
	pthread_t h; int r, refused = 0;
	{ cpu_set_t all; int c = 1; if (sched_getaffinity (0, sizeof all, &all) == 0) c = CPU_COUNT (&all); if (c < 2) return; }
	te_rounds = rounds; te_phase = 0; te_done = 0;
	pthread_create (&h, NULL, tryend_holder, NULL);
	for (r = 1; r <= rounds && !refused; r++) {
		__atomic_store_n (&te_phase, r, __ATOMIC_SEQ_CST);
		while (__atomic_load_n (&te_done, __ATOMIC_SEQ_CST) < r) if (raw_try ()) raw_unlock ();
		if (raw_try ()) raw_unlock (); else { int again = 0, k; for (k = 0; k < 20 && !again; k++) again = raw_try (); if (again) raw_unlock (); else refused = 1; }
	}
	if (refused) { VTM ("\"e\":\"TryRefused\",\"t\":16,\"o\":1"); te_rounds = 0; __atomic_store_n (&te_phase, rounds + 1, __ATOMIC_SEQ_CST); }
	if (!refused) pthread_join (h, NULL); else pthread_detach (h);
}
/* mutual exclusion without the event log in the way (taking event numbers around every call keeps the calls microseconds apart): six threads
 * take the lock - three with the blocking call, three by retrying trylock - and count how many are inside; two inside at once is an Overlap event that
 * no spec action explains.  A second lock object is hammered by the same threads in alternation, so that whatever the implementation shares
 * between objects is shared here too. */
static volatile int ex_inside[2], ex_overlap, ex_stop; static int ex_n;
static PMutex *ex_mx2; static PSpinLock *ex_sp2; static PRWLock *ex_rw2;
static void ex_lock (int o, int use_try) {
	if (o == 0) { if (use_try) { while (!raw_try ()) if (ex_stop) return; } else raw_lock (); }
	else if (kind[0] == 'm') { if (use_try) { while (!p_mutex_trylock (ex_mx2)) if (ex_stop) return; } else p_mutex_lock (ex_mx2); }
	else if (kind[0] == 's') { if (use_try) { while (!p_spinlock_trylock (ex_sp2)) if (ex_stop) return; } else p_spinlock_lock (ex_sp2); }
	else { if (use_try) { while (!p_rwlock_writer_trylock (ex_rw2)) if (ex_stop) return; } else p_rwlock_writer_lock (ex_rw2); }
}
static void ex_unlock (int o) {
	if (o == 0) raw_unlock (); else if (kind[0] == 'm') p_mutex_unlock (ex_mx2); else if (kind[0] == 's') p_spinlock_unlock (ex_sp2); else p_rwlock_writer_unlock (ex_rw2);
}
static void *excl_thread (void *arg) {
	int me = (int) (long) arg, i, use_try = me & 1;
	for (i = 0; i < ex_n && !ex_stop; i++) {
		int o = ((i >> 6) + me) & 1; volatile int w;
		ex_lock (o, use_try);
		if (ex_stop) break;
		if (__atomic_add_fetch (&ex_inside[o], 1, __ATOMIC_SEQ_CST) != 1) ex_overlap = 1;
		for (w = 0; w < 60; w++) ;          /* stay inside for a moment: the others are contending meanwhile */
		if ((i & 4095) == 0) sched_yield ();
		__atomic_sub_fetch (&ex_inside[o], 1, __ATOMIC_SEQ_CST);
		ex_unlock (o);
	}
	return NULL;
}
static void exclchurn (int n) {
	pthread_t t[6]; int i; double t0 = now_s (); volatile int done = 0; (void) done;
	{ cpu_set_t all; int c = 1; if (sched_getaffinity (0, sizeof all, &all) == 0) c = CPU_COUNT (&all); if (c < 2) n /= 50; }
	ex_n = n; ex_overlap = 0; ex_stop = 0; ex_inside[0] = ex_inside[1] = 0;
	ex_mx2 = kind[0] == 'm' ? p_mutex_new () : NULL; ex_sp2 = kind[0] == 's' ? p_spinlock_new () : NULL; ex_rw2 = kind[0] == 'r' ? p_rwlock_new () : NULL;
	for (i = 0; i < 6; i++) pthread_create (&t[i], NULL, excl_thread, (void *) (long) i);
	for (i = 0; i < 6; i++) {
		/* a watchdog rather than a plain join: a lock that was lost on the way would hang the driver */
		struct timespec ts; clock_gettime (CLOCK_REALTIME, &ts); ts.tv_sec += 30;
		if (pthread_timedjoin_np (t[i], NULL, &ts) != 0) { ex_stop = 1; VTM ("\"e\":\"LockDead\",\"t\":15,\"o\":1"); vtm_close (); fflush (NULL); _exit (0); }
	}
	(void) t0;
	if (ex_overlap) VTM ("\"e\":\"Overlap\",\"t\":15,\"o\":1");
	if (ex_mx2) p_mutex_free (ex_mx2); if (ex_sp2) p_spinlock_free (ex_sp2); if (ex_rw2) p_rwlock_free (ex_rw2);
}
/* "any number of readers": thread 16 enters as a reader through trylock and stays inside until thread 15 has been inside as a reader too (once
 * through the blocking call, once through trylock); if thread 15 has not got in after 3 s the readers are not shared (ReadBlocked event) */
static void *share_helper (void *arg) {
	(void) arg;
	vtm_open (base, 15);
	while (__atomic_load_n (&th_flag, __ATOMIC_SEQ_CST) < 1) sched_yield ();
	if (do_call (15, 1, "rlock")) do_call (15, 1, "runlock");
	if (do_call (15, 1, "rtry")) do_call (15, 1, "runlock");
	__atomic_store_n (&th_flag, 2, __ATOMIC_SEQ_CST);
	vtm_close ();
	return NULL;
}
static void sharehold (void) {
	pthread_t h; double t0; int got;
	th_flag = 0;
	pthread_create (&h, NULL, share_helper, NULL);
	got = do_call (16, 1, "rtry");
	if (!got) got = do_call (16, 1, "rlock");
	__atomic_store_n (&th_flag, 1, __ATOMIC_SEQ_CST);
	t0 = now_s ();
	while (__atomic_load_n (&th_flag, __ATOMIC_SEQ_CST) < 2 && now_s () - t0 < 3.0) sched_yield ();
	if (__atomic_load_n (&th_flag, __ATOMIC_SEQ_CST) < 2) VTM ("\"e\":\"ReadBlocked\",\"t\":15,\"o\":1");
	if (got) do_call (16, 1, "runlock");
	pthread_join (h, NULL);
}
int main (int argc, char **argv) {
	int i, ep; pthread_t th[32];
	if (argc < 8) return 2;
	base = argv[1]; kind = argv[2]; nth = atoi (argv[3]); nobj = atoi (argv[4]); episodes = atoi (argv[5]); ops = atoi (argv[6]); seed = (unsigned) atoi (argv[7]);
	fresh = argc > 8 && atoi (argv[8]);
	if (nobj > 7 || nth > 31) return 2;
	vtm_init (nth + 1);
	p_libsys_init (); p_libsys_shutdown (); p_libsys_init ();      /* the library is used after a shutdown / re-initialisation cycle */
	if (!ga_install ()) return 2;      /* fresh memory is garbage, released memory is overwritten (galloc.h) */
	vtm_open (base, 0);
	for (i = 1; i <= nobj; i++) {
		if (kind[0] == 'm') mx[i] = p_mutex_new (); else if (kind[0] == 's') sp[i] = p_spinlock_new (); else rw[i] = p_rwlock_new ();
		if (!mx[i] && !sp[i] && !rw[i]) { fprintf (stderr, "lock object creation failed\n"); return 3; }
	}
	for (i = 1; i <= nth; i++) pthread_create (&th[i], NULL, actor, (void *) (long) i);
	for (ep = 0; ep < episodes; ep++) {
		if (fresh && ep > 0)      /* new lock objects for every episode: their first use is a race between all threads */
			for (i = 1; i <= nobj; i++) {
				if (mx[i]) { p_mutex_free (mx[i]); mx[i] = p_mutex_new (); }
				if (sp[i]) { p_spinlock_free (sp[i]); sp[i] = p_spinlock_new (); }
				if (rw[i]) { p_rwlock_free (rw[i]); rw[i] = p_rwlock_new (); }
			}
		VTM_BEGIN (); VTM_PUT ("\"e\":\"Epoch\",\"cells\":[");
		for (i = 1; i <= nobj; i++) VTM_PUT ("%s[%d,%ld]", i > 1 ? "," : "", i, cell[i][0]);
		VTM_PUT ("]"); VTM_END ();
		vtm_barrier ();
		vtm_barrier ();
	}
	for (i = 1; i <= nth; i++) pthread_join (th[i], NULL);
	if (nth <= 14) { tryhold (); tryrace (100000); trychurn (300000); tryend (3000); exclchurn (100000); if (kind[0] == 'r') sharehold (); }
	VTM ("\"e\":\"Epoch\"");
	for (i = 1; i <= nobj; i++) { if (mx[i]) p_mutex_free (mx[i]); if (sp[i]) p_spinlock_free (sp[i]); if (rw[i]) p_rwlock_free (rw[i]); }
	vtm_close ();
	p_mem_restore_vtable ();
	p_libsys_shutdown ();
	return 0;
}
