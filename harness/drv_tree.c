/* PTree driver: executes a script of tree operations against the real library and records an
 * ndjson trace of results and observations (public API only).
 * usage: drv_tree <script> <trace>
 * script lines: univ U | new TY NF WD | ins K | rem K | clr | fre | obs | obsS M | fst I | reset
 */
#include <plibsys.h>
#include "vtrace.h"

typedef struct Obj_ { long magic; int k; int id; int destroyed; int kind; int prev_id; int reins; } Obj;
#define MAGIC 0x5ca1ab1e0ddba11L

static Obj **objs; static Obj *shadow; static int nobjs, capobjs;
static int U = 8;
static PTree *tree; static int ty, nf, wd; static long cookie = 0x1234;
static int data_bad;
static int next_id = 1;

/* destroy log of the current call */
static int dlog[4096][2]; static int ndlog;
/* comparator path log */
static int rec_on; static int path[256]; static int npath; static long ncmp;

static Obj *mkobj (int kind, int k) {
	Obj *o = malloc (sizeof (Obj));
	o->magic = MAGIC; o->k = k; o->id = next_id++; o->destroyed = 0; o->kind = kind; o->prev_id = 0; o->reins = 0;
	if (nobjs == capobjs) { capobjs = capobjs ? capobjs * 2 : 1024; objs = realloc (objs, capobjs * sizeof (Obj *)); shadow = realloc (shadow, capobjs * sizeof (Obj)); }
	objs[nobjs] = o; shadow[nobjs] = *o; nobjs++;
	return o;
}
/* every second tree uses the NULL pointer as the key object of key 1 (a handle like any other: the library never looks into keys).  Its
 * incarnations get ids like objects do; nullk_cur is the id of the one that is stored right now (0 = none). */
static int nullmode, nullk_cur;
#define KOF(p) ((p) ? ((const Obj *) (p))->k : 1)
/* notifiers may be handed anything by a faulty library: only pointers to objects this driver made are looked into (-2 = unknown pointer) */
static Obj *known (ppointer p) { int i; for (i = nobjs - 1; i >= 0; i--) if (objs[i] == p) return p; return NULL; }
/* the library's allocator (p_mem_set_vtable): a released block is overwritten before it goes back to the C library, as a debugging
 * allocator of an application would do - a node read after its release then yields 0xA5 bytes, not the old contents */
typedef struct { size_t n; size_t pad; } PHdr;
static int pz_fail_next;      /* > 0: the n-th allocation from now on is refused once */
static ppointer pz_malloc (psize n) { PHdr *h; if (pz_fail_next > 0 && --pz_fail_next == 0) return NULL; h = malloc (sizeof (PHdr) + n); if (!h) return NULL; h->n = n; return h + 1; }
static void pz_free (ppointer p) { PHdr *h; if (!p) return; h = (PHdr *) p - 1; memset (p, 0xA5, h->n); free (h); }
static ppointer pz_realloc (ppointer p, psize n) { ppointer q; if (!p) return pz_malloc (n); q = pz_malloc (n); if (!q) return NULL; memcpy (q, p, ((PHdr *) p - 1)->n < n ? ((PHdr *) p - 1)->n : n); pz_free (p); return q; }
static void kdestroy (ppointer p) { Obj *o = p; if (!p && nullmode) { if (ndlog < 4096) { dlog[ndlog][0] = 'K'; dlog[ndlog][1] = nullk_cur ? nullk_cur : -3; ndlog++; } nullk_cur = 0; return; } if (p && !known (p)) { if (ndlog < 4096) { dlog[ndlog][0] = 'K'; dlog[ndlog][1] = -2; ndlog++; } return; } if (ndlog < 4096) { dlog[ndlog][0] = 'K'; dlog[ndlog][1] = o ? o->id : -1; ndlog++; } if (o) { int i; o->destroyed++; /* a destroyed key is dead: whoever still compares with it gets nonsense */ for (i = nobjs - 1; i >= 0; i--) if (objs[i] == o) { o->k = shadow[i].k = -7; break; } } }
/* a value object that is inserted again while it is stored (op insv) counts as a new insertion with an id of its own: a notification that arrives
 * during that insert call is for the stored (previous) incarnation */
static void vdestroy (ppointer p) { Obj *o = p; int id; if (p && !known (p)) { if (ndlog < 4096) { dlog[ndlog][0] = 'V'; dlog[ndlog][1] = -2; ndlog++; } return; } id = o ? o->id : -1; if (o && o->reins) { id = o->prev_id; o->reins = 0; } if (ndlog < 4096) { dlog[ndlog][0] = 'V'; dlog[ndlog][1] = id; ndlog++; } if (o) o->destroyed++; }
/* any total order is a comparator: only the sign of the result means something.  The style changes with every tree: -1/0/1, the
 * difference of the keys, large magnitudes */
static int cstyle, ntrees;
static pint cres (int x, int y) { if (x == y) return 0; if (cstyle == 1) return x - y; if (cstyle == 2) return x < y ? -1000000 : 7; return x < y ? -1 : 1; }
static pint cmp_data (pconstpointer a, pconstpointer b, ppointer data) {
	const Obj *x = a, *y = b;
	if (wd ? data != &cookie : data != NULL) data_bad = 1;
	ncmp++;
	if (rec_on && npath < 256) path[npath++] = KOF (y);
	return cres (KOF (x), KOF (y));
}
static pint cmp_plain (pconstpointer a, pconstpointer b) {
	const Obj *x = a, *y = b;
	ncmp++;
	if (rec_on && npath < 256) path[npath++] = KOF (y);
	return cres (KOF (x), KOF (y));
}
static int intact (void) {
	int i;
	if (data_bad) return 0;
	for (i = 0; i < nobjs; i++) {
		Obj *o = objs[i];
		if (o->magic != shadow[i].magic || o->k != shadow[i].k || o->id != shadow[i].id || o->kind != shadow[i].kind) return 0;
		if (o->destroyed && (!nf || (nf == 2 && o->kind == 'V') || (nf == 3 && o->kind == 'K'))) return 0;
	}
	return 1;
}
static void emit_d (void) {
	int i;
	VT ("\"d\":[");
	for (i = 0; i < ndlog; i++) VT ("%s[\"%c\",%d]", i ? "," : "", dlog[i][0], dlog[i][1]);
	VT ("]");
}
/* traversal */
static int tr_stop_at, tr_cnt; static int (*tr_buf)[3]; static int tr_cap;
static pboolean trav (ppointer key, ppointer value, ppointer ud) {
	Obj *k = key, *v = value;
	(void) ud;
	if (tr_cnt == tr_cap) { tr_cap = tr_cap ? tr_cap * 2 : 1024; tr_buf = realloc (tr_buf, tr_cap * sizeof (*tr_buf)); }
	tr_buf[tr_cnt][0] = k ? k->k : 1; tr_buf[tr_cnt][1] = k ? k->id : nullk_cur; tr_buf[tr_cnt][2] = v ? v->id : 0;
	tr_cnt++;
	return (tr_stop_at > 0 && tr_cnt >= tr_stop_at) ? TRUE : FALSE;
}
static void emit_seq (const char *name) {
	int i;
	VT ("\"%s\":[", name);
	for (i = 0; i < tr_cnt; i++) VT ("%s[%d,%d,%d]", i ? "," : "", tr_buf[i][0], tr_buf[i][1], tr_buf[i][2]);
	VT ("]");
}
/* shape from lookup paths: child links */
static int lch[64], rch[64], root_k;
static void emit_shape (int k) {
	if (k <= 0 || k >= 64) { VT (k == 0 ? "[]" : "[[],%d,[]]", k); return; }      /* (keys outside the universe only appear when the library misbehaves) */
	VT ("["); emit_shape (lch[k]); VT (",%d,", k); emit_shape (rch[k]); VT ("]");
}
static int lookup_id (int k) {
	Obj probe; Obj *v;
	probe.magic = MAGIC; probe.k = k; probe.id = 0;
	v = p_tree_lookup (tree, nullmode && k == 1 ? NULL : &probe);
	return v ? v->id : 0;
}

/* ---- deep AVL tree (thorough tier): the sparsest AVL tree of height H (a Fibonacci tree, N(H) = N(H-1) + N(H-2) + 1 pairs) is built by inserting
 * its keys level by level (no rotation happens on the way), then the deepest leaf is removed, which makes the height change travel all the way to the
 * root.  Afterwards the shape is rebuilt from the keys the comparator is shown during one lookup per key, and the largest difference between the
 * heights of the two subtrees of any node is reported (event "deep").  Keys are numbers cast to pointers; nodes come from a bump allocator. */
static char *bump_base; static size_t bump_off, bump_cap;
static ppointer bump_malloc (psize n) { size_t a = (n + 15) & ~(size_t) 15; void *p; if (bump_off + a > bump_cap) return NULL; p = bump_base + bump_off; bump_off += a; memset (p, 0xA5, n); return p; }
static ppointer bump_realloc (ppointer p, psize n) { void *q = bump_malloc (n); (void) p; return q; }
static void bump_free (ppointer p) { (void) p; }
static int *dp_path; static int dp_np; static int dp_rec;
static pint cmp_deep (pconstpointer a, pconstpointer b) { long x = (long) a, y = (long) b; if (dp_rec && dp_np < 128) dp_path[dp_np++] = (int) y; return x < y ? -1 : (x > y ? 1 : 0); }
static void deep_scenario (int H) {
	static long N[64]; int h, i; long n, q_head = 0, q_tail = 0, k; PMemVTable vt; PTree *t; double t0;
	typedef struct { int h; int off; } QE; QE *q;
	int *parent; unsigned char *depth, *hl, *hr; int maxdepth = 0, maxdiff = 0, sorted_ok = 1; long bad_node = 0;
	N[0] = 0; N[1] = 1; for (h = 2; h <= H; h++) N[h] = N[h - 1] + N[h - 2] + 1;
	n = N[H];
	bump_cap = (size_t) n * 64 + (1 << 20); bump_base = malloc (bump_cap); bump_off = 0;
	q = malloc ((size_t) (n + 1) * sizeof (QE)); parent = calloc ((size_t) n + 2, sizeof (int)); depth = calloc ((size_t) n + 2, 1); hl = calloc ((size_t) n + 2, 1); hr = calloc ((size_t) n + 2, 1);
	dp_path = malloc (128 * sizeof (int));
	if (!bump_base || !q || !parent || !depth || !hl || !hr) { vt_emit ("{\"e\":\"deep\",\"h\":%d,\"n\":0,\"maxdiff\":0,\"skipped\":1}", H); return; }
	p_mem_restore_vtable ();
	vt.f_malloc = bump_malloc; vt.f_realloc = bump_realloc; vt.f_free = bump_free; p_mem_set_vtable (&vt);
	t = p_tree_new (P_TREE_TYPE_AVL, cmp_deep);
	t0 = 0; (void) t0;
	q[q_tail].h = H; q[q_tail].off = 0; q_tail++;
	while (q_head < q_tail) {
		QE e = q[q_head++]; long root; int top = q_head == 1, hl_ = top ? e.h - 2 : e.h - 1, hr_ = top ? e.h - 1 : e.h - 2;
		if (e.h <= 0) continue;
		/* every subtree is left-heavy by one, except at the root, where the SHORTER subtree is on the left: the leaf removed below is the
		 * deepest one of that shorter side, so that the root itself has to be rotated - H - 1 levels above the leaf */
		root = e.off + N[hl_] + 1;
		p_tree_insert (t, (ppointer) root, (ppointer) root);
		if (hl_ > 0) { q[q_tail].h = hl_; q[q_tail].off = e.off; q_tail++; }
		if (hr_ > 0) { q[q_tail].h = hr_; q[q_tail].off = (int) root; q_tail++; }
	}
	if (p_tree_get_nnodes (t) != n) vt_die ("deep: wrong node count after the build");
	if (!p_tree_remove (t, (ppointer) 1L)) vt_die ("deep: the deepest leaf was not found");
	/* rebuild the shape: one lookup per key, the path the comparator saw gives depth and parent */
	dp_rec = 1;
	for (k = 2; k <= n; k++) {
		dp_np = 0;
		if ((long) p_tree_lookup (t, (ppointer) k) != k) { sorted_ok = 0; bad_node = k; break; }
		if (dp_np < 1 || dp_path[dp_np - 1] != (int) k) { sorted_ok = 0; bad_node = k; break; }
		depth[k] = (unsigned char) (dp_np - 1); parent[k] = dp_np >= 2 ? dp_path[dp_np - 2] : 0;
		if (dp_np - 1 > maxdepth) maxdepth = dp_np - 1;
	}
	dp_rec = 0;
	if (sorted_ok) {
		int d;
		for (d = maxdepth; d >= 1; d--)
			for (k = 2; k <= n; k++) if (depth[k] == d) {
				int hk = 1 + (hl[k] > hr[k] ? hl[k] : hr[k]), pa = parent[k];
				if (k < pa) { if (hk > hl[pa]) hl[pa] = (unsigned char) hk; } else { if (hk > hr[pa]) hr[pa] = (unsigned char) hk; }
			}
		for (k = 2; k <= n; k++) { int df = hl[k] > hr[k] ? hl[k] - hr[k] : hr[k] - hl[k]; if (df > maxdiff) { maxdiff = df; bad_node = k; } }
	}
	vt_emit ("{\"e\":\"deep\",\"h\":%d,\"n\":%ld,\"after\":%d,\"lookups_ok\":%d,\"maxdepth\":%d,\"maxdiff\":%d,\"at\":%ld,\"skipped\":0}", H, n, (int) p_tree_get_nnodes (t), sorted_ok, maxdepth, maxdiff, bad_node);
	p_tree_free (t);
	p_mem_restore_vtable ();
	{ PMemVTable v2; v2.f_malloc = pz_malloc; v2.f_realloc = pz_realloc; v2.f_free = pz_free; p_mem_set_vtable (&v2); }
	free (bump_base); free (q); free (parent); free (depth); free (hl); free (hr); free (dp_path);
}
int main (int argc, char **argv) {
	FILE *in; char line[256]; char op[32]; int a, b, c;
	if (argc < 3) return 2;
	in = fopen (argv[1], "r"); if (!in) { perror (argv[1]); return 2; }
	vt_open (argv[2]);
	p_libsys_init (); p_libsys_shutdown (); p_libsys_init ();      /* the library is used after a shutdown / re-initialisation cycle */
	{ PMemVTable vt; vt.f_malloc = pz_malloc; vt.f_realloc = pz_realloc; vt.f_free = pz_free; if (!p_mem_set_vtable (&vt)) vt_die ("vtable"); }
	while (fgets (line, sizeof line, in)) {
		a = b = c = 0;
		if (sscanf (line, "%31s %d %d %d", op, &a, &b, &c) < 1) continue;
		ndlog = 0;
		if (!strcmp (op, "univ")) { U = a; if (U > 60) vt_die ("univ too large"); }
		else if (!strcmp (op, "reset")) {
			if (tree) { p_tree_free (tree); tree = NULL; }
			{ int i; for (i = 0; i < nobjs; i++) free (objs[i]); nobjs = 0; }
			next_id = 1; data_bad = 0;
			vt_emit ("{\"e\":\"Reset\"}");
		}
		else if (!strcmp (op, "deep")) { if (tree) { p_tree_free (tree); tree = NULL; } deep_scenario (a); }
		else if (!strcmp (op, "new")) {
			ty = a; nf = b; wd = c; cstyle = ntrees % 3; nullmode = ntrees % 2 == 1; nullk_cur = 0; ntrees++;
			/* nf: 0 no notifiers, 1 both, 2 key only, 3 value only */
			if (nf) tree = p_tree_new_full ((PTreeType) ty, cmp_data, wd ? &cookie : NULL, nf == 3 ? NULL : kdestroy, nf == 2 ? NULL : vdestroy);
			else if (wd) tree = p_tree_new_with_data ((PTreeType) ty, cmp_data, &cookie);
			else tree = p_tree_new ((PTreeType) ty, cmp_plain);
			if (!tree) vt_die ("p_tree_new failed");
			vt_emit ("{\"e\":\"new\",\"ty\":%d,\"nf\":%d,\"nullkey\":%d,\"cmp\":%d}", (int) p_tree_get_type (tree), nf, nullmode, cstyle);
		}
		else if (!strcmp (op, "ins")) {
			int nk = nullmode && a == 1, kid; Obj *k = nk ? NULL : mkobj ('K', a), *v = mkobj ('V', a);
			kid = nk ? next_id++ : k->id;
			p_tree_insert (tree, k, v);
			if (nk) nullk_cur = kid;
			VT ("{\"e\":\"ins\",\"k\":%d,\"kid\":%d,\"vid\":%d,\"n\":%d,", a, kid, v->id, (int) p_tree_get_nnodes (tree));
			emit_d (); VT ("}"); VT_END ();
		}
		else if (!strcmp (op, "insfail")) {     /* an insert of a key that is not stored, with memory running out for the node: nothing is stored and nothing is
							 * destroyed - the pair stays the caller's (who throws it away here, without notifiers) */
			Obj probe, *k, *v; int nk = nullmode && a == 1;
			probe.magic = MAGIC; probe.k = a; probe.id = 0;
			if (nk || p_tree_lookup (tree, &probe) != NULL) continue;
			k = mkobj ('K', a); v = mkobj ('V', a);
			pz_fail_next = 1; p_tree_insert (tree, k, v); pz_fail_next = 0;
			VT ("{\"e\":\"insfail\",\"k\":%d,\"kid\":%d,\"vid\":%d,\"n\":%d,\"found\":%d,", a, k->id, v->id, (int) p_tree_get_nnodes (tree), p_tree_lookup (tree, &probe) != NULL);
			emit_d (); VT ("}"); VT_END ();
		}
		else if (!strcmp (op, "insv")) {        /* insert with a new key object and the value object that is stored under that key right now */
			Obj probe, *k, *v; int i, nk = nullmode && a == 1, kid;
			probe.magic = MAGIC; probe.k = a; probe.id = 0;
			v = p_tree_lookup (tree, nk ? NULL : &probe);
			k = nk ? NULL : mkobj ('K', a); kid = nk ? next_id++ : k->id;
			if (!v) v = mkobj ('V', a);
			else { v->prev_id = v->id; v->id = next_id++; v->reins = 1; for (i = 0; i < nobjs; i++) if (objs[i] == v) shadow[i].id = v->id; }
			p_tree_insert (tree, k, v);
			if (nk) nullk_cur = kid;
			if (v->reins) v->reins = 0; else if (v->prev_id && v->destroyed) v->destroyed--;      /* the new incarnation is alive */
			for (i = 0; i < nobjs; i++) if (objs[i] == v) shadow[i] = *v;
			VT ("{\"e\":\"ins\",\"k\":%d,\"kid\":%d,\"vid\":%d,\"n\":%d,", a, kid, v->id, (int) p_tree_get_nnodes (tree));
			emit_d (); VT ("}"); VT_END ();
		}
		else if (!strcmp (op, "rem")) {
			Obj probe; pboolean r;
			probe.magic = MAGIC; probe.k = a; probe.id = 0;
			r = p_tree_remove (tree, nullmode && a == 1 ? NULL : &probe);
			if (r && nullmode && a == 1) nullk_cur = 0;
			VT ("{\"e\":\"rem\",\"k\":%d,\"res\":%d,\"n\":%d,", a, r ? 1 : 0, (int) p_tree_get_nnodes (tree));
			emit_d (); VT ("}"); VT_END ();
		}
		else if (!strcmp (op, "clr")) {
			p_tree_clear (tree); nullk_cur = 0;
			VT ("{\"e\":\"clr\",\"n\":%d,", (int) p_tree_get_nnodes (tree));
			emit_d (); VT ("}"); VT_END ();
		}
		else if (!strcmp (op, "fre")) {
			p_tree_free (tree); tree = NULL; nullk_cur = 0;
			VT ("{\"e\":\"fre\","); emit_d (); VT ("}"); VT_END ();
		}
		else if (!strcmp (op, "obs")) {
			int k, i, ids[64];
			memset (lch, 0, sizeof lch); memset (rch, 0, sizeof rch); root_k = 0;
			for (k = 1; k <= U; k++) {
				rec_on = 1; npath = 0;
				ids[k] = lookup_id (k);
				rec_on = 0;
				if (npath > 0) root_k = path[0];
				for (i = 0; i + 1 < npath; i++) {
					if (path[i] < 1 || path[i] > U || path[i+1] < 1 || path[i+1] > U) continue;
					if (path[i+1] < path[i]) lch[path[i]] = path[i+1]; else rch[path[i]] = path[i+1];
				}
			}
			tr_stop_at = 0; tr_cnt = 0;
			p_tree_foreach (tree, trav, NULL);
			VT ("{\"e\":\"obs\",\"n\":%d,\"look\":[", (int) p_tree_get_nnodes (tree));
			for (k = 1; k <= U; k++) VT ("%s[%d,%d]", k > 1 ? "," : "", k, ids[k]);
			VT ("],"); emit_seq ("seq");
			VT (",\"shape\":"); emit_shape (root_k);
			VT (",\"intact\":%d}", intact ()); VT_END ();
		}
		else if (!strcmp (op, "obsS")) {
			int i, maxd = 0, sorted = 1, nvis;
			tr_stop_at = 0; tr_cnt = 0;
			p_tree_foreach (tree, trav, NULL);
			nvis = tr_cnt;
			for (i = 0; i + 1 < nvis; i++) if (tr_buf[i][0] >= tr_buf[i+1][0]) sorted = 0;
			for (i = 0; i < nvis; i++) { long c0 = ncmp; lookup_id (tr_buf[i][0]); if (ncmp - c0 > maxd) maxd = (int) (ncmp - c0); }
			VT ("{\"e\":\"obsS\",\"n\":%d,\"nvis\":%d,\"sorted\":%d,\"maxd\":%d,\"look\":[", (int) p_tree_get_nnodes (tree), nvis, sorted, maxd);
			for (i = 0; i < a; i++) { int k = 1 + (int) (((unsigned) (i * 2654435761u + (unsigned) vt_seq * 40503u)) % (unsigned) (b > 0 ? b : 1)); VT ("%s[%d,%d]", i ? "," : "", k, lookup_id (k)); }
			VT ("]}"); VT_END ();
		}
		else if (!strcmp (op, "fst")) {
			tr_stop_at = a; tr_cnt = 0;
			p_tree_foreach (tree, trav, NULL);
			VT ("{\"e\":\"fst\",\"at\":%d,", a); emit_seq ("seq");
			tr_stop_at = 0; tr_cnt = 0;
			p_tree_foreach (tree, trav, NULL);
			VT (","); emit_seq ("after"); VT ("}"); VT_END ();
		}
		else vt_die ("bad script op");
	}
	if (tree) p_tree_free (tree);
	p_mem_restore_vtable ();      /* what the library allocated before the table was installed is released by the allocator it came from */
	p_libsys_shutdown ();
	vt_close ();
	return 0;
}
