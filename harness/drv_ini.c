/* PIniFile driver (C16).  usage: drv_ini <manifest> <out>
 * manifest lines:  file <path>            parse this file ...
 *                  q <hexsection> <hexkey>   ... and query this (section, key) with every getter
 *                  end
 * output: one JSON object per line; every string is hex-encoded (file content is arbitrary bytes). */
#include <plibsys.h>
#include <stdint.h>
#include "vtrace.h"
#include "galloc.h"
static void hex (const char *s) { VT ("\""); if (s) for (; *s; s++) VT ("%02x", (unsigned char) *s); VT ("\""); }
static int unhex (const char *h, char *out) { int n = 0; for (; h[0] && h[1]; h += 2) { unsigned v; sscanf (h, "%2x", &v); out[n++] = (char) v; } out[n] = 0; return n; }
static int cmpstr (const void *a, const void *b) { return strcmp (*(char *const *) a, *(char *const *) b); }
static void emit_strlist (PList *l, int sort) {
	char *arr[4096]; int n = 0, i; PList *it;
	for (it = l; it && n < 4096; it = it->next) arr[n++] = it->data;
	if (sort) qsort (arr, n, sizeof (char *), cmpstr);
	VT ("["); for (i = 0; i < n; i++) { if (i) VT (","); hex (arr[i]); } VT ("]");
}
int main (int argc, char **argv) {
	FILE *in; char line[4300], a[2100], b[2100], s1[1100], s2[1100]; PIniFile *ini = NULL;
	if (argc < 3) return 2;
	in = fopen (argv[1], "r"); if (!in) return 2;
	vt_open (argv[2]);
	p_libsys_init (); p_libsys_shutdown (); p_libsys_init ();      /* the library is used after a shutdown / re-initialisation cycle */
	if (!ga_install ()) return 2;      /* fresh memory is garbage, released memory is overwritten (galloc.h) */
	while (fgets (line, sizeof line, in)) {
		a[0] = b[0] = 0;
		if (!strncmp (line, "file ", 5)) {
			PList *secs, *it; pboolean ok; int consistent = 1;
			line[strcspn (line, "\n")] = 0;
			ini = p_ini_file_new (line + 5);
			ok = p_ini_file_parse (ini, NULL);
			secs = p_ini_file_sections (ini);
			VT ("{\"e\":\"parsed\",\"ok\":%d,\"isparsed\":%d,\"sections\":", ok ? 1 : 0, p_ini_file_is_parsed (ini) ? 1 : 0);
			emit_strlist (secs, 1);
			VT (",\"keys\":[");
			for (it = secs; it; it = it->next) {
				PList *keys = p_ini_file_keys (ini, it->data), *k; int nk = 0, allok = 1;
				for (k = keys; k; k = k->next) { char *v; nk++; if (!p_ini_file_is_key_exists (ini, it->data, k->data)) allok = 0; v = p_ini_file_parameter_string (ini, it->data, k->data, NULL); if (!v) allok = 0; p_free (v); }
				if (it != secs) VT (",");
				VT ("{\"s\":"); hex (it->data); VT (",\"nkeys\":%d,\"allok\":%d,\"keys\":", nk, allok); emit_strlist (keys, 1); VT ("}");
				if (nk < 1 || !allok) consistent = 0;
				p_list_foreach (keys, (PFunc) p_free, NULL); p_list_free (keys);
			}
			VT ("],\"consistent\":%d}", consistent); VT_END ();
			p_list_foreach (secs, (PFunc) p_free, NULL); p_list_free (secs);
		} else if (sscanf (line, "q %2099s %2099s", a, b) == 2 && ini) {
			char *str; PList *lst; double d;
			unhex (a, s1); unhex (b, s2);
			str = p_ini_file_parameter_string (ini, s1, s2, "@default@");
			lst = p_ini_file_parameter_list (ini, s1, s2);
			d = p_ini_file_parameter_double (ini, s1, s2, -77.5);
			VT ("{\"e\":\"get\",\"s\":"); hex (s1); VT (",\"k\":"); hex (s2);
			VT (",\"exists\":%d,\"str\":", p_ini_file_is_key_exists (ini, s1, s2) ? 1 : 0); hex (str);
			VT (",\"int\":%d,\"bool\":%d,\"dbl\":\"%.17g\",\"list\":", (int) p_ini_file_parameter_int (ini, s1, s2, -77), p_ini_file_parameter_boolean (ini, s1, s2, TRUE) ? 1 : 0, d);
			emit_strlist (lst, 0); VT ("}"); VT_END ();
			p_free (str); p_list_foreach (lst, (PFunc) p_free, NULL); p_list_free (lst);
		} else if (!strncmp (line, "end", 3) && ini) { p_ini_file_free (ini); ini = NULL; }
	}
	if (ini) p_ini_file_free (ini);
	p_mem_restore_vtable ();
	p_libsys_shutdown ();
	vt_close ();
	return 0;
}
