/* PHashTable / PList driver (C15).  usage: drv_cont <script> <trace>
 * script: kmap ID HEX | vmap ID HEX | hnew | hins K V | hrem K | hobs | hfree
 *         lapp X | lpre X | lrem X | lrev | lobs | lfree | reset
 * Model ids are mapped to concrete pointer bit patterns by kmap / vmap (list elements use vmap). */
#include <plibsys.h>
#include <stdint.h>
#include "vtrace.h"
#include "galloc.h"

#define MAXID 64
static uintptr_t kmap[MAXID], vmap[MAXID]; static int nk, nv; static int vset[MAXID];
static PHashTable *ht; static PList *lst;

static int key_id (ppointer p) { int i; for (i = 1; i <= nk; i++) if ((uintptr_t) p == kmap[i]) return i; return 0; }
/* the all-ones pattern is reported as -1 whether it is the not-found marker or a stored value (model value id 9 by convention) */
static int val_id (ppointer p) { int i; if ((uintptr_t) p == (uintptr_t) -1) return -1; for (i = 1; i <= nv; i++) if ((uintptr_t) p == vmap[i]) return i; return -2; }
static int cmp_int (const void *a, const void *b) { return *(const int *) a - *(const int *) b; }
/* the comparator decides alone which stored values are accepted (0 = accept): one that accepts nothing, not even an identical pointer, and one that accepts everything */
static pint vcmp_never (pconstpointer a, pconstpointer b) { (void) a; (void) b; return 1; }
static pint vcmp_always (pconstpointer a, pconstpointer b) { (void) a; (void) b; return 0; }
static pint vcmp (pconstpointer a, pconstpointer b) { return a == b ? 0 : ((uintptr_t) a < (uintptr_t) b ? -1 : 1); }

static int lbuf[4096]; static int nl;
static void collect_k (ppointer data, ppointer ud) { (void) ud; if (nl < 4096) lbuf[nl++] = key_id (data); }
static void collect_v (ppointer data, ppointer ud) { (void) ud; if (nl < 4096) lbuf[nl++] = val_id (data); }
static void emit_list (PList *l, int keys, int sort) {
	int i;
	nl = 0;
	p_list_foreach (l, keys ? collect_k : collect_v, NULL);
	if (sort) qsort (lbuf, nl, sizeof (int), cmp_int);
	VT ("[");
	for (i = 0; i < nl; i++) VT ("%s%d", i ? "," : "", lbuf[i]);
	VT ("]");
}

int main (int argc, char **argv) {
	FILE *in; char line[256], op[32], hex[64]; int a, b;
	if (argc < 3) return 2;
	in = fopen (argv[1], "r"); if (!in) { perror (argv[1]); return 2; }
	vt_open (argv[2]);
	p_libsys_init (); p_libsys_shutdown (); p_libsys_init ();      /* the library is used after a shutdown / re-initialisation cycle */
	if (!ga_install ()) return 2;      /* fresh memory is garbage, released memory is overwritten (galloc.h) */
	while (fgets (line, sizeof line, in)) {
		a = b = 0; hex[0] = 0;
		if (sscanf (line, "%31s", op) < 1) continue;
		if (!strcmp (op, "kmap")) { sscanf (line, "%*s %d %63s", &a, hex); kmap[a] = (uintptr_t) strtoull (hex, NULL, 16); if (a > nk) nk = a; }
		else if (!strcmp (op, "vmap")) { sscanf (line, "%*s %d %63s", &a, hex); vmap[a] = (uintptr_t) strtoull (hex, NULL, 16); vset[a] = 1; if (a > nv) nv = a; }
		else if (!strcmp (op, "reset")) {
			if (ht) { p_hash_table_free (ht); ht = NULL; }
			if (lst) { p_list_free (lst); lst = NULL; }
			nk = nv = 0; memset (vset, 0, sizeof vset);
			vt_emit ("{\"e\":\"Reset\"}");
		}
		else if (!strcmp (op, "hnew")) { ht = p_hash_table_new (); if (!ht) vt_die ("hnew"); vt_emit ("{\"e\":\"hnew\"}"); }
		else if (!strcmp (op, "hins")) { sscanf (line, "%*s %d %d", &a, &b); p_hash_table_insert (ht, (ppointer) kmap[a], (ppointer) vmap[b]); vt_emit ("{\"e\":\"hins\",\"k\":%d,\"v\":%d}", a, b); }
		else if (!strcmp (op, "hrem")) { sscanf (line, "%*s %d", &a); p_hash_table_remove (ht, (ppointer) kmap[a]); vt_emit ("{\"e\":\"hrem\",\"k\":%d}", a); }
		else if (!strcmp (op, "hfree")) { p_hash_table_free (ht); ht = NULL; vt_emit ("{\"e\":\"hfree\"}"); }
		else if (!strcmp (op, "hobs")) {
			int i; PList *l;
			VT ("{\"e\":\"hobs\",\"look\":[");
			for (i = 1; i <= nk; i++) VT ("%s[%d,%d]", i > 1 ? "," : "", i, val_id (p_hash_table_lookup (ht, (ppointer) kmap[i])));
			VT ("],\"keys\":"); l = p_hash_table_keys (ht); emit_list (l, 1, 1); p_list_free (l);
			VT (",\"vals\":"); l = p_hash_table_values (ht); emit_list (l, 0, 1); p_list_free (l);
			VT (",\"lbv\":[");
			{ int first = 1;
			for (i = 1; i <= nv; i++) {
				if (!vset[i]) continue;
				VT ("%s[%d,", first ? "" : ",", i); first = 0;
				l = p_hash_table_lookup_by_value (ht, (ppointer) vmap[i], NULL); emit_list (l, 1, 1); p_list_free (l);
				VT (",");
				l = p_hash_table_lookup_by_value (ht, (ppointer) vmap[i], vcmp); emit_list (l, 1, 1); p_list_free (l);
				VT (",");
				l = p_hash_table_lookup_by_value (ht, (ppointer) vmap[i], vcmp_never); emit_list (l, 1, 1); p_list_free (l);
				VT (",");
				l = p_hash_table_lookup_by_value (ht, (ppointer) vmap[i], vcmp_always); emit_list (l, 1, 1); p_list_free (l);
				VT ("]");
			} }
			VT ("]}"); VT_END ();
		}
		else if (!strcmp (op, "lappfail")) {    /* memory runs out for the node: the call returns the list it was given, unchanged */
			PList *r; sscanf (line, "%*s %d", &a); ga_fail_next = 1; r = p_list_append (lst, (ppointer) vmap[a]); ga_fail_next = 0;
			vt_emit ("{\"e\":\"lappfail\",\"x\":%d,\"same\":%d}", a, r == lst ? 1 : 0); if (r != lst && r) lst = r;
		}
		else if (!strcmp (op, "hkeysfail")) {   /* memory runs out for the a-th node of a listing: the other keys are still listed */
			PList *l; int n = 0; PList *it; sscanf (line, "%*s %d", &a);
			if (!ht) continue;
			ga_fail_next = a; l = p_hash_table_keys (ht); ga_fail_next = 0;
			for (it = l; it; it = it->next) n++;
			VT ("{\"e\":\"hkeysfail\",\"n\":%d,\"len\":%d,\"keys\":", a, n); emit_list (l, 1, 1); VT ("}"); VT_END (); p_list_free (l);
		}
		else if (!strcmp (op, "lapp")) { sscanf (line, "%*s %d", &a); lst = p_list_append (lst, (ppointer) vmap[a]); vt_emit ("{\"e\":\"lapp\",\"x\":%d}", a); }
		else if (!strcmp (op, "lpre")) { sscanf (line, "%*s %d", &a); lst = p_list_prepend (lst, (ppointer) vmap[a]); vt_emit ("{\"e\":\"lpre\",\"x\":%d}", a); }
		else if (!strcmp (op, "lrem")) { sscanf (line, "%*s %d", &a); lst = p_list_remove (lst, (ppointer) vmap[a]); vt_emit ("{\"e\":\"lrem\",\"x\":%d}", a); }
		else if (!strcmp (op, "lrev")) { lst = p_list_reverse (lst); vt_emit ("{\"e\":\"lrev\"}"); }
		else if (!strcmp (op, "lfree")) { p_list_free (lst); lst = NULL; vt_emit ("{\"e\":\"lfree\"}"); }
		else if (!strcmp (op, "lobs")) {
			PList *last = p_list_last (lst);
			VT ("{\"e\":\"lobs\",\"seq\":"); emit_list (lst, 0, 0);
			VT (",\"len\":%d,\"last\":%d}", (int) p_list_length (lst), last ? val_id (last->data) : 0); VT_END ();
		}
		else vt_die ("bad script op");
	}
	if (ht) p_hash_table_free (ht);
	if (lst) p_list_free (lst);
	p_mem_restore_vtable ();
	p_libsys_shutdown ();
	vt_close ();
	return 0;
}
