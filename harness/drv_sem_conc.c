/* Concurrent PSemaphore driver (C06 k-exclusion): actors (threads of one process or forked processes), each with
 * its own handle of the same name, repeat acquire / critical section / release around a semaphore of value v.
 * The number of actors inside the critical section is counted in a process-shared page.
 * usage: drv_sem_conc <tracebase> <name> <init> <nactors> <episodes> <ops> <procs:0|1> <seed> */
#include <plibsys.h>
#include <sys/wait.h>
#include <sched.h>
#include "vtmt.h"
static const char *base, *name; static int init, nact, episodes, ops, procs; static unsigned seed;
static unsigned rnd (unsigned *s) { *s = *s * 1103515245u + 12345u; return (*s >> 16) & 0x7fff; }
static void *actor (void *arg) {
	int t = (int) (long) arg, ep, i; unsigned s = seed * 7919u + (unsigned) t * 104729u; PSemaphore *sem; int h = t * 10 + 1;
	if (procs) p_libsys_init ();
	vtm_open (base, t);
	VTM ("\"e\":\"call\",\"p\":%d,\"h\":%d,\"op\":\"semnew\",\"a\":1,\"b\":%d,\"create\":0", t, h, init + 5);
	sem = p_semaphore_new (name, init + 5, P_SEM_ACCESS_OPEN, NULL);   /* the init value of an OPEN on an existing name is ignored */
	VTM ("\"e\":\"ret\",\"p\":%d,\"h\":%d,\"op\":\"semnew\",\"ok\":%d,\"val\":-1,\"errno\":0", t, h, sem ? 1 : 0);
	if (!sem) exit (3);
	for (ep = 0; ep < episodes; ep++) {
		vtm_barrier ();
		for (i = 0; i < ops; i++) {
			pboolean r; long occ;
			VTM ("\"e\":\"call\",\"p\":%d,\"h\":%d,\"op\":\"acq\",\"a\":0,\"b\":0,\"create\":0", t, h);
			r = p_semaphore_acquire (sem, NULL);
			VTM ("\"e\":\"ret\",\"p\":%d,\"h\":%d,\"op\":\"acq\",\"ok\":%d,\"val\":-1,\"errno\":0", t, h, r ? 1 : 0);
			occ = __atomic_add_fetch (&vtm_sh->aux[0], 1, __ATOMIC_SEQ_CST);
			if (rnd (&s) % 3 == 0) sched_yield ();
			VTM ("\"e\":\"cs\",\"p\":%d,\"h\":%d,\"occ\":%ld,\"init\":%d", t, h, occ, init);
			__atomic_sub_fetch (&vtm_sh->aux[0], 1, __ATOMIC_SEQ_CST);
			VTM ("\"e\":\"call\",\"p\":%d,\"h\":%d,\"op\":\"rel\",\"a\":0,\"b\":0,\"create\":0", t, h);
			r = p_semaphore_release (sem, NULL);
			VTM ("\"e\":\"ret\",\"p\":%d,\"h\":%d,\"op\":\"rel\",\"ok\":%d,\"val\":-1,\"errno\":0", t, h, r ? 1 : 0);
			if (rnd (&s) % 5 == 0) sched_yield ();
		}
		vtm_barrier ();
	}
	VTM ("\"e\":\"call\",\"p\":%d,\"h\":%d,\"op\":\"free\",\"a\":0,\"b\":0,\"create\":0", t, h);
	p_semaphore_free (sem);
	VTM ("\"e\":\"ret\",\"p\":%d,\"h\":%d,\"op\":\"free\",\"ok\":1,\"val\":-1,\"errno\":0", t, h);
	vtm_close ();
	if (procs) p_libsys_shutdown ();
	return NULL;
}
int main (int argc, char **argv) {
	int i, ep; pthread_t th[16]; pid_t pids[16]; PSemaphore *sem;
	if (argc < 9) return 2;
	base = argv[1]; name = argv[2]; init = atoi (argv[3]); nact = atoi (argv[4]); episodes = atoi (argv[5]); ops = atoi (argv[6]); procs = atoi (argv[7]); seed = (unsigned) atoi (argv[8]);
	if (nact > 8) return 2;
	vtm_init (nact + 1);
	p_libsys_init (); p_libsys_shutdown (); p_libsys_init ();      /* the library is used after a shutdown / re-initialisation cycle */
	vtm_open (base, 0);
	VTM ("\"e\":\"call\",\"p\":9,\"h\":91,\"op\":\"semnew\",\"a\":1,\"b\":%d,\"create\":1", init);
	sem = p_semaphore_new (name, init, P_SEM_ACCESS_CREATE, NULL);
	VTM ("\"e\":\"ret\",\"p\":9,\"h\":91,\"op\":\"semnew\",\"ok\":%d,\"val\":-1,\"errno\":0", sem ? 1 : 0);
	if (!sem) return 3;
	for (i = 1; i <= nact; i++) {
		if (procs) { fflush (NULL); if ((pids[i] = fork ()) == 0) { vtm_fp = NULL; actor ((void *) (long) i); _exit (0); } }
		else pthread_create (&th[i], NULL, actor, (void *) (long) i);
	}
	for (ep = 0; ep < episodes; ep++) { vtm_barrier (); vtm_barrier (); VTM ("\"e\":\"quiet\""); }
	for (i = 1; i <= nact; i++) { if (procs) { int st; waitpid (pids[i], &st, 0); if (st) return 3; } else pthread_join (th[i], NULL); }
	VTM ("\"e\":\"call\",\"p\":9,\"h\":91,\"op\":\"free\",\"a\":0,\"b\":0,\"create\":0");
	p_semaphore_free (sem);
	VTM ("\"e\":\"ret\",\"p\":9,\"h\":91,\"op\":\"free\",\"ok\":1,\"val\":-1,\"errno\":0");
	VTM ("\"e\":\"Epoch\"");
	vtm_close ();
	p_libsys_shutdown ();
	return 0;
}
