/* C19 driver: blocking library calls under handled signals (no SA_RESTART) and under injected EINTR.
 * usage: drv_intr <script> <trace> <nameprefix>
 * script: storm USEC (0 = off) | plan call:EINTR,... | sleep MS | semnew INIT | acquire | release | releaseafter MS (helper thread)
 *         | semfree | shmnew SIZE | shmlock | shmunlock | shmunlockafter MS | shmfree | units V | reset
 * Wrappers observe (and on request inject) the outcome of clock_nanosleep / nanosleep / sem_wait / sem_open / shm_open. */
#define _GNU_SOURCE
#include <plibsys.h>
#include <semaphore.h>
#include <signal.h>
#include <sys/time.h>
#include <sys/mman.h>
#include <fcntl.h>
#include <errno.h>
#include <time.h>
#include <stdarg.h>
#include "vtrace.h"

static int in_api; static volatile long nsig;
typedef struct { char call[24]; int pass; } PlanE; static PlanE plan[32]; static int nplan, iplan;
/* plan entries are consumed by the invocations of the call they name, in order: "call:EINTR" interrupts that invocation, "call:OK" lets it through */
static int want_inject (const char *call) { if (in_api && iplan < nplan && !strcmp (plan[iplan].call, call)) { return !plan[iplan++].pass; } return 0; }
static void sysev (const char *call, int eintr, int inj) { if (in_api) vt_emit ("{\"e\":\"isys\",\"call\":\"%s\",\"eintr\":%d,\"inj\":%d}", call, eintr, inj); }
int __real_clock_nanosleep (clockid_t, int, const struct timespec *, struct timespec *);
int __wrap_clock_nanosleep (clockid_t c, int f, const struct timespec *rq, struct timespec *rm) {
	int r;
	if (want_inject ("clock_nanosleep")) { if (rm) *rm = *rq; sysev ("clock_nanosleep", 1, 1); return EINTR; }   /* reports the error as its return value; errno untouched */
	r = __real_clock_nanosleep (c, f, rq, rm); sysev ("clock_nanosleep", r == EINTR, 0); return r;
}
int __real_nanosleep (const struct timespec *, struct timespec *);
int __wrap_nanosleep (const struct timespec *rq, struct timespec *rm) {
	int r;
	if (want_inject ("nanosleep")) { if (rm) *rm = *rq; sysev ("nanosleep", 1, 1); errno = EINTR; return -1; }
	r = __real_nanosleep (rq, rm); { int e = errno; sysev ("nanosleep", r == -1 && e == EINTR, 0); errno = e; } return r;
}
int __real_sem_wait (sem_t *);
int __wrap_sem_wait (sem_t *s) { int r; if (want_inject ("sem_wait")) { sysev ("sem_wait", 1, 1); errno = EINTR; return -1; } r = __real_sem_wait (s); { int e = errno; sysev ("sem_wait", r == -1 && e == EINTR, 0); errno = e; } return r; }
sem_t *__real_sem_open (const char *, int, ...);
static sem_t *last_sem;
sem_t *__wrap_sem_open (const char *name, int oflag, ...) {
	sem_t *r; mode_t mode = 0; unsigned value = 0; va_list ap;
	if (oflag & O_CREAT) { va_start (ap, oflag); mode = (mode_t) va_arg (ap, int); value = va_arg (ap, unsigned); va_end (ap); }
	if (want_inject ("sem_open")) { sysev ("sem_open", 1, 1); errno = EINTR; return SEM_FAILED; }
	r = (oflag & O_CREAT) ? __real_sem_open (name, oflag, mode, value) : __real_sem_open (name, oflag);
	{ int e = errno; sysev ("sem_open", r == SEM_FAILED && e == EINTR, 0); errno = e; }
	if (r != SEM_FAILED) last_sem = r;
	return r;
}
int __real_shm_open (const char *, int, mode_t);
int __wrap_shm_open (const char *n, int f, mode_t m) { int r; if (want_inject ("shm_open")) { sysev ("shm_open", 1, 1); errno = EINTR; return -1; } r = __real_shm_open (n, f, m); { int e = errno; sysev ("shm_open", r == -1 && e == EINTR, 0); errno = e; } return r; }
/* close: an interrupted close has released the descriptor already (Linux).  The injected interruption does what a real one followed by
 * a signal handler that opens a file does: the number is free again and the "handler" gets it.  After the API call its descriptor must
 * still be open (event hfd). */
static int handler_fd = -1;
int __real_close (int);
int __wrap_close (int fd) {
	int r;
	if (want_inject ("close")) { __real_close (fd); if (handler_fd < 0) handler_fd = open ("/dev/null", O_RDONLY); sysev ("close", 1, 1); errno = EINTR; return -1; }
	r = __real_close (fd); { int e = errno; sysev ("close", r == -1 && e == EINTR, 0); errno = e; } return r;
}

static void on_alarm (int s) { (void) s; nsig++; }
static void storm (long usec) {
	struct itimerval it; struct sigaction sa;
	memset (&sa, 0, sizeof sa); sa.sa_handler = on_alarm; sa.sa_flags = 0;   /* no SA_RESTART */
	sigaction (SIGALRM, &sa, NULL);
	it.it_interval.tv_sec = 0; it.it_interval.tv_usec = usec; it.it_value = it.it_interval;
	setitimer (ITIMER_REAL, &it, NULL);
}
static double now_ms (void) { struct timespec ts; clock_gettime (CLOCK_MONOTONIC, &ts); return ts.tv_sec * 1e3 + ts.tv_nsec * 1e-6; }
static PSemaphore *sem; static sem_t *semraw; static PShm *shm; static char name[96];
typedef struct { long ms; int what; } Later;        /* what: 0 release the semaphore, 1 unlock the segment */
static void *later (void *arg) {
	Later *lt = arg; struct timespec ts; sigset_t ss;
	sigemptyset (&ss); sigaddset (&ss, SIGALRM); pthread_sigmask (SIG_BLOCK, &ss, NULL);     /* signals go to the thread under test */
	ts.tv_sec = lt->ms / 1000; ts.tv_nsec = (lt->ms % 1000) * 1000000L;
	while (__real_nanosleep (&ts, &ts) == -1 && errno == EINTR) ;
	/* the unit becomes available: logged before the call so that it precedes the acquirer's return in the trace */
	vt_emit ("{\"e\":\"bgrelease\"}");
	if (lt->what) p_shm_unlock (shm, NULL); else p_semaphore_release (sem, NULL);
	free (lt);
	return NULL;
}
int main (int argc, char **argv) {
	FILE *in; char line[512], op[32]; long a; pthread_t th; int have_th = 0;
	if (argc < 4) return 2;
	in = fopen (argv[1], "r"); if (!in) return 2;
	vt_open (argv[2]); snprintf (name, sizeof name, "%s_intr", argv[3]);
	p_libsys_init (); p_libsys_shutdown (); p_libsys_init ();      /* the library is used after a shutdown / re-initialisation cycle */
	while (fgets (line, sizeof line, in)) {
		double t0; a = 0;
		if (sscanf (line, "%31s %ld", op, &a) < 1) continue;
		if (!strcmp (op, "storm")) { storm (a); continue; }
		if (!strcmp (op, "plan")) {
			char *tok, *save, *pl = strchr (line, ' '); nplan = iplan = 0;
			if (!pl) continue;
			pl[strcspn (pl, "\n")] = 0;
			for (tok = strtok_r (pl + 1, ",", &save); tok && nplan < 32; tok = strtok_r (NULL, ",", &save)) { char *c = strchr (tok, ':'); if (c) *c = 0; plan[nplan].pass = c && !strcmp (c + 1, "OK"); snprintf (plan[nplan++].call, 24, "%s", tok); }
			continue;
		}
		if (!strcmp (op, "units")) { vt_emit ("{\"e\":\"units\",\"v\":%ld}", a); continue; }
		if (!strcmp (op, "join")) { if (have_th) { pthread_join (th, NULL); have_th = 0; } continue; }
		if (!strcmp (op, "releaseafter") || !strcmp (op, "shmunlockafter")) { Later *lt = malloc (sizeof *lt); lt->ms = a; lt->what = op[0] == 's'; pthread_create (&th, NULL, later, lt); have_th = 1; continue; }
		vt_emit ("{\"e\":\"icall\",\"op\":\"%s\",\"ms\":%ld}", op, a);
		in_api = 1; t0 = now_ms ();
		if (!strcmp (op, "sleep")) { pint r = p_uthread_sleep ((puint32) a); in_api = 0; vt_emit ("{\"e\":\"iret\",\"op\":\"sleep\",\"res\":%d,\"elapsed\":%ld,\"val\":0,\"nsig\":%ld}", (int) r, (long) (now_ms () - t0), nsig); }
		else if (!strcmp (op, "semnew")) { last_sem = NULL; sem = p_semaphore_new (name, (pint) a, P_SEM_ACCESS_CREATE, NULL); semraw = last_sem; in_api = 0; vt_emit ("{\"e\":\"iret\",\"op\":\"semnew\",\"res\":%d,\"elapsed\":0,\"val\":%ld,\"nsig\":%ld}", sem ? 1 : 0, a, nsig); }
		else if (!strcmp (op, "semopen") || !strcmp (op, "semcreate")) {      /* a second handle on the name that exists already */
			PSemaphore *s2; sem_t *raw2;
			last_sem = NULL; s2 = p_semaphore_new (name, (pint) a, op[3] == 'o' ? P_SEM_ACCESS_OPEN : P_SEM_ACCESS_CREATE, NULL); raw2 = last_sem; in_api = 0;
			if (s2 && op[3] != 'o') semraw = raw2;
			if (s2 && op[3] == 'o') a = (raw2 == semraw) ? 1 : 0;          /* OPEN of the existing name: the very same kernel object (val = 1) */
			vt_emit ("{\"e\":\"iret\",\"op\":\"%s\",\"res\":%d,\"elapsed\":0,\"val\":%ld,\"nsig\":%ld}", op, s2 ? 1 : 0, a, nsig);
			if (s2) { if (op[3] == 'o') p_semaphore_free (s2); else { if (sem) p_semaphore_free (sem); sem = s2; } }
		}
		else if (!strcmp (op, "shmopen")) {
			/* the second handle must be the same object: it sees the byte stored through the first one, and closing it (it is no owner)
			 * leaves the named segment in place - a third handle still finds that byte.  val = 1 (same bytes) + 2 (name still there) */
			PShm *s2, *s3; int same = 0, still = 0;
			if (shm) ((volatile unsigned char *) p_shm_get_address (shm))[0] = 0x5a;
			s2 = p_shm_new (name, (psize) a, P_SHM_ACCESS_READWRITE, NULL); in_api = 0;
			if (s2) { same = ((volatile unsigned char *) p_shm_get_address (s2))[0] == 0x5a; p_shm_free (s2); }
			s3 = p_shm_new (name, (psize) a, P_SHM_ACCESS_READWRITE, NULL);
			if (s3) { still = ((volatile unsigned char *) p_shm_get_address (s3))[0] == 0x5a; p_shm_free (s3); }
			vt_emit ("{\"e\":\"iret\",\"op\":\"shmopen\",\"res\":%d,\"elapsed\":0,\"val\":%d,\"nsig\":%ld}", s2 ? 1 : 0, same + 2 * still, nsig);
		}
		else if (!strcmp (op, "acquire")) { pboolean r = p_semaphore_acquire (sem, NULL); int v = -1; in_api = 0; if (semraw) sem_getvalue (semraw, &v); vt_emit ("{\"e\":\"iret\",\"op\":\"acquire\",\"res\":%d,\"elapsed\":%ld,\"val\":%d,\"nsig\":%ld}", r ? 1 : 0, (long) (now_ms () - t0), v, nsig); }
		else if (!strcmp (op, "release")) { pboolean r = p_semaphore_release (sem, NULL); in_api = 0; vt_emit ("{\"e\":\"iret\",\"op\":\"release\",\"res\":%d,\"elapsed\":0,\"val\":0,\"nsig\":%ld}", r ? 1 : 0, nsig); }
		else if (!strcmp (op, "semfree")) { p_semaphore_take_ownership (sem); p_semaphore_free (sem); sem = NULL; in_api = 0; vt_emit ("{\"e\":\"iret\",\"op\":\"semfree\",\"res\":1,\"elapsed\":0,\"val\":0,\"nsig\":%ld}", nsig); }
		else if (!strcmp (op, "shmnew")) { shm = p_shm_new (name, (psize) a, P_SHM_ACCESS_READWRITE, NULL); in_api = 0; vt_emit ("{\"e\":\"iret\",\"op\":\"shmnew\",\"res\":%d,\"elapsed\":0,\"val\":0,\"nsig\":%ld}", shm ? 1 : 0, nsig); }
		else if (!strcmp (op, "shmlock")) { pboolean r = p_shm_lock (shm, NULL); in_api = 0; vt_emit ("{\"e\":\"iret\",\"op\":\"shmlock\",\"res\":%d,\"elapsed\":%ld,\"val\":0,\"nsig\":%ld}", r ? 1 : 0, (long) (now_ms () - t0), nsig); }
		else if (!strcmp (op, "shmunlock")) { pboolean r = p_shm_unlock (shm, NULL); in_api = 0; vt_emit ("{\"e\":\"iret\",\"op\":\"shmunlock\",\"res\":%d,\"elapsed\":0,\"val\":0,\"nsig\":%ld}", r ? 1 : 0, nsig); }
		else if (!strcmp (op, "shmfree")) { p_shm_take_ownership (shm); p_shm_free (shm); shm = NULL; in_api = 0; vt_emit ("{\"e\":\"iret\",\"op\":\"shmfree\",\"res\":1,\"elapsed\":0,\"val\":0,\"nsig\":%ld}", nsig); }
		else { in_api = 0; vt_die ("bad op"); }
		if (handler_fd >= 0) { int ok = fcntl (handler_fd, F_GETFD) != -1; vt_emit ("{\"e\":\"hfd\",\"ok\":%d}", ok); if (ok) __real_close (handler_fd); handler_fd = -1; }
		if (iplan >= nplan) nplan = iplan = 0;
	}
	storm (0);
	if (have_th) pthread_join (th, NULL);
	if (sem) { p_semaphore_take_ownership (sem); p_semaphore_free (sem); }
	if (shm) { p_shm_take_ownership (shm); p_shm_free (shm); }
	p_libsys_shutdown ();
	vt_close ();
	return 0;
}
