/* Multi-process IPC driver (C06 PSemaphore, C07 PShm, crash points, racing creators).
 * usage: drv_ipc <script> <trace> <nameprefix> <nchildren>
 * The parent interprets the script and is the only writer of the trace, so the trace order is the
 * parent's serialisation. Children are forked command servers running the real library; every IPC
 * system call they make goes through a link-time wrapper that reports it (R line) and, when the child
 * is in gated mode, first stops at a gate (G line) until the parent lets it continue or SIGKILLs it.
 *
 * script:  P p <op ..>   run op in child p and wait for its completion
 *          A p <op ..>   start op in child p, do not wait (an acquire that is expected to block)
 *          W p           wait (10 s watchdog) for the completion of the op started with A / B; Stuck event on expiry
 *          B p <op ..>   gated: start op, run to the first gate (or completion)
 *          S p           gated: let child p continue to its next gate (or completion)
 *          K p           SIGKILL child p (wherever it is) and start a fresh child p
 *          obs <name..>  which /dev/shm entries exist for the platform keys seen so far
 *          epoch
 * ops:     semnew h name init open|create | acq h | rel h | own h | free h | val h
 *          shmnew h name size | shmsize h | shmw h off byte | shmr h off | shmlock h | shmunlock h | shmown h | shmfree h */
#define _GNU_SOURCE
#include <plibsys.h>
#include <semaphore.h>
#include <fcntl.h>
#include <sys/mman.h>
#include <sys/stat.h>
#include <sys/wait.h>
#include <signal.h>
#include <errno.h>
#include <stdarg.h>
#include <poll.h>
#include "vtrace.h"

/* ------------------------------------------------------------------ child side */
static int c_in = -1, c_out = -1;     /* child's command / reply descriptors */
static int in_op, gated;
static sem_t *last_sem; static char last_semkey[64];
static void c_say (const char *fmt, ...) { char b[512]; va_list ap; int n; va_start (ap, fmt); n = vsnprintf (b, sizeof b, fmt, ap); va_end (ap); if (write (c_out, b, (size_t) n) != n) _exit (9); }
static void gate (const char *fmt, ...) {
	char b[512]; va_list ap; int n; char c;
	if (!in_op || !gated) return;
	va_start (ap, fmt); n = vsnprintf (b, sizeof b, fmt, ap); va_end (ap);
	if (write (c_out, b, (size_t) n) != n) _exit (9);
	if (read (c_in, &c, 1) != 1) _exit (9);
}
/* "failnext CALL ERRNO SKIP": after SKIP further invocations of CALL inside API calls, the next one fails with ERRNO without being made */
static char fn_call[32]; static int fn_errno, fn_skip, fn_ops;       /* fn_ops: the plan is valid for the next API call only */
static int inject (const char *call) {
	if (!in_op || !fn_call[0] || strcmp (fn_call, call)) return 0;
	if (fn_skip > 0) { fn_skip--; return 0; }
	fn_call[0] = 0; errno = fn_errno; return 1;
}
#define REP(...) do { if (in_op) { int e_ = errno; c_say (__VA_ARGS__); errno = e_; } } while (0)
sem_t *__real_sem_open (const char *, int, ...);
sem_t *__wrap_sem_open (const char *name, int oflag, ...) {
	sem_t *r; mode_t mode = 0; unsigned value = 0; va_list ap;
	if (oflag & O_CREAT) { va_start (ap, oflag); mode = (mode_t) va_arg (ap, int); value = va_arg (ap, unsigned); va_end (ap); }
	gate ("G sem_open %s %d %u\n", name, oflag, value);
	if (inject ("sem_open")) { REP ("R sem_open %s %d %u %d %d\n", name, oflag, value, -1, errno); return SEM_FAILED; }
	r = (oflag & O_CREAT) ? __real_sem_open (name, oflag, mode, value) : __real_sem_open (name, oflag);
	if (r != SEM_FAILED) { last_sem = r; snprintf (last_semkey, sizeof last_semkey, "%s", name); }
	REP ("R sem_open %s %d %u %d %d\n", name, oflag, value, r == SEM_FAILED ? -1 : 0, r == SEM_FAILED ? errno : 0);
	return r;
}
int __real_sem_unlink (const char *); int __wrap_sem_unlink (const char *name) { int r; gate ("G sem_unlink %s\n", name); r = __real_sem_unlink (name); REP ("R sem_unlink %s %d %d\n", name, r, r ? errno : 0); return r; }
int __real_sem_close (sem_t *); int __wrap_sem_close (sem_t *s) { int r; gate ("G sem_close -\n"); r = __real_sem_close (s); REP ("R sem_close - %d %d\n", r, r ? errno : 0); return r; }
int __real_sem_wait (sem_t *); int __wrap_sem_wait (sem_t *s) { int r; gate ("G sem_wait -\n"); if (inject ("sem_wait")) { REP ("R sem_wait - %d %d\n", -1, errno); return -1; } r = __real_sem_wait (s); REP ("R sem_wait - %d %d\n", r, r ? errno : 0); return r; }
int __real_sem_post (sem_t *); int __wrap_sem_post (sem_t *s) { int r; gate ("G sem_post -\n"); r = __real_sem_post (s); REP ("R sem_post - %d %d\n", r, r ? errno : 0); return r; }
int __real_shm_open (const char *, int, mode_t); int __wrap_shm_open (const char *name, int oflag, mode_t mode) { int r; gate ("G shm_open %s %d\n", name, oflag); if (inject ("shm_open")) { REP ("R shm_open %s %d %d %d\n", name, oflag, -1, errno); return -1; } r = __real_shm_open (name, oflag, mode); REP ("R shm_open %s %d %d %d\n", name, oflag, r < 0 ? -1 : 0, r < 0 ? errno : 0); return r; }
int __real_shm_unlink (const char *); int __wrap_shm_unlink (const char *name) { int r; gate ("G shm_unlink %s\n", name); r = __real_shm_unlink (name); REP ("R shm_unlink %s %d %d\n", name, r, r ? errno : 0); return r; }
int __real_ftruncate (int, off_t); int __wrap_ftruncate (int fd, off_t len) { int r; gate ("G ftruncate %ld\n", (long) len); if (inject ("ftruncate")) { REP ("R ftruncate %ld %d %d\n", (long) len, -1, errno); return -1; } r = __real_ftruncate (fd, len); REP ("R ftruncate %ld %d %d\n", (long) len, r, r ? errno : 0); return r; }
int __real_fstat (int, struct stat *); int __wrap_fstat (int fd, struct stat *st) { int r; gate ("G fstat -\n"); r = __real_fstat (fd, st); REP ("R fstat %ld %d %d\n", r ? -1L : (long) st->st_size, r, r ? errno : 0); return r; }
void *__real_mmap (void *, size_t, int, int, int, off_t); void *__wrap_mmap (void *a, size_t len, int prot, int flags, int fd, off_t off) { void *r; gate ("G mmap %ld\n", (long) len); if (inject ("mmap")) { REP ("R mmap %ld %d %d\n", (long) len, -1, errno); return MAP_FAILED; } r = __real_mmap (a, len, prot, flags, fd, off); REP ("R mmap %ld %d %d\n", (long) len, r == MAP_FAILED ? -1 : 0, r == MAP_FAILED ? errno : 0); return r; }
int __real_munmap (void *, size_t); int __wrap_munmap (void *a, size_t len) { int r; gate ("G munmap %ld\n", (long) len); r = __real_munmap (a, len); REP ("R munmap %ld %d %d\n", (long) len, r, r ? errno : 0); return r; }

#define MAXH 8
static PSemaphore *sh[MAXH]; static sem_t *shraw[MAXH]; static PShm *mh[MAXH];
static const char *prefix;
static void child_main (void) {
	char line[512], op[32], a2[64], a3[64], a4[64]; int h;
	p_libsys_init (); p_libsys_shutdown (); p_libsys_init ();      /* the library is used after a shutdown / re-initialisation cycle */
	for (;;) {
		int n = 0, i = 0; char c; char name[640];
		/* unbuffered line read (the gate reads single bytes from the same descriptor) */
		while (i < (int) sizeof line - 1) { if (read (c_in, &c, 1) != 1) _exit (0); if (c == '\n') break; line[i++] = c; }
		line[i] = 0; a2[0] = a3[0] = a4[0] = 0; h = 0;
		if (sscanf (line, "%31s %d %63s %63s %63s%n", op, &h, a2, a3, a4, &n) < 1) continue;
		if (!strcmp (op, "gated")) { gated = h; c_say ("D 1 0\n"); continue; }
		if (!strcmp (op, "failnext")) { char cl[32] = ""; int en = 0, sk = 0; sscanf (line, "%*s %31s %d %d", cl, &en, &sk); snprintf (fn_call, sizeof fn_call, "%s", cl); fn_errno = en; fn_skip = sk; fn_ops = 1; c_say ("D 1 0\n"); continue; }
		if (fn_ops > 0) fn_ops--; else fn_call[0] = 0;
		in_op = 1;
		if (!strcmp (op, "semnew")) {
			PError *err = NULL; int ecode = 0;
			snprintf (name, sizeof name, "%s_%s", prefix, a2); last_sem = NULL;
			sh[h] = p_semaphore_new (name, atoi (a3), !strcmp (a4, "create") ? P_SEM_ACCESS_CREATE : P_SEM_ACCESS_OPEN, &err);
			shraw[h] = sh[h] ? last_sem : NULL;
			if (err) { ecode = p_error_get_native_code (err); p_error_free (err); }
			{ int v = -1; if (shraw[h]) sem_getvalue (shraw[h], &v); in_op = 0; c_say ("D %d %d %d\n", sh[h] ? 1 : 0, v, ecode); }
		} else if ((!strcmp (op, "acq") || !strcmp (op, "rel") || !strcmp (op, "own") || !strcmp (op, "free")) && !sh[h]) { in_op = 0; c_say ("D 0 -1\n"); }
		else if (!strncmp (op, "shm", 3) && strncmp (op, "shmnew", 6) && !mh[h]) { in_op = 0; c_say ("D 0 -1\n"); }
		else if (!strcmp (op, "acq")) { pboolean r = p_semaphore_acquire (sh[h], NULL); int v = -1; sem_getvalue (shraw[h], &v); in_op = 0; c_say ("D %d %d\n", r ? 1 : 0, v); }
		else if (!strcmp (op, "rel")) { pboolean r = p_semaphore_release (sh[h], NULL); int v = -1; sem_getvalue (shraw[h], &v); in_op = 0; c_say ("D %d %d\n", r ? 1 : 0, v); }
		else if (!strcmp (op, "own")) { p_semaphore_take_ownership (sh[h]); in_op = 0; c_say ("D 1 0\n"); }
		else if (!strcmp (op, "free")) { p_semaphore_free (sh[h]); sh[h] = NULL; shraw[h] = NULL; in_op = 0; c_say ("D 1 0\n"); }
		else if (!strcmp (op, "val")) { int v = -1; if (shraw[h]) sem_getvalue (shraw[h], &v); in_op = 0; c_say ("D %d %d\n", shraw[h] ? 1 : 0, v); }
		else if (!strcmp (op, "shmnew") || !strcmp (op, "shmnewro")) {      /* (shmnewro: the handle is asked for with read-only access) */
			PError *err = NULL; int ecode = 0;
			snprintf (name, sizeof name, "%s_%s", prefix, a2);
			mh[h] = p_shm_new (name, (psize) atol (a3), op[6] ? P_SHM_ACCESS_READONLY : P_SHM_ACCESS_READWRITE, &err);
			if (err) { ecode = p_error_get_native_code (err); p_error_free (err); }
			in_op = 0; c_say ("D %d %ld %d\n", mh[h] ? 1 : 0, mh[h] ? (long) p_shm_get_size (mh[h]) : -1L, ecode);
		} else if (!strcmp (op, "shmsize")) { in_op = 0; c_say ("D 1 %ld\n", (long) p_shm_get_size (mh[h])); }
		else if (!strcmp (op, "shmw")) { ((volatile unsigned char *) p_shm_get_address (mh[h]))[atol (a2)] = (unsigned char) atoi (a3); in_op = 0; c_say ("D 1 0\n"); }
		else if (!strcmp (op, "shmr")) { int v = ((volatile unsigned char *) p_shm_get_address (mh[h]))[atol (a2)]; in_op = 0; c_say ("D 1 %d\n", v); }
		else if (!strcmp (op, "shmlock")) { pboolean r = p_shm_lock (mh[h], NULL); in_op = 0; c_say ("D %d 0\n", r ? 1 : 0); }
		else if (!strcmp (op, "shmunlock")) { pboolean r = p_shm_unlock (mh[h], NULL); in_op = 0; c_say ("D %d 0\n", r ? 1 : 0); }
		else if (!strcmp (op, "shmown")) { p_shm_take_ownership (mh[h]); in_op = 0; c_say ("D 1 0\n"); }
		else if (!strcmp (op, "shmfree")) { p_shm_free (mh[h]); mh[h] = NULL; in_op = 0; c_say ("D 1 0\n"); }
		else { in_op = 0; c_say ("D -9 0\n"); }
	}
}

/* ------------------------------------------------------------------ parent side */
#define MAXC 6
static struct { pid_t pid; int to, from; char pend[256]; int busy; } ch[MAXC + 1];
static char keys[32][64]; static int nkeys;
static void learn_key (const char *k) { int i; if (k[0] != '/') return; for (i = 0; i < nkeys; i++) if (!strcmp (keys[i], k)) return; if (nkeys < 32) snprintf (keys[nkeys++], 64, "%s", k); }
static void spawn (int p) {
	int a[2], b[2];
	if (pipe (a) || pipe (b)) vt_die ("pipe");
	fflush (NULL);
	ch[p].pid = fork ();
	if (ch[p].pid == 0) {
		int i; for (i = 1; i <= MAXC; i++) if (i != p && ch[i].pid > 0) { close (ch[i].to); close (ch[i].from); }
		close (a[1]); close (b[0]); c_in = a[0]; c_out = b[1]; vt_fp = NULL;
		child_main (); _exit (0);
	}
	close (a[0]); close (b[1]); ch[p].to = a[1]; ch[p].from = b[0]; ch[p].busy = 0;
}
static void send_ (int p, const char *s) { size_t n = strlen (s); if (write (ch[p].to, s, n) != (ssize_t) n || write (ch[p].to, "\n", 1) != 1) vt_die ("write to child"); }
/* read one line from child p; returns 0 on watchdog expiry / EOF */
static int readline_ (int p, char *buf, int cap, int timeout_ms) {
	int i = 0; char c; struct pollfd pf;
	for (;;) {
		pf.fd = ch[p].from; pf.events = POLLIN;
		if (poll (&pf, 1, timeout_ms) <= 0) { buf[i] = 0; return 0; }
		if (read (ch[p].from, &c, 1) != 1) { buf[i] = 0; return 0; }
		if (c == '\n') break;
		if (i < cap - 1) buf[i++] = c;
	}
	buf[i] = 0; return 1;
}
/* consume child messages until a gate (returns 'G'), completion ('D') or timeout (0). R lines become sys events. */
static int pump (int p, int timeout_ms, char *dline) {
	char line[512];
	for (;;) {
		if (!readline_ (p, line, sizeof line, timeout_ms)) return 0;
		if (line[0] == 'R') {
			char call[32], a1[80]; long x1 = 0, x2 = 0, x3 = 0, x4 = 0; int n;
			n = sscanf (line, "R %31s %79s %ld %ld %ld %ld", call, a1, &x1, &x2, &x3, &x4);
			learn_key (a1);
			if (!strcmp (call, "sem_open")) vt_emit ("{\"e\":\"sys\",\"p\":%d,\"call\":\"sem_open\",\"key\":\"%s\",\"excl\":%d,\"creat\":%d,\"value\":%ld,\"ret\":%ld,\"errno\":%ld}", p, a1, (x1 & O_EXCL) ? 1 : 0, (x1 & O_CREAT) ? 1 : 0, x2, x3, x4);
			else if (!strcmp (call, "shm_open")) vt_emit ("{\"e\":\"sys\",\"p\":%d,\"call\":\"shm_open\",\"key\":\"%s\",\"excl\":%d,\"creat\":%d,\"ret\":%ld,\"errno\":%ld}", p, a1, (x1 & O_EXCL) ? 1 : 0, (x1 & O_CREAT) ? 1 : 0, x2, x3);
			else if (!strcmp (call, "sem_unlink") || !strcmp (call, "shm_unlink")) vt_emit ("{\"e\":\"sys\",\"p\":%d,\"call\":\"%s\",\"key\":\"%s\",\"ret\":%ld,\"errno\":%ld}", p, call, a1, x1, x2);
			else vt_emit ("{\"e\":\"sys\",\"p\":%d,\"call\":\"%s\",\"arg\":%ld,\"ret\":%ld,\"errno\":%ld}", p, call, a1[0] == '-' && !a1[1] ? 0L : atol (a1), x1, x2);
			(void) n;
			continue;
		}
		if (line[0] == 'G') { char call[32]; sscanf (line, "G %31s", call); vt_emit ("{\"e\":\"gate\",\"p\":%d,\"call\":\"%s\"}", p, call); return 'G'; }
		if (line[0] == 'D') { snprintf (dline, 256, "%s", line); return 'D'; }
	}
}
/* every op is logged as a call event (with its arguments) and a ret event (with its results) */
static int pending_inj[16];      /* the next call of process p runs with an injected system-call failure */
static void emit_call (int p, const char *cmd) {
	char op[32], a2[64] = "0", a3[64] = "0", a4[64] = ""; int h = 0;
	sscanf (cmd, "%31s %d %63s %63s %63s", op, &h, a2, a3, a4);
	if (!strcmp (op, "shmnewro")) op[6] = 0;      /* the same call as far as the specification goes: which access the handle asked for does not change what a segment is */
	vt_emit ("{\"e\":\"call\",\"p\":%d,\"h\":%d,\"op\":\"%s\",\"a\":%ld,\"b\":%ld,\"create\":%d,\"inj\":%d}", p, p * 10 + h, op, atol (a2), atol (a3), !strcmp (a4, "create") ? 1 : 0, pending_inj[p]);
	pending_inj[p] = 0;
}
static void emit_done (int p, const char *cmd, const char *dline) {
	char op[32]; int h = 0; long r1 = 0, r2 = 0, r3 = 0;
	sscanf (cmd, "%31s %d", op, &h);
	if (!strcmp (op, "shmnewro")) op[6] = 0;
	sscanf (dline, "D %ld %ld %ld", &r1, &r2, &r3);
	vt_emit ("{\"e\":\"ret\",\"p\":%d,\"h\":%d,\"op\":\"%s\",\"ok\":%ld,\"val\":%ld,\"errno\":%ld}", p, p * 10 + h, op, r1, r2, r3);
}
int main (int argc, char **argv) {
	FILE *in; char line[512], dline[256]; int nch, p;
	if (argc < 5) return 2;
	prefix = argv[3]; nch = atoi (argv[4]); if (nch > MAXC) return 2;
	in = fopen (argv[1], "r"); if (!in) return 2;
	vt_open (argv[2]);
	signal (SIGPIPE, SIG_IGN);
	for (p = 1; p <= nch; p++) spawn (p);
	while (fgets (line, sizeof line, in)) {
		char c = line[0], *cmd; size_t n = strlen (line);
		if (n && line[n - 1] == '\n') line[n - 1] = 0;
		if (!strncmp (line, "epoch", 5)) {
			/* a process that is still blocked inside a call at the end of a scenario is removed the hard way (a crash the P-spec allows anywhere) */
			for (p = 1; p <= nch; p++) if (ch[p].busy) {
				int st, r = pump (p, 300, dline);
				if (r == 'D') { emit_done (p, ch[p].pend, dline); ch[p].busy = 0; continue; }
				kill (ch[p].pid, SIGKILL); waitpid (ch[p].pid, &st, 0); close (ch[p].to); close (ch[p].from);
				vt_emit ("{\"e\":\"crash\",\"p\":%d}", p);
				spawn (p);
			}
			vt_emit ("{\"e\":\"Epoch\"}"); continue;
		}
		if (!strncmp (line, "obs", 3)) {
			int i; VT ("{\"e\":\"obs\",\"shm\":[");
			for (i = 0; i < nkeys; i++) { char path[128]; snprintf (path, sizeof path, "/dev/shm%s", keys[i]); VT ("%s[\"%s\",%d]", i ? "," : "", keys[i], access (path, F_OK) == 0); }
			VT ("],\"sem\":[");
			for (i = 0; i < nkeys; i++) { char path[128]; snprintf (path, sizeof path, "/dev/shm/sem.%s", keys[i] + 1); VT ("%s[\"%s\",%d]", i ? "," : "", keys[i], access (path, F_OK) == 0); }
			VT ("]}"); VT_END (); continue;
		}
		if (n < 3 || line[1] != ' ') continue;
		p = atoi (line + 2); cmd = strchr (line + 2, ' '); cmd = cmd ? cmd + 1 : (char *) "";
		if (p < 1 || p > nch) continue;
		if ((c == 'P' || c == 'A' || c == 'B') && ch[p].busy) {
			/* the (single-threaded) process is still inside an earlier call: its completion belongs to that call.  Collect it first;
			 * if it does not come the process is blocked and cannot take this command - the command is skipped, never misattributed. */
			int r = pump (p, 10000, dline);
			if (r == 'D') { emit_done (p, ch[p].pend, dline); ch[p].busy = 0; }
			else { vt_emit ("{\"e\":\"Stuck\",\"p\":%d,\"cmd\":\"%s\"}", p, ch[p].pend); continue; }
		}
		if (c == 'X') {          /* X p CALL ERRNO SKIP: arm a system-call failure for the next call of process p */
			char b[128]; if (ch[p].busy) continue;
			snprintf (b, sizeof b, "failnext %s", cmd); send_ (p, b); pump (p, 10000, dline); pending_inj[p] = 1; continue;
		}
		if (c == 'P') {
			int r;
			emit_call (p, cmd); send_ (p, cmd);
			r = pump (p, 10000, dline);
			if (r == 'D') emit_done (p, cmd, dline); else vt_emit ("{\"e\":\"Stuck\",\"p\":%d,\"cmd\":\"%s\"}", p, cmd);
		} else if (c == 'A' || c == 'B') {
			int r;
			if (c == 'B') { send_ (p, "gated 1"); pump (p, 10000, dline); }
			emit_call (p, cmd); send_ (p, cmd); snprintf (ch[p].pend, sizeof ch[p].pend, "%s", cmd); ch[p].busy = 1;
			if (c == 'B') { r = pump (p, 10000, dline); if (r == 'D') { emit_done (p, cmd, dline); ch[p].busy = 0; } }
		} else if (c == 'S') {
			int r;
			if (!ch[p].busy) continue;
			if (write (ch[p].to, "c", 1) != 1) vt_die ("step");
			r = pump (p, 10000, dline);
			if (r == 'D') { emit_done (p, ch[p].pend, dline); ch[p].busy = 0; send_ (p, "gated 0"); pump (p, 10000, dline); }
			else if (r == 0) vt_emit ("{\"e\":\"Stuck\",\"p\":%d,\"cmd\":\"%s\"}", p, ch[p].pend);
		} else if (c == 'F') {       /* gated: run the pending op through all remaining gates to completion */
			int r = 'G', guard = 0;
			if (!ch[p].busy) continue;
			while (r == 'G' && guard++ < 64) { if (write (ch[p].to, "c", 1) != 1) vt_die ("step"); r = pump (p, 10000, dline); }
			if (r == 'D') { emit_done (p, ch[p].pend, dline); ch[p].busy = 0; send_ (p, "gated 0"); pump (p, 10000, dline); }
			else vt_emit ("{\"e\":\"Stuck\",\"p\":%d,\"cmd\":\"%s\"}", p, ch[p].pend);
		} else if (c == 'T') {       /* collect the completion of an op started with A if it is already there (300 ms): never a Stuck */
			int r;
			if (!ch[p].busy) continue;
			r = pump (p, 300, dline);
			if (r == 'D') { emit_done (p, ch[p].pend, dline); ch[p].busy = 0; }
		} else if (c == 'W') {
			int r;
			if (!ch[p].busy) continue;
			r = pump (p, 10000, dline);
			if (r == 'D') { emit_done (p, ch[p].pend, dline); ch[p].busy = 0; }
			else vt_emit ("{\"e\":\"Stuck\",\"p\":%d,\"cmd\":\"%s\"}", p, ch[p].pend);
		} else if (c == 'K') {
			int st;
			kill (ch[p].pid, SIGKILL); waitpid (ch[p].pid, &st, 0); close (ch[p].to); close (ch[p].from);
			vt_emit ("{\"e\":\"crash\",\"p\":%d}", p);
			spawn (p);
		}
	}
	for (p = 1; p <= nch; p++) { int st; kill (ch[p].pid, SIGKILL); waitpid (ch[p].pid, &st, 0); }
	vt_close ();
	return 0;
}
