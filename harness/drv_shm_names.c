/* PShm driver (C07): threads of ONE process create different segments at the same moment, then look into each other's.
 * usage: drv_shm_names <tracebase> <nameprefix> <rounds> <seed>
 * Every round, threads t = 1..3 (logged as "processes" t with handles t1, t2 in the conventions of drv_ipc / ShmTrace):
 *   A  together: create name t with a size of its own            B  store a byte of its own at offset 0 and at size-1
 *   C  open the next thread's name with size 0, read both bytes    D  free the second handle      E  free the first (creator) handle
 * Phases are separated by barriers; the main thread logs the Epoch marker. */
#include <plibsys.h>
#include <sched.h>
#include "vtmt.h"
static const char *base, *prefix; static int rounds; static unsigned seed;
static volatile int phase, done_cnt; static long sizes[4];
static void wait_phase (int p) { while (__atomic_load_n (&phase, __ATOMIC_SEQ_CST) < p) ; }
static void done (void) { __atomic_add_fetch (&done_cnt, 1, __ATOMIC_SEQ_CST); }
#define CALL(h, op, a, b) VTM ("\"e\":\"call\",\"p\":%d,\"h\":%d,\"op\":\"%s\",\"a\":%ld,\"b\":%ld,\"create\":0", t, h, op, (long) (a), (long) (b))
#define RET(h, op, ok, v) VTM ("\"e\":\"ret\",\"p\":%d,\"h\":%d,\"op\":\"%s\",\"ok\":%d,\"val\":%ld,\"errno\":0", t, h, op, ok, (long) (v))
static void *actor (void *arg) {
	int t = (int) (long) arg, r, o = t % 3 + 1; char nm[200], onm[200];
	vtm_open (base, t);
	snprintf (nm, sizeof nm, "%s_%d", prefix, t); snprintf (onm, sizeof onm, "%s_%d", prefix, o);
	for (r = 0; r < rounds; r++) {
		PShm *a, *b; int h1 = t * 10 + 1, h2 = t * 10 + 2; volatile unsigned char *m;
		wait_phase (r * 5 + 1);
		CALL (h1, "shmnew", t, sizes[t]); a = p_shm_new (nm, (psize) sizes[t], P_SHM_ACCESS_READWRITE, NULL); RET (h1, "shmnew", a ? 1 : 0, a ? (long) p_shm_get_size (a) : -1);
		done (); wait_phase (r * 5 + 2);
		if (a) { m = p_shm_get_address (a);
			 CALL (h1, "shmw", 0, 10 + t); m[0] = (unsigned char) (10 + t); RET (h1, "shmw", 1, 0);
			 CALL (h1, "shmw", sizes[t] - 1, 20 + t); m[sizes[t] - 1] = (unsigned char) (20 + t); RET (h1, "shmw", 1, 0); }
		done (); wait_phase (r * 5 + 3);
		CALL (h2, "shmnew", o, 0); b = p_shm_new (onm, 0, P_SHM_ACCESS_READWRITE, NULL); RET (h2, "shmnew", b ? 1 : 0, b ? (long) p_shm_get_size (b) : -1);
		if (b) { long sz = (long) p_shm_get_size (b); m = p_shm_get_address (b);
			 CALL (h2, "shmr", 0, 0); RET (h2, "shmr", 1, m[0]);
			 if (sz > 0) { CALL (h2, "shmr", sz - 1, 0); RET (h2, "shmr", 1, m[sz - 1]); } }
		done (); wait_phase (r * 5 + 4);
		if (b) { CALL (h2, "shmfree", 0, 0); p_shm_free (b); RET (h2, "shmfree", 1, 0); }
		done (); wait_phase (r * 5 + 5);
		if (a) { CALL (h1, "shmfree", 0, 0); p_shm_free (a); RET (h1, "shmfree", 1, 0); }
		done ();
	}
	vtm_close ();
	return NULL;
}
int main (int argc, char **argv) {
	pthread_t th[4]; int t, r, p;
	if (argc < 5) return 2;
	base = argv[1]; prefix = argv[2]; rounds = atoi (argv[3]); seed = (unsigned) atoi (argv[4]);
	vtm_init (4); p_libsys_init (); vtm_open (base, 0);
	for (t = 1; t <= 3; t++) sizes[t] = 64;
	for (t = 1; t <= 3; t++) pthread_create (&th[t], NULL, actor, (void *) (long) t);
	for (r = 0; r < rounds; r++) {
		static const long S[] = { 16, 100, 4096, 5000, 17, 64 };
		for (t = 1; t <= 3; t++) sizes[t] = S[(seed + (unsigned) r * 3u + (unsigned) t) % 6] + t;      /* three different sizes per round */
		for (p = 1; p <= 5; p++) {
			done_cnt = 0;
			__atomic_store_n (&phase, r * 5 + p, __ATOMIC_SEQ_CST);
			while (__atomic_load_n (&done_cnt, __ATOMIC_SEQ_CST) < 3) sched_yield ();
		}
		VTM ("\"e\":\"Epoch\"");
	}
	for (t = 1; t <= 3; t++) pthread_join (th[t], NULL);
	vtm_close ();
	p_libsys_shutdown ();
	return 0;
}
