/* PShmBuffer sequential driver (C08).  usage: drv_shmbuf <script> <trace> <nameprefix>
 * script: name N | bnew H SIZE | bw H b1 b2 .. | br H LEN | bclr H | bsp H | bfree H | bown H | reset
 * Every event carries rp/wp (ring positions read through an independent PShm handle of the same
 * name: I-level view) and tail (1 iff the bytes between the end of the segment and the end of
 * its last page are still zero). */
#include <plibsys.h>
#include <stdint.h>
#include <errno.h>
#include <unistd.h>
#include "vtrace.h"
#include "galloc.h"

#include <sys/mman.h>
/* every mapping of a shared segment is followed by an inaccessible page: an access behind the last page of the segment faults
 * (behind the segment but inside its last page it is seen by the "tail" check below) */
void *__real_mmap (void *, size_t, int, int, int, off_t); int __real_munmap (void *, size_t);
static struct { void *a; size_t total; } gmap[64];
void *__wrap_mmap (void *addr, size_t len, int prot, int flags, int fd, off_t off) {
	long pg = sysconf (_SC_PAGESIZE); int i;
	if (fd >= 0 && (flags & MAP_SHARED) && addr == NULL && len > 0) {
		size_t total = (len + (size_t) pg - 1) / (size_t) pg * (size_t) pg + (size_t) pg; char *base = __real_mmap (NULL, total, PROT_NONE, MAP_PRIVATE | MAP_ANONYMOUS, -1, 0); void *r;
		if (base == MAP_FAILED) return MAP_FAILED;
		r = __real_mmap (base, len, prot, flags | MAP_FIXED, fd, off);
		if (r == MAP_FAILED) { int e = errno; __real_munmap (base, total); errno = e; return MAP_FAILED; }
		for (i = 0; i < 64; i++) if (!gmap[i].a) { gmap[i].a = r; gmap[i].total = total; break; }
		return r;
	}
	return __real_mmap (addr, len, prot, flags, fd, off);
}
int __wrap_munmap (void *a, size_t len) {
	int i;
	for (i = 0; i < 64; i++) if (gmap[i].a == a) { size_t t = gmap[i].total; gmap[i].a = NULL; (void) len; return __real_munmap (a, t); }
	return __real_munmap (a, len);
}
#define MAXH 8
static PShmBuffer *hb[MAXH];
static PShm *raw; static char name[128]; static const char *prefix;
static long pagesz;

static void raw_open (void) {
	if (!raw) raw = p_shm_new (name, 0, P_SHM_ACCESS_READWRITE, NULL);
}
static void raw_close (void) { if (raw) { p_shm_free (raw); raw = NULL; } }
static void emit_view (void) {
	size_t rp = 0, wp = 0, sz = 0, i, end; int tail = 1; unsigned char *a;
	if (!raw) { VT ("\"rp\":-1,\"wp\":-1,\"seg\":-1,\"tail\":1"); return; }
	a = p_shm_get_address (raw); sz = p_shm_get_size (raw);
	memcpy (&rp, a, sizeof rp); memcpy (&wp, a + sizeof rp, sizeof wp);
	end = (sz + pagesz - 1) / pagesz * pagesz;
	for (i = sz; i < end; i++) if (a[i]) tail = 0;
	VT ("\"rp\":%ld,\"wp\":%ld,\"seg\":%ld,\"tail\":%d", (long) rp, (long) wp, (long) sz, tail);
}

int main (int argc, char **argv) {
	FILE *in; char line[8192], op[32]; int h;
	if (argc < 4) return 2;
	prefix = argv[3]; pagesz = sysconf (_SC_PAGESIZE);
	in = fopen (argv[1], "r"); if (!in) { perror (argv[1]); return 2; }
	vt_open (argv[2]);
	p_libsys_init (); p_libsys_shutdown (); p_libsys_init ();      /* the library is used after a shutdown / re-initialisation cycle */
	if (!ga_install ()) return 2;      /* fresh memory is garbage, released memory is overwritten (galloc.h) */
	while (fgets (line, sizeof line, in)) {
		char *p = line; int n = 0;
		if (sscanf (p, "%31s%n", op, &n) < 1) continue;
		p += n;
		if (!strcmp (op, "name")) { int k; sscanf (p, "%d", &k); snprintf (name, sizeof name, "%s_%d", prefix, k); }
		else if (!strcmp (op, "reset")) {
			int i;
			raw_close ();
			for (i = 0; i < MAXH; i++) if (hb[i]) { p_shm_buffer_take_ownership (hb[i]); p_shm_buffer_free (hb[i]); hb[i] = NULL; }
			vt_emit ("{\"e\":\"Reset\"}");
		}
		else if (!strcmp (op, "bnew")) {
			long size; PError *err = NULL;
			sscanf (p, "%d %ld", &h, &size);
			hb[h] = p_shm_buffer_new (name, (psize) size, &err);
			if (hb[h]) raw_open ();
			VT ("{\"e\":\"bnew\",\"h\":%d,\"size\":%ld,\"ok\":%d,", h, size, hb[h] ? 1 : 0);
			emit_view (); VT ("}"); VT_END ();
			if (err) p_error_free (err);
		}
		else if (!strcmp (op, "bw")) {
			unsigned char *buf; int cnt = 0, v, m; pssize r;
			sscanf (p, "%d%n", &h, &m); p += m;
			buf = malloc (8192);
			while (sscanf (p, "%d%n", &v, &m) == 1) { buf[cnt++] = (unsigned char) v; p += m; }
			{ /* exact-size heap block so that an over-read is visible to ASan */
				unsigned char *ex = malloc (cnt ? cnt : 1); int i;
				memcpy (ex, buf, cnt);
				r = p_shm_buffer_write (hb[h], ex, (psize) cnt, NULL);
				VT ("{\"e\":\"bw\",\"h\":%d,\"data\":[", h);
				for (i = 0; i < cnt; i++) VT ("%s%d", i ? "," : "", buf[i]);
				VT ("],\"res\":%ld,", (long) r);
				free (ex);
			}
			emit_view (); VT ("}"); VT_END ();
			free (buf);
		}
		else if (!strcmp (op, "bwhuge")) {       /* a length close to the top of psize (as a negative length converted to unsigned gives): can never fit */
			long k; pssize r; unsigned char small[16] = { 1, 2, 3 };
			sscanf (p, "%d %ld", &h, &k);
			r = p_shm_buffer_write (hb[h], small, (psize) 0 - (psize) k, NULL);
			VT ("{\"e\":\"bwhuge\",\"h\":%d,\"k\":%ld,\"res\":%ld,", h, k, (long) r);
			emit_view (); VT ("}"); VT_END ();
		}
		else if (!strcmp (op, "br")) {
			int len, i; pint r; unsigned char *ex;
			sscanf (p, "%d %d", &h, &len);
			ex = malloc (len ? len : 1); memset (ex, 0xEE, len ? len : 1);
			r = p_shm_buffer_read (hb[h], ex, (psize) len, NULL);
			VT ("{\"e\":\"br\",\"h\":%d,\"len\":%d,\"res\":%d,\"data\":[", h, len, (int) r);
			for (i = 0; i < r && i < len; i++) VT ("%s%d", i ? "," : "", ex[i]);
			VT ("],\"clean\":");
			{ int clean = 1; for (i = r > 0 ? r : 0; i < len; i++) if (ex[i] != 0xEE) clean = 0; VT ("%d,", clean); }
			emit_view (); VT ("}"); VT_END ();
			free (ex);
		}
		else if (!strcmp (op, "bclr")) { sscanf (p, "%d", &h); p_shm_buffer_clear (hb[h]); VT ("{\"e\":\"bclr\",\"h\":%d,", h); emit_view (); VT ("}"); VT_END (); }
		else if (!strcmp (op, "bsp")) {
			pssize u, f;
			sscanf (p, "%d", &h);
			u = p_shm_buffer_get_used_space (hb[h], NULL); f = p_shm_buffer_get_free_space (hb[h], NULL);
			VT ("{\"e\":\"bsp\",\"h\":%d,\"used\":%ld,\"free\":%ld,", h, (long) u, (long) f); emit_view (); VT ("}"); VT_END ();
		}
		else if (!strcmp (op, "bown")) { sscanf (p, "%d", &h); p_shm_buffer_take_ownership (hb[h]); }
		else if (!strcmp (op, "bfree")) {
			int i, others = 0;
			sscanf (p, "%d", &h);
			for (i = 0; i < MAXH; i++) if (i != h && hb[i]) others++;
			if (!others) raw_close ();
			p_shm_buffer_free (hb[h]); hb[h] = NULL;
			vt_emit ("{\"e\":\"bfree\",\"h\":%d,\"last\":%d}", h, others ? 0 : 1);
		}
		else vt_die ("bad script op");
	}
	raw_close ();
	{ int i; for (i = 0; i < MAXH; i++) if (hb[i]) { p_shm_buffer_take_ownership (hb[i]); p_shm_buffer_free (hb[i]); } }
	p_mem_restore_vtable ();
	p_libsys_shutdown ();
	vt_close ();
	return 0;
}
