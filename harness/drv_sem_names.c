/* PSemaphore driver (C06): threads of ONE process open different names at the same moment.
 * usage: drv_sem_names <tracebase> <nameprefix> <rounds> <seed>
 * Every round: threads 1..3 leave a barrier together and each creates its own name t (CREATE, initial value 1..3 in an
 * order that changes per round); then the main thread opens every name (OPEN, initial value 0 - ignored for a name that
 * exists) and the value of each semaphore is read from the kernel object the platform key of the name denotes; then all
 * handles are freed (the creators' free removes the names).  Events follow the conventions of drv_ipc / SemTrace. */
#include <plibsys.h>
#include <semaphore.h>
#include <fcntl.h>
#include <errno.h>
#include "vtmt.h"
static const char *base, *prefix; static int rounds; static unsigned seed;
static PSemaphore *hs[4]; static volatile int phase1, phase2, done_cnt; static int inits[4];
static void keyof (int n, char *out) {         /* '/' + first 13 hex digits of SHA-1 (name + "_p_sem_object"): the documented derivation */
	char full[800]; PCryptoHash *h = p_crypto_hash_new (P_CRYPTO_HASH_TYPE_SHA1); pchar *s;
	snprintf (full, sizeof full, "%s_%d_p_sem_object", prefix, n);
	p_crypto_hash_update (h, (const puchar *) full, strlen (full)); s = p_crypto_hash_get_string (h);
	snprintf (out, 32, "/%.13s", s); p_free (s); p_crypto_hash_free (h);
}
static int rawval (int n) { char k[32]; sem_t *r; int v = -2; keyof (n, k); r = sem_open (k, 0); if (r != SEM_FAILED) { sem_getvalue (r, &v); sem_close (r); } return v; }
static void *creator (void *arg) {
	int t = (int) (long) arg, r; char nm[640];
	vtm_open (base, t);
	snprintf (nm, sizeof nm, "%s_%d", prefix, t);
	for (r = 1; r <= rounds; r++) {
		while (__atomic_load_n (&phase1, __ATOMIC_SEQ_CST) < r) ;
		VTM ("\"e\":\"call\",\"p\":%d,\"h\":%d,\"op\":\"semnew\",\"a\":%d,\"b\":%d,\"create\":1", t, t * 10 + 1, t, inits[t]);
		hs[t] = p_semaphore_new (nm, inits[t], P_SEM_ACCESS_CREATE, NULL);
		VTM ("\"e\":\"ret\",\"p\":%d,\"h\":%d,\"op\":\"semnew\",\"ok\":%d,\"val\":-1,\"errno\":0", t, t * 10 + 1, hs[t] ? 1 : 0);
		__atomic_add_fetch (&done_cnt, 1, __ATOMIC_SEQ_CST);
		while (__atomic_load_n (&phase2, __ATOMIC_SEQ_CST) < r) ;      /* phase 2 of the round: free */
		VTM ("\"e\":\"call\",\"p\":%d,\"h\":%d,\"op\":\"free\",\"a\":0,\"b\":0,\"create\":0", t, t * 10 + 1);
		if (hs[t]) p_semaphore_free (hs[t]);
		VTM ("\"e\":\"ret\",\"p\":%d,\"h\":%d,\"op\":\"free\",\"ok\":1,\"val\":-1,\"errno\":0", t, t * 10 + 1);
		__atomic_add_fetch (&done_cnt, 1, __ATOMIC_SEQ_CST);
	}
	vtm_close ();
	return NULL;
}
int main (int argc, char **argv) {
	pthread_t th[4]; int t, r; char nm[640];
	if (argc < 5) return 2;
	base = argv[1]; prefix = argv[2]; rounds = atoi (argv[3]); seed = (unsigned) atoi (argv[4]);
	vtm_init (4); p_libsys_init (); vtm_open (base, 0);
	for (t = 1; t <= 3; t++) pthread_create (&th[t], NULL, creator, (void *) (long) t);
	for (r = 1; r <= rounds; r++) {
		PSemaphore *m[4];
		for (t = 1; t <= 3; t++) inits[t] = 1 + (int) ((seed + (unsigned) r + (unsigned) t) % 3);
		done_cnt = 0;
		__atomic_store_n (&phase1, r, __ATOMIC_SEQ_CST);
		while (__atomic_load_n (&done_cnt, __ATOMIC_SEQ_CST) < 3) sched_yield ();
		for (t = 1; t <= 3; t++) {
			snprintf (nm, sizeof nm, "%s_%d", prefix, t);
			VTM ("\"e\":\"call\",\"p\":9,\"h\":%d,\"op\":\"semnew\",\"a\":%d,\"b\":0,\"create\":0", 90 + t, t);
			m[t] = p_semaphore_new (nm, 0, P_SEM_ACCESS_OPEN, NULL);
			VTM ("\"e\":\"ret\",\"p\":9,\"h\":%d,\"op\":\"semnew\",\"ok\":%d,\"val\":%d,\"errno\":0", 90 + t, m[t] ? 1 : 0, rawval (t));
		}
		for (t = 1; t <= 3; t++) {
			VTM ("\"e\":\"call\",\"p\":9,\"h\":%d,\"op\":\"free\",\"a\":0,\"b\":0,\"create\":0", 90 + t);
			if (m[t]) p_semaphore_free (m[t]);
			VTM ("\"e\":\"ret\",\"p\":9,\"h\":%d,\"op\":\"free\",\"ok\":1,\"val\":-1,\"errno\":0", 90 + t);
		}
		done_cnt = 0;
		__atomic_store_n (&phase2, r, __ATOMIC_SEQ_CST);
		while (__atomic_load_n (&done_cnt, __ATOMIC_SEQ_CST) < 3) sched_yield ();
		VTM ("\"e\":\"Epoch\"");
	}
	for (t = 1; t <= 3; t++) pthread_join (th[t], NULL);
	vtm_close ();
	p_libsys_shutdown ();
	return 0;
}
