/* Multi-thread / multi-process trace emitter: one global atomic sequence number in a shared
 * page (survives fork), one file per actor; the Python side merges the files by "s".
 * A "call" event takes its number before the call starts, a "ret" event after it returned, so
 * "A returned before B was called" is a fact of the merged order. */
#ifndef VTMT_H
#define VTMT_H
#include <stdio.h>
#include <stdlib.h>
#include <string.h>
#include <pthread.h>
#include <sys/mman.h>
#include <unistd.h>

typedef struct { long seq; pthread_barrier_t bar; long stop; long aux[16]; } VtmShared;
static VtmShared *vtm_sh;
static __thread FILE *vtm_fp;

static void vtm_init (int barrier_count) {
	pthread_barrierattr_t a;
	vtm_sh = mmap (NULL, 4096, PROT_READ | PROT_WRITE, MAP_SHARED | MAP_ANONYMOUS, -1, 0);
	if (vtm_sh == MAP_FAILED) { perror ("mmap"); exit (2); }
	memset (vtm_sh, 0, sizeof *vtm_sh);
	pthread_barrierattr_init (&a);
	pthread_barrierattr_setpshared (&a, PTHREAD_PROCESS_SHARED);
	if (barrier_count > 0) pthread_barrier_init (&vtm_sh->bar, &a, (unsigned) barrier_count);
}
static void vtm_open (const char *base, int actor) {
	char path[512];
	snprintf (path, sizeof path, "%s.%d", base, actor);
	vtm_fp = fopen (path, "w");
	if (!vtm_fp) { perror (path); exit (2); }
	setvbuf (vtm_fp, NULL, _IOFBF, 1 << 18);
}
static void vtm_close (void) { if (vtm_fp) { fclose (vtm_fp); vtm_fp = NULL; } }
static long vtm_next (void) { return __atomic_fetch_add (&vtm_sh->seq, 1, __ATOMIC_SEQ_CST); }
#define VTM(fmt, ...) fprintf (vtm_fp, "{\"s\":%ld," fmt "}\n", vtm_next (), ##__VA_ARGS__)
/* long lines: VTM_BEGIN, then fprintf (vtm_fp, ..) pieces, then VTM_END */
#define VTM_BEGIN() fprintf (vtm_fp, "{\"s\":%ld,", vtm_next ())
#define VTM_PUT(...) fprintf (vtm_fp, __VA_ARGS__)
#define VTM_END() fputs ("}\n", vtm_fp)
static void vtm_barrier (void) { pthread_barrier_wait (&vtm_sh->bar); }
#endif
