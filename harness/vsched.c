/* Virtual scheduler for the portable ("general") PRWLock (C02).
 * The unmodified /repo/src/prwlock-general.c is compiled into this translation unit against
 * virtual p_mutex_* / p_cond_variable_* built on ucontext coroutines: one OS thread, every
 * critical section is one deterministic step, the scheduler decides which thread steps next,
 * which waiter a signal wakes, and when a spurious wake-up happens.
 *
 *   vsched replay  <behaviour> <out>        follow TLC-generated steps, dump the state after each
 *   vsched explore <nthreads> <rounds> <runs> <seed> <trace>   seeded random schedules, ndjson for LockLin
 */
#define _GNU_SOURCE
#include "galloc.h"
#include <ucontext.h>
#include <stdarg.h>
#include <stdio.h>
#include <stdlib.h>
#include <string.h>
#include <plibsys.h>

struct PMutex_ { int owner; };
struct PCondVariable_ { unsigned waiters; };
#include "prwlock-general.c"

#define MAXT 8
enum { ST_IDLE, ST_WANT, ST_WAIT, ST_UNLOCKED, ST_FINISHED };
static const char *ST_NAME[] = { "idle", "want", "wait", "unlocked", "finished" };
typedef struct { ucontext_t ctx; char *stack; int id, st; const char *op; int hold; /* 0, 'r', 'w' */ PCondVariable *cv; int lastres; long cnt; } VThread;
static VThread th[MAXT + 1]; static ucontext_t sched_ctx; static VThread *cur; static int nth;
static PRWLock *lk; static long cell; static FILE *out; static long seqno;
static int wake_choice; static int diverged; static unsigned rs;
static unsigned rnd (void) { rs = rs * 1103515245u + 12345u; return (rs >> 16) & 0x7fff; }
static void yield_ (void) { swapcontext (&cur->ctx, &sched_ctx); }

/* ---- virtual primitives ---- */
P_LIB_API PMutex *p_mutex_new (void) { return calloc (1, sizeof (PMutex)); }
P_LIB_API void p_mutex_free (PMutex *m) { free (m); }
P_LIB_API pboolean p_mutex_lock (PMutex *m) { cur->st = ST_WANT; yield_ (); if (m->owner) { fprintf (stderr, "vsched: grant of an owned mutex\n"); exit (4); } m->owner = cur->id; return TRUE; }
P_LIB_API pboolean p_mutex_trylock (PMutex *m) { if (m->owner) return FALSE; m->owner = cur->id; return TRUE; }
P_LIB_API pboolean p_mutex_unlock (PMutex *m) { m->owner = 0; cur->st = ST_UNLOCKED; yield_ (); return TRUE; }
P_LIB_API PCondVariable *p_cond_variable_new (void) { return calloc (1, sizeof (PCondVariable)); }
P_LIB_API void p_cond_variable_free (PCondVariable *c) { free (c); }
P_LIB_API pboolean p_cond_variable_wait (PCondVariable *c, PMutex *m) {
	m->owner = 0; c->waiters |= 1u << cur->id; cur->cv = c; cur->st = ST_WAIT; yield_ ();
	if (m->owner) { fprintf (stderr, "vsched: wake-up into an owned mutex\n"); exit (4); }
	m->owner = cur->id; cur->cv = NULL; return TRUE;
}
P_LIB_API pboolean p_cond_variable_signal (PCondVariable *c) {
	int i, pick = 0;
	if (!c->waiters) return TRUE;
	if (wake_choice > 0) { if (c->waiters & (1u << wake_choice)) pick = wake_choice; else diverged = 1; }
	else if (wake_choice == 0) { int n = __builtin_popcount (c->waiters), k = (int) (rnd () % (unsigned) n); for (i = 1; i <= MAXT; i++) if (c->waiters & (1u << i)) { if (k-- == 0) { pick = i; break; } } }
	else diverged = 1;   /* behaviour says nobody is woken */
	if (!pick) for (i = 1; i <= MAXT; i++) if (c->waiters & (1u << i)) { pick = i; break; }
	c->waiters &= ~(1u << pick);
	return TRUE;
}
P_LIB_API pboolean p_cond_variable_broadcast (PCondVariable *c) { c->waiters = 0; return TRUE; }

/* ---- thread body ---- */
static void emit (const char *fmt, ...) { va_list ap; if (!out) return; va_start (ap, fmt); fprintf (out, "{\"s\":%ld,", seqno++); vfprintf (out, fmt, ap); fputs ("}\n", out); va_end (ap); }
static void body (void) {
	VThread *me = cur;
	for (;;) {
		pboolean r = FALSE; const char *op;
		me->st = ST_IDLE; yield_ ();
		op = me->op;
		emit ("\"e\":\"call\",\"t\":%d,\"o\":1,\"op\":\"%s\"", me->id, op);
		if (!strcmp (op, "rlock")) r = p_rwlock_reader_lock (lk);
		else if (!strcmp (op, "rtry")) r = p_rwlock_reader_trylock (lk);
		else if (!strcmp (op, "wlock")) r = p_rwlock_writer_lock (lk);
		else if (!strcmp (op, "wtry")) r = p_rwlock_writer_trylock (lk);
		else if (!strcmp (op, "runlock")) r = p_rwlock_reader_unlock (lk);
		else if (!strcmp (op, "wunlock")) r = p_rwlock_writer_unlock (lk);
		me->lastres = r ? 1 : 0;
		emit ("\"e\":\"ret\",\"t\":%d,\"o\":1,\"res\":%d", me->id, me->lastres);
		if (op[1] != 'u') {
			if (r) {
				me->hold = op[0];
				if (op[0] == 'w') { emit ("\"e\":\"cs\",\"t\":%d,\"o\":1,\"rd\":%ld,\"wr\":%ld", me->id, cell, cell + 1); cell++; }
				else emit ("\"e\":\"cs\",\"t\":%d,\"o\":1,\"rd\":%ld,\"wr\":-1", me->id, cell);
			} else me->cnt++;
		} else { me->hold = 0; me->cnt++; }
	}
}
static void spawn (int n) {
	int i;
	nth = n;
	for (i = 1; i <= n; i++) {
		memset (&th[i], 0, sizeof th[i]);
		th[i].id = i; th[i].stack = malloc (256 * 1024);
		getcontext (&th[i].ctx);
		th[i].ctx.uc_stack.ss_sp = th[i].stack; th[i].ctx.uc_stack.ss_size = 256 * 1024; th[i].ctx.uc_link = &sched_ctx;
		makecontext (&th[i].ctx, body, 0);
		cur = &th[i]; swapcontext (&sched_ctx, &th[i].ctx);   /* run to the first idle point */
	}
}
static void unspawn (void) { int i; for (i = 1; i <= nth; i++) free (th[i].stack); }
static void resume (int t) { cur = &th[t]; swapcontext (&sched_ctx, &th[t].ctx); }
static int woken (int t) { return th[t].st == ST_WAIT && th[t].cv && !(th[t].cv->waiters & (1u << t)); }
static int blocked (int t) { return th[t].st == ST_WAIT && th[t].cv && (th[t].cv->waiters & (1u << t)); }

static void dump_state (FILE *f, const char *tag) {
	int i;
#ifndef VS_NO_INTROSPECT
	fprintf (f, "{\"tag\":\"%s\",\"aR\":%u,\"aW\":%u,\"wR\":%u,\"wW\":%u,", tag,
		 P_RWLOCK_READER_COUNT (lk->active_threads), P_RWLOCK_WRITER_COUNT (lk->active_threads),
		 P_RWLOCK_READER_COUNT (lk->waiting_threads), P_RWLOCK_WRITER_COUNT (lk->waiting_threads));
	fprintf (f, "\"mtx\":%d,\"cvR\":%u,\"cvW\":%u,", lk->mutex->owner, lk->read_cv->waiters, lk->write_cv->waiters);
#else
	fprintf (f, "{\"tag\":\"%s\",\"aR\":-1,\"aW\":-1,\"wR\":-1,\"wW\":-1,\"mtx\":-1,\"cvR\":0,\"cvW\":0,", tag);
#endif
	fprintf (f, "\"div\":%d,\"th\":[", diverged);
	for (i = 1; i <= nth; i++)
		fprintf (f, "%s{\"st\":\"%s\",\"op\":\"%s\",\"hold\":\"%c\",\"blocked\":%d,\"res\":%d}", i > 1 ? "," : "",
			 ST_NAME[th[i].st], th[i].st == ST_IDLE ? "" : th[i].op, th[i].hold ? th[i].hold : '-', blocked (i), th[i].lastres);
	fprintf (f, "]}\n");
}

/* ---- replay of a TLC behaviour ----
 * lines: threads N | begin T OP | cs T [wake X|wake -1] | recheck T [wake ..] | return T | spurious T | end */
static int replay (const char *path, const char *outpath) {
	FILE *in = fopen (path, "r"), *o = fopen (outpath, "w"); char line[256], cmd[32], a2[32]; int t, x;
	if (!in || !o) return 2;
	while (fgets (line, sizeof line, in)) {
		t = 0; x = 0; a2[0] = 0;
		if (sscanf (line, "%31s %d %31s %d", cmd, &t, a2, &x) < 1) continue;
		if (!strcmp (cmd, "threads")) { lk = p_rwlock_new (); diverged = 0; spawn (t); dump_state (o, "init"); continue; }
		if (!strcmp (cmd, "end")) { dump_state (o, "end"); unspawn (); p_rwlock_free (lk); lk = NULL; continue; }
		if (diverged) { continue; }
		wake_choice = -1;
		if (!strcmp (cmd, "begin")) {
			if (th[t].st != ST_IDLE) { diverged = 1; } else { th[t].op = strdup (a2); resume (t); if (th[t].st != ST_WANT) diverged = 1; }
		} else if (!strcmp (cmd, "cs")) {
			if (!strcmp (a2, "wake")) wake_choice = x;
			if (th[t].st != ST_WANT || lk->mutex->owner) diverged = 1; else resume (t);
		} else if (!strcmp (cmd, "recheck")) {
			if (!strcmp (a2, "wake")) wake_choice = x;
			if (!woken (t) || lk->mutex->owner) diverged = 1; else resume (t);
		} else if (!strcmp (cmd, "return")) {
			if (th[t].st != ST_UNLOCKED) diverged = 1; else resume (t);
		} else if (!strcmp (cmd, "spurious")) {
			if (!blocked (t)) diverged = 1; else th[t].cv->waiters &= ~(1u << t);
		}
		dump_state (o, cmd);
	}
	fclose (o);
	return 0;
}

/* ---- seeded random exploration ---- */
static int explore (int n, int rounds, int runs, unsigned seed, const char *tracepath) {
	int run, deadlocks = 0;
	out = fopen (tracepath, "w"); if (!out) return 2;
	rs = seed;
	for (run = 0; run < runs; run++) {
		int i, steps = 0;
		lk = p_rwlock_new (); spawn (n);
		emit ("\"e\":\"Epoch\",\"cells\":[[1,%ld]]", cell);
		for (;;) {
			int cand[64], nc = 0, unfinished = 0, pick, t;
			for (i = 1; i <= n; i++) {
				if (th[i].st == ST_IDLE) { if (th[i].cnt < rounds || th[i].hold) { cand[nc++] = i; unfinished++; } }
				else { unfinished++;
					if (th[i].st == ST_WANT && !lk->mutex->owner) cand[nc++] = i;
					else if (woken (i) && !lk->mutex->owner) cand[nc++] = i;
					else if (th[i].st == ST_UNLOCKED) cand[nc++] = i;
					else if (blocked (i) && rnd () % 6 == 0) cand[nc++] = -i;   /* spurious wake-up */
				}
			}
			if (!unfinished) break;
			{ int real = 0; for (i = 0; i < nc; i++) if (cand[i] > 0) real++;
			  if (!real) {
				/* every unfinished thread is blocked in a wait and nobody is left to signal: a spurious
				 * wake-up is never guaranteed, so this is a lost wake-up / deadlock */
				emit ("\"e\":\"Deadlock\",\"run\":%d,\"steps\":%d", run, steps);
				dump_state (stderr, "deadlock");
				deadlocks++;
				break;
			  } }
			pick = cand[rnd () % (unsigned) nc];
			steps++;
			if (steps > 100000) { emit ("\"e\":\"Deadlock\",\"run\":%d,\"steps\":%d", run, steps); deadlocks++; break; }
			if (pick < 0) { t = -pick; th[t].cv->waiters &= ~(1u << t); continue; }
			t = pick; wake_choice = 0;
			if (th[t].st == ST_IDLE) {
				unsigned x = rnd () % 100;
				th[t].op = th[t].hold == 'r' ? "runlock" : th[t].hold == 'w' ? "wunlock" : x < 30 ? "rlock" : x < 50 ? "rtry" : x < 80 ? "wlock" : "wtry";
			}
			resume (t);
		}
		if (deadlocks) break;
		unspawn (); p_rwlock_free (lk); lk = NULL;
	}
	emit ("\"e\":\"Epoch\"");
	fclose (out);
	printf ("runs=%d deadlocks=%d\n", run, deadlocks);
	return deadlocks ? 5 : 0;
}
int main (int argc, char **argv) {
	p_mem_restore_vtable ();
	if (!ga_install ()) return 2;      /* fresh memory is garbage, released memory is overwritten (galloc.h) */
	if (argc >= 4 && !strcmp (argv[1], "replay")) return replay (argv[2], argv[3]);
	if (argc >= 7 && !strcmp (argv[1], "explore")) return explore (atoi (argv[2]), atoi (argv[3]), atoi (argv[4]), (unsigned) atoi (argv[5]), argv[6]);
	return 2;
}
