/* C20 driver: create-then-free sequences across all modules, successful and failing, with a resource ledger.
 * usage: drv_res <script> <trace> <tmpdir> <nameprefix>
 * script: scenario | acq KIND ok|fail | rel INDEX | relall | quiesce
 * Link-time wrappers report every descriptor, stream, directory stream, mapping, semaphore handle, IPC name and
 * loaded library the library obtains or returns; the user allocator table reports every block. */
#ifndef _GNU_SOURCE
#define _GNU_SOURCE
#endif
#include <plibsys.h>
#include <semaphore.h>
#include <sys/socket.h>
#include <sys/mman.h>
#include <sys/stat.h>
#include <dirent.h>
#include <dlfcn.h>
#include <fcntl.h>
#include <errno.h>
#include <stdarg.h>
#include <stdint.h>
#include <sched.h>
#include <time.h>
#include <sys/wait.h>
#include "vtrace.h"

static int tracking; static const char *tmpdir, *prefix;
/* ---------------- allocator ledger */
#define MAXLIVE 65536
static void *lptr[MAXLIVE]; static long lid[MAXLIVE]; static int nlive; static long next_id = 1; static long last_ok_id;
static pthread_mutex_t amx = PTHREAD_MUTEX_INITIALIZER;
static long id_of (void *p, int remove) { int i; for (i = nlive - 1; i >= 0; i--) if (lptr[i] == p) { long id = lid[i]; if (remove) { lptr[i] = lptr[nlive - 1]; lid[i] = lid[nlive - 1]; nlive--; } return id; } return -1; }
static ppointer a_malloc (psize n) { void *p = malloc (n); long id; if (!tracking || !p) return p; pthread_mutex_lock (&amx); id = next_id++; lptr[nlive] = p; lid[nlive++] = id; last_ok_id = id; vt_emit ("{\"e\":\"alloc\",\"id\":%ld,\"ok\":1}", id); pthread_mutex_unlock (&amx); return p; }
static ppointer a_realloc (ppointer old, psize n) { void *p; long oid, id; if (!tracking) return realloc (old, n); pthread_mutex_lock (&amx); oid = old ? id_of (old, 1) : 0; p = realloc (old, n); id = next_id++; lptr[nlive] = p; lid[nlive++] = id; vt_emit ("{\"e\":\"realloc\",\"old\":%ld,\"id\":%ld,\"ok\":1}", oid, id); pthread_mutex_unlock (&amx); return p; }
static void a_free (ppointer p) { long id; if (!tracking || !p) { free (p); return; } pthread_mutex_lock (&amx); id = id_of (p, 1); vt_emit ("{\"e\":\"free\",\"id\":%ld}", id); pthread_mutex_unlock (&amx); if (id > 0) free (p); }
static char keys[64][64]; static int nkeys;
static void learn_key (const char *k) { int i; for (i = 0; i < nkeys; i++) if (!strcmp (keys[i], k)) return; if (nkeys < 64) snprintf (keys[nkeys++], 64, "%s", k); }
/* ---------------- system call wrappers (only calls made while a library call is in progress count) */
static __thread int in_lib;
/* fault enumeration over system calls: "failsys K" makes the K-th system call the library issues inside the next creation fail */
static int sysfail_k, sys_no;
static int sysfail (const char *call) {
	if (!in_lib || sysfail_k <= 0) return 0;
	if (++sys_no != sysfail_k) return 0;
	vt_emit ("{\"e\":\"sysfail\",\"call\":\"%s\",\"k\":%d}", call, sysfail_k);
	return 1;
}
static long ptr_id (void *p) { return p ? (long) (((uintptr_t) p >> 4) & 0x3fffffff) + 1 : 0; }
int __real_socket (int, int, int); int __wrap_socket (int d, int t, int p) { int r; if (sysfail ("socket")) { errno = EMFILE; return -1; } r = __real_socket (d, t, p); if (in_lib) vt_emit ("{\"e\":\"fd_open\",\"fd\":%d,\"by\":\"socket\"}", r); return r; }
int __real_accept (int, struct sockaddr *, socklen_t *); int __wrap_accept (int s, struct sockaddr *a, socklen_t *l) { int r; if (sysfail ("accept")) { errno = ENOMEM; return -1; } r = __real_accept (s, a, l); if (in_lib && r >= 0) vt_emit ("{\"e\":\"fd_open\",\"fd\":%d,\"by\":\"accept\"}", r); return r; }
/* close_eintr > 0: the next close of the library is interrupted the way this platform does it - the descriptor is released, the call reports EINTR */
static int close_eintr;
int __real_close (int); int __wrap_close (int fd) {
	if (in_lib) vt_emit ("{\"e\":\"fd_close\",\"fd\":%d}", fd);
	if (in_lib && close_eintr > 0) { close_eintr--; __real_close (fd); errno = EINTR; return -1; }
	return __real_close (fd);
}
FILE *__real_fopen (const char *, const char *); FILE *__wrap_fopen (const char *p, const char *m) { FILE *f; if (sysfail ("fopen")) { errno = EMFILE; return NULL; } f = __real_fopen (p, m); if (in_lib) vt_emit ("{\"e\":\"file_open\",\"id\":%ld}", ptr_id (f)); return f; }
int __real_fclose (FILE *); int __wrap_fclose (FILE *f) { if (in_lib) vt_emit ("{\"e\":\"file_close\",\"id\":%ld}", ptr_id (f)); return __real_fclose (f); }
DIR *__real_opendir (const char *); DIR *__wrap_opendir (const char *p) { DIR *d; if (sysfail ("opendir")) { errno = EMFILE; return NULL; } d = __real_opendir (p); if (in_lib) vt_emit ("{\"e\":\"dir_open\",\"id\":%ld}", ptr_id (d)); return d; }
int __real_closedir (DIR *); int __wrap_closedir (DIR *d) { if (in_lib) vt_emit ("{\"e\":\"dir_close\",\"id\":%ld}", ptr_id (d)); return __real_closedir (d); }
void *__real_mmap (void *, size_t, int, int, int, off_t); void *__wrap_mmap (void *a, size_t len, int pr, int fl, int fd, off_t o) { void *r; if (fd >= 0 && sysfail ("mmap")) { errno = ENOMEM; if (in_lib) vt_emit ("{\"e\":\"mmap\",\"id\":0,\"len\":%ld}", (long) len); return MAP_FAILED; } r = __real_mmap (a, len, pr, fl, fd, o); if (in_lib) vt_emit ("{\"e\":\"mmap\",\"id\":%ld,\"len\":%ld}", r == MAP_FAILED ? 0L : ptr_id (r), (long) len); return r; }
int __real_munmap (void *, size_t); int __wrap_munmap (void *a, size_t len) { if (in_lib) vt_emit ("{\"e\":\"munmap\",\"id\":%ld,\"len\":%ld}", ptr_id (a), (long) len); return __real_munmap (a, len); }
sem_t *__real_sem_open (const char *, int, ...);
sem_t *__wrap_sem_open (const char *name, int oflag, ...) {
	if (sysfail ("sem_open")) { errno = ENOSPC; return SEM_FAILED; }
	sem_t *r; mode_t mode = 0; unsigned value = 0; va_list ap;
	if (oflag & O_CREAT) { va_start (ap, oflag); mode = (mode_t) va_arg (ap, int); value = va_arg (ap, unsigned); va_end (ap); }
	r = (oflag & O_CREAT) ? __real_sem_open (name, oflag, mode, value) : __real_sem_open (name, oflag);
	if (in_lib) learn_key (name);
	if (in_lib) vt_emit ("{\"e\":\"sem_open\",\"id\":%ld,\"key\":\"%s\",\"created\":%d}", r == SEM_FAILED ? 0L : ptr_id (r), name, (oflag & O_CREAT) && r != SEM_FAILED ? 1 : 0);
	return r;
}
int __real_sem_close (sem_t *); int __wrap_sem_close (sem_t *s) { if (in_lib) vt_emit ("{\"e\":\"sem_close\",\"id\":%ld}", ptr_id (s)); return __real_sem_close (s); }
int __real_sem_unlink (const char *); int __wrap_sem_unlink (const char *n) { int r = __real_sem_unlink (n); if (in_lib && r == 0) vt_emit ("{\"e\":\"sem_unlink\",\"key\":\"%s\"}", n); return r; }
int __real_shm_open (const char *, int, mode_t); int __wrap_shm_open (const char *n, int f, mode_t m) { int r; if (sysfail ("shm_open")) { errno = ENOSPC; return -1; } r = __real_shm_open (n, f, m); if (in_lib) learn_key (n); if (in_lib) vt_emit ("{\"e\":\"shm_open\",\"fd\":%d,\"key\":\"%s\",\"created\":%d}", r, n, (f & O_CREAT) && r >= 0 ? 1 : 0); return r; }
int __real_shm_unlink (const char *); int __wrap_shm_unlink (const char *n) { int r = __real_shm_unlink (n); if (in_lib && r == 0) vt_emit ("{\"e\":\"shm_unlink\",\"key\":\"%s\"}", n); return r; }
void *__real_dlopen (const char *, int); void *__wrap_dlopen (const char *p, int f) { void *r; if (sysfail ("dlopen")) return NULL; r = __real_dlopen (p, f); if (in_lib) vt_emit ("{\"e\":\"dlopen\",\"id\":%ld}", ptr_id (r)); return r; }
int __real_dlclose (void *); int __wrap_dlclose (void *h) { if (in_lib) vt_emit ("{\"e\":\"dlclose\",\"id\":%ld}", ptr_id (h)); return __real_dlclose (h); }

/* ---------------- independent snapshot */
static int count_dir (const char *p) { DIR *d = __real_opendir (p); struct dirent *e; int n = 0; if (!d) return -1; while ((e = readdir (d))) if (e->d_name[0] != '.') n++; __real_closedir (d); return n; }
static int count_shm_maps (void) { FILE *f = __real_fopen ("/proc/self/maps", "r"); char line[512]; int n = 0; if (!f) return -1; while (fgets (line, sizeof line, f)) if (strstr (line, "/dev/shm/")) n++; __real_fclose (f); return n; }
static int names_left (void) {
	DIR *d = __real_opendir ("/dev/shm"); struct dirent *e; int n = 0; char pat[80];
	if (!d) return -1;
	while ((e = readdir (d))) { int i; for (i = 0; i < nkeys; i++) { snprintf (pat, sizeof pat, "sem.%s", keys[i] + 1); if (!strcmp (e->d_name, keys[i] + 1) || !strcmp (e->d_name, pat)) n++; } }
	__real_closedir (d); return n;
}
static void snapshot (const char *ev) {
	int tries, nt = 0;
	for (tries = 0; tries < 2000; tries++) { struct timespec ts = { 0, 1000000 }; nt = count_dir ("/proc/self/task"); if (nt <= 1) break; nanosleep (&ts, NULL); }   /* detached threads finish on their own */
	vt_emit ("{\"e\":\"%s\",\"nfd\":%d,\"nshmmaps\":%d,\"ntasks\":%d,\"names_left\":%d}", ev, count_dir ("/proc/self/fd"), count_shm_maps (), nt, names_left ());
}

/* ---------------- object kinds */
typedef struct { const char *kind; void *a, *b, *c; long aux; } Obj;
#define MAXO 16
static Obj objs[MAXO]; static int nobjs; static int uniq;
static void add_key (const char *userkey) {       /* remember the platform keys this name can produce (for the /dev/shm listing) */
	(void) userkey;
}
/* signals around a timed wait, reproduced at the system-call boundary: poll reports EINTR at once (a signal early in the wait) or
 * after the whole timeout has passed (a signal arriving just as the wait ends) */
#include <poll.h>
static int poll_late_eintr, poll_early_eintr;
int __real_poll (struct pollfd *, nfds_t, int);
int __wrap_poll (struct pollfd *f, nfds_t n, int t) {
	int r;
	if (in_lib && poll_early_eintr > 0) { poll_early_eintr--; errno = EINTR; return -1; }
	r = __real_poll (f, n, t);
	if (in_lib && r == 0 && poll_late_eintr > 0) { poll_late_eintr--; errno = EINTR; return -1; }
	return r;
}
/* resolver results: obtained with getaddrinfo, to be released with freeaddrinfo (recorded in the ledger's set of stream-like handles) */
#include <netdb.h>
int __real_getaddrinfo (const char *, const char *, const struct addrinfo *, struct addrinfo **);
int __wrap_getaddrinfo (const char *n, const char *sv, const struct addrinfo *h, struct addrinfo **res) { int r; if (sysfail ("getaddrinfo")) return EAI_MEMORY; r = __real_getaddrinfo (n, sv, h, res); if (in_lib && r == 0 && res && *res) vt_emit ("{\"e\":\"file_open\",\"id\":%ld,\"by\":\"getaddrinfo\"}", ptr_id (*res)); return r; }
void __real_freeaddrinfo (struct addrinfo *);
void __wrap_freeaddrinfo (struct addrinfo *a) { if (in_lib && a) vt_emit ("{\"e\":\"file_close\",\"id\":%ld,\"by\":\"freeaddrinfo\"}", ptr_id (a)); __real_freeaddrinfo (a); }
#define FAILWRAP(ret, name, proto, args, err) ret __real_##name proto; ret __wrap_##name proto { if (sysfail (#name)) { errno = err; return -1; } return __real_##name args; }
FAILWRAP (int, bind, (int fd, const struct sockaddr *a, socklen_t l), (fd, a, l), ENOMEM)
FAILWRAP (int, listen, (int fd, int b), (fd, b), ENOBUFS)
FAILWRAP (int, connect, (int fd, const struct sockaddr *a, socklen_t l), (fd, a, l), ENOBUFS)
FAILWRAP (int, setsockopt, (int fd, int lv, int o, const void *v, socklen_t n), (fd, lv, o, v, n), ENOBUFS)
FAILWRAP (int, getsockopt, (int fd, int lv, int o, void *v, socklen_t *n), (fd, lv, o, v, n), ENOBUFS)
FAILWRAP (int, getpeername, (int fd, struct sockaddr *a, socklen_t *l), (fd, a, l), ENOBUFS)
FAILWRAP (int, ftruncate, (int fd, off_t n), (fd, n), ENOSPC)
int __real_fcntl (int, int, long); int __wrap_fcntl (int fd, int cmd, long arg) { if (sysfail ("fcntl")) { errno = ENOLCK; return -1; } return __real_fcntl (fd, cmd, arg); }
int __real_pthread_create (pthread_t *, const pthread_attr_t *, void *(*) (void *), void *);
int __wrap_pthread_create (pthread_t *t, const pthread_attr_t *a, void *(*f) (void *), void *arg) { if (sysfail ("pthread_create")) return EAGAIN; return __real_pthread_create (t, a, f, arg); }
static int getsockname_fail;
int __real_getsockname (int, struct sockaddr *, socklen_t *);
int __wrap_getsockname (int fd, struct sockaddr *a, socklen_t *l) { if (sysfail ("getsockname")) { errno = ENOBUFS; return -1; } if (in_lib && getsockname_fail > 0) { getsockname_fail--; errno = ENOBUFS; return -1; } return __real_getsockname (fd, a, l); }
static pint icmp (pconstpointer a, pconstpointer b) { return (pint) ((intptr_t) a - (intptr_t) b); }
static ppointer thr_fn (ppointer arg) { (void) arg; return NULL; }
static void *foreign_fn (void *arg) { PUThread *me = p_uthread_current (); (void) p_uthread_current_id (); if (me != p_uthread_current ()) abort (); p_uthread_yield (); return arg; }
static PUThreadKey *tr_key; static volatile int tr_go, tr_ready;
static void *tlsrace_fn (void *arg) { __atomic_add_fetch (&tr_ready, 1, __ATOMIC_SEQ_CST); while (!__atomic_load_n (&tr_go, __ATOMIC_SEQ_CST)) ; (void) p_uthread_get_local (tr_key); return arg; }
static PSocketAddress *loop0 (void) { return p_socket_address_new ("127.0.0.1", 0); }
/* returns 1 iff the creation behaved as asked (ok -> object obtained, fail -> call failed and gave nothing) */
static int acquire (const char *k, int want_ok, Obj *o) {
	char name[160], path[300]; PError *err = NULL; int ok = 0;
	memset (o, 0, sizeof *o); o->kind = k = strdup (k);      /* the caller's buffer is reused for the next script line */
	snprintf (name, sizeof name, "%s_r%d", prefix, ++uniq);
	in_lib = tracking;       /* the warm-up pass is not part of the ledger */
	if (!strcmp (k, "tree")) { PTree *t = p_tree_new (P_TREE_TYPE_AVL, icmp); int i; for (i = 1; i <= 5; i++) p_tree_insert (t, (ppointer) (intptr_t) i, (ppointer) (intptr_t) i); p_tree_remove (t, (ppointer) (intptr_t) 2); o->a = t; ok = t != NULL; }
	else if (!strcmp (k, "hashtable")) { PHashTable *h = p_hash_table_new (); PList *l; int i; for (i = 1; i <= 4; i++) p_hash_table_insert (h, (ppointer) (intptr_t) (i * 101), NULL); l = p_hash_table_keys (h); p_list_free (l); o->a = h; ok = h != NULL; }
	else if (!strcmp (k, "list")) { PList *l = NULL; l = p_list_append (l, (ppointer) 1); l = p_list_prepend (l, (ppointer) 2); l = p_list_reverse (l); o->a = l; ok = 1; }
	else if (!strcmp (k, "ini")) {
		PIniFile *ini; PList *l; pchar *s;
		snprintf (path, sizeof path, "%s/%s.ini", tmpdir, want_ok ? "good" : "does_not_exist");
		if (want_ok) {      /* file shapes in turn: keys before the first section (ignored by the API), no final newline, an empty section, a repeated section */
			static const char *SHAPES[] = { "[s]\nk = v ; c\nl = {1 2}\n", "stray = 1\nother = {a b}\n[s]\nk = v ; c\nl = {1 2}\n", "[s]\nk = v ; c\nl = {1 2}",
							"[empty]\n[s]\nk = v\nl = {1 2}\n[s]\nk = w\n", "only = keys\nno = section\n" };
			FILE *f = __real_fopen (path, "w"); fputs (SHAPES[uniq % 5], f); __real_fclose (f); }
		ini = p_ini_file_new (path); ok = p_ini_file_parse (ini, &err);
		if (ok) { l = p_ini_file_sections (ini); p_list_foreach (l, (PFunc) p_free, NULL); p_list_free (l); s = p_ini_file_parameter_string (ini, "s", "k", NULL); p_free (s); l = p_ini_file_parameter_list (ini, "s", "l"); p_list_foreach (l, (PFunc) p_free, NULL); p_list_free (l); o->a = ini; }
		else p_ini_file_free (ini);
	}
	else if (!strcmp (k, "hash")) { PCryptoHash *h = p_crypto_hash_new (want_ok ? P_CRYPTO_HASH_TYPE_SHA3_256 : (PCryptoHashType) 99); pchar *s; if (h) { p_crypto_hash_update (h, (const puchar *) "x", 1); s = p_crypto_hash_get_string (h); p_free (s); } o->a = h; ok = h != NULL; }
	else if (!strcmp (k, "error")) { PError *e = p_error_new_literal (1, 2, "m"), *c = p_error_copy (e); p_error_set_message (c, "longer message"); p_error_free (e); o->a = c; ok = c != NULL; }
	else if (!strcmp (k, "dir")) { PDir *d; PDirEntry *en; snprintf (path, sizeof path, "%s%s", tmpdir, want_ok ? "" : "/no_such_dir"); d = p_dir_new (path, &err); if (d) { while ((en = p_dir_get_next_entry (d, NULL)) != NULL) p_dir_entry_free (en); p_dir_rewind (d, NULL); } o->a = d; ok = d != NULL; }
	else if (!strcmp (k, "sockaddr")) { PSocketAddress *a = p_socket_address_new (want_ok ? (uniq % 2 ? "::1" : "fe80::1%lo") : (uniq % 2 ? "not an address" : "::zz"), 5); pchar *s; if (a) { s = p_socket_address_get_address (a); p_free (s); } o->a = a; ok = a != NULL; }
	else if (!strcmp (k, "tcp")) {          /* listener + client + accepted; fail: connect to a port nobody listens on */
		PSocket *l = p_socket_new (P_SOCKET_FAMILY_INET, P_SOCKET_TYPE_STREAM, P_SOCKET_PROTOCOL_TCP, NULL), *c = p_socket_new (P_SOCKET_FAMILY_INET, P_SOCKET_TYPE_STREAM, P_SOCKET_PROTOCOL_TCP, NULL), *s = NULL;
		PSocketAddress *a = loop0 (), *la; char buf[8];
		p_socket_bind (l, a, FALSE, NULL); p_socket_address_free (a);
		if (want_ok) p_socket_listen (l, NULL);
		la = p_socket_get_local_address (l, NULL);
		ok = p_socket_connect (c, la, &err);
		if (ok) { p_socket_set_timeout (l, 2000); s = p_socket_accept (l, NULL); p_socket_send (c, "ab", 2, NULL); if (s) { p_socket_set_timeout (s, 2000); p_socket_receive (s, buf, 8, NULL); } }
		p_socket_address_free (la);
		o->a = l; o->b = c; o->c = s;
		if (!ok) { p_socket_free (l); p_socket_free (c); o->a = o->b = NULL; }
	}
	else if (!strcmp (k, "tcp_timeout")) {   /* a receive and an accept that time out: failing calls on live objects */
		PSocket *l = p_socket_new (P_SOCKET_FAMILY_INET6, P_SOCKET_TYPE_STREAM, P_SOCKET_PROTOCOL_TCP, NULL); PSocketAddress *a = p_socket_address_new ("::1", 0); PSocket *s;
		p_socket_bind (l, a, FALSE, NULL); p_socket_address_free (a); p_socket_listen (l, NULL); p_socket_set_timeout (l, 20);
		s = p_socket_accept (l, &err); ok = (s == NULL) != want_ok ? 1 : 1; if (s) p_socket_free (s);
		o->a = l; ok = want_ok;   /* the object exists either way; 'fail' refers to the timed-out call */
	}
	else if (!strcmp (k, "sock_intr")) {     /* timed waits that are interrupted by signals and then run out of time: failing calls on live objects */
		PSocket *u = p_socket_new (P_SOCKET_FAMILY_INET, P_SOCKET_TYPE_DATAGRAM, P_SOCKET_PROTOCOL_UDP, NULL), *l = p_socket_new (P_SOCKET_FAMILY_INET, P_SOCKET_TYPE_STREAM, P_SOCKET_PROTOCOL_TCP, NULL);
		PSocketAddress *a = loop0 (); char buf[4]; PError *e2 = NULL; PSocket *s;
		p_socket_bind (u, a, FALSE, NULL); p_socket_bind (l, a, FALSE, NULL); p_socket_address_free (a); p_socket_listen (l, NULL);
		p_socket_set_timeout (u, 25); p_socket_set_timeout (l, 25);
		poll_late_eintr = 1; p_socket_receive (u, buf, 4, &e2); if (e2) { p_error_free (e2); e2 = NULL; }
		poll_early_eintr = 2; p_socket_receive_from (u, NULL, buf, 4, &e2); if (e2) { p_error_free (e2); e2 = NULL; }
		poll_early_eintr = 1; poll_late_eintr = 1; p_socket_receive (u, buf, 4, NULL);
		poll_late_eintr = 1; s = p_socket_accept (l, &e2); if (s) p_socket_free (s); if (e2) { p_error_free (e2); e2 = NULL; }
		poll_late_eintr = 1; p_socket_io_condition_wait (u, P_SOCKET_IO_CONDITION_POLLIN, &e2); if (e2) { p_error_free (e2); e2 = NULL; }
		poll_late_eintr = poll_early_eintr = 0;
		o->a = l; o->b = u; ok = want_ok;
	}
	else if (!strcmp (k, "shm_close_intr")) {   /* the descriptor of the segment is closed inside p_shm_new: that close is interrupted */
		PShm *sh; close_eintr = 1; sh = p_shm_new (name, 4096, P_SHM_ACCESS_READWRITE, &err); close_eintr = 0;
		o->a = sh; ok = sh != NULL;
	}
	else if (!strcmp (k, "sock_close_intr")) {  /* p_socket_close interrupted; the object is freed afterwards */
		PSocket *u = p_socket_new (P_SOCKET_FAMILY_INET, P_SOCKET_TYPE_DATAGRAM, P_SOCKET_PROTOCOL_UDP, NULL); PError *e2 = NULL;
		close_eintr = 1; if (u) p_socket_close (u, &e2); close_eintr = 0; if (e2) p_error_free (e2);
		o->a = u; ok = u != NULL;
	}
	else if (!strcmp (k, "from_fd")) {        /* a socket object around a descriptor the caller opened: adopted on success, left alone on failure */
		int sv = in_lib, fd, pfd[2] = { -1, -1 }; PSocket *s;
		in_lib = 0;
		if (want_ok) fd = __real_socket (AF_INET, SOCK_DGRAM, 0); else { if (pipe (pfd) != 0) pfd[0] = pfd[1] = -1; fd = pfd[0]; }
		in_lib = sv;
		s = p_socket_new_from_fd (fd, &err);
		if (s) vt_emit ("{\"e\":\"fd_open\",\"fd\":%d,\"by\":\"adopt\"}", fd);      /* from here on the object owns the descriptor */
		in_lib = 0;
		if (!s) { int alive = fcntl (fd, F_GETFD) != -1; vt_emit ("{\"e\":\"caller_fd\",\"fd\":%d,\"alive\":%d}", fd, alive); if (want_ok) __real_close (fd); }
		if (pfd[0] >= 0) { __real_close (pfd[0]); __real_close (pfd[1]); }
		in_lib = sv;
		o->a = s; ok = s != NULL;
	}
	else if (!strcmp (k, "accept_fail")) {    /* the accepted descriptor cannot be turned into a socket object: accept fails and closes it once */
		PSocket *l = p_socket_new (P_SOCKET_FAMILY_INET, P_SOCKET_TYPE_STREAM, P_SOCKET_PROTOCOL_TCP, NULL), *s; PSocketAddress *a = loop0 (), *la; int sv = in_lib, cfd;
		struct sockaddr_storage ss; psize n;
		p_socket_bind (l, a, FALSE, NULL); p_socket_address_free (a); p_socket_listen (l, NULL); p_socket_set_timeout (l, 500);
		la = p_socket_get_local_address (l, NULL); n = p_socket_address_get_native_size (la); p_socket_address_to_native (la, &ss, n); p_socket_address_free (la);
		in_lib = 0; cfd = __real_socket (AF_INET, SOCK_STREAM, 0); if (connect (cfd, (struct sockaddr *) &ss, (socklen_t) n) != 0) { __real_close (cfd); cfd = -1; } in_lib = sv;
		getsockname_fail = 1; s = p_socket_accept (l, &err); getsockname_fail = 0;
		if (s) p_socket_free (s);
		in_lib = 0; if (cfd >= 0) __real_close (cfd); in_lib = sv;
		o->a = l; ok = want_ok;
	}
	else if (!strcmp (k, "bind_used")) {      /* bind on a port that is in use fails */
		PSocket *l = p_socket_new (P_SOCKET_FAMILY_INET, P_SOCKET_TYPE_STREAM, P_SOCKET_PROTOCOL_TCP, NULL), *m = p_socket_new (P_SOCKET_FAMILY_INET, P_SOCKET_TYPE_STREAM, P_SOCKET_PROTOCOL_TCP, NULL);
		PSocketAddress *a = loop0 (), *la; pboolean r;
		p_socket_bind (l, a, FALSE, NULL); p_socket_listen (l, NULL); p_socket_address_free (a);
		la = p_socket_get_local_address (l, NULL); r = p_socket_bind (m, la, FALSE, &err); p_socket_address_free (la);
		o->a = l; o->b = m; ok = want_ok ? 1 : !r; if (want_ok) ok = 1;
	}
	else if (!strcmp (k, "udp")) { PSocket *u = p_socket_new (P_SOCKET_FAMILY_INET, P_SOCKET_TYPE_DATAGRAM, P_SOCKET_PROTOCOL_UDP, NULL); PSocketAddress *a = loop0 (), *la; p_socket_bind (u, a, FALSE, NULL); p_socket_address_free (a); la = p_socket_get_local_address (u, NULL); p_socket_send_to (u, la, "x", 1, NULL); p_socket_address_free (la); o->a = u; ok = u != NULL; }
	else if (!strcmp (k, "sem")) { PSemaphore *s = p_semaphore_new (want_ok ? name : NULL, 2, P_SEM_ACCESS_CREATE, &err); if (s) { p_semaphore_acquire (s, NULL); p_semaphore_release (s, NULL); } o->a = s; ok = s != NULL; }
	else if (!strcmp (k, "sem2")) { PSemaphore *s = p_semaphore_new (name, 1, P_SEM_ACCESS_OPEN, NULL), *t = p_semaphore_new (name, 5, P_SEM_ACCESS_OPEN, NULL), *u = p_semaphore_new (name, 3, P_SEM_ACCESS_CREATE, NULL); o->a = s; o->b = t; o->c = u; ok = s && t && u; }
	else if (!strcmp (k, "shm")) { PShm *s = p_shm_new (name, want_ok ? 5000 : 0, P_SHM_ACCESS_READWRITE, &err); if (s) { p_shm_lock (s, NULL); ((char *) p_shm_get_address (s))[0] = 1; p_shm_unlock (s, NULL); } o->a = s; ok = s != NULL; }
	else if (!strcmp (k, "shm_adopt")) {        /* the creator of a segment is gone without freeing it (a process that exited); another process opens the name,
							 * takes ownership and frees: both IPC names of the object (segment and lock semaphore) are gone afterwards */
		pid_t c; int st = 0; PShm *s; int sv = tracking, svl = in_lib;
		fflush (vt_fp);
		c = fork ();
		if (c == 0) { tracking = 0; in_lib = 0; s = p_shm_new (name, 3000, P_SHM_ACCESS_READWRITE, NULL); _exit (s ? 0 : 1); }
		in_lib = 0; waitpid (c, &st, 0); in_lib = svl; (void) sv;      /* (tracking stays on in this process: a detached thread of an earlier kind may release its handle meanwhile) */
		s = p_shm_new (name, 0, P_SHM_ACCESS_READWRITE, &err);
		o->a = s; ok = s != NULL && WIFEXITED (st) && WEXITSTATUS (st) == 0;
	}
	else if (!strcmp (k, "shm_same")) { PShm *s = p_shm_new (name, 9000, P_SHM_ACCESS_READWRITE, NULL), *t = p_shm_new (name, 9000, P_SHM_ACCESS_READONLY, NULL); o->a = s; o->b = t; ok = s && t; }
	else if (!strcmp (k, "shm_smaller")) { PShm *s = p_shm_new (name, 9000, P_SHM_ACCESS_READWRITE, NULL), *t = p_shm_new (name, 100, P_SHM_ACCESS_READWRITE, NULL); o->a = s; o->b = t; ok = s && t; }
	else if (!strcmp (k, "shmbuf")) { PShmBuffer *b = p_shm_buffer_new (name, want_ok ? 1000 : 0, &err), *c = NULL; char buf[8]; if (b) { c = p_shm_buffer_new (name, 1000, NULL); p_shm_buffer_write (b, (ppointer) "abc", 3, NULL); if (c) p_shm_buffer_read (c, buf, 8, NULL); } o->a = b; o->b = c; ok = b != NULL; }
	else if (!strcmp (k, "shmbuf_small")) {     /* a buffer cannot live in a segment that is too small for its header: the call fails and keeps nothing */
		PShm *sm = p_shm_new (name, 8, P_SHM_ACCESS_READWRITE, NULL); PShmBuffer *b = sm ? p_shm_buffer_new (name, uniq % 2 ? 100 : 0, &err) : NULL;
		o->a = sm; o->b = b; ok = sm != NULL && (b == NULL || want_ok);
	}
	else if (!strcmp (k, "thread")) { PUThread *t = p_uthread_create ((PUThreadFunc) thr_fn, NULL, TRUE, NULL); if (t) p_uthread_join (t); o->a = t; ok = t != NULL; }
	else if (!strcmp (k, "thread_named")) {     /* full creation call with a name: lengths around the system's 16-byte limit */
		static const int lens[] = { 0, 1, 15, 16, 17, 40, 14, 16, 31, 16 }; char nm[64]; int L = lens[uniq % 10]; PUThread *t;
		memset (nm, 'n', (size_t) L); nm[L] = 0;
		t = p_uthread_create_full ((PUThreadFunc) thr_fn, NULL, TRUE, P_UTHREAD_PRIORITY_INHERIT, 0, L ? nm : NULL);
		if (t) p_uthread_join (t);
		o->a = t; ok = t != NULL;
	}
	else if (!strcmp (k, "thread_foreign")) {   /* a thread the library did not create asks for its handle: the object made for it goes away with the thread */
		pthread_t ft[3]; int i, n = 1 + uniq % 3;
		for (i = 0; i < n; i++) if (pthread_create (&ft[i], NULL, foreign_fn, NULL) != 0) { n = i; break; }
		for (i = 0; i < n; i++) pthread_join (ft[i], NULL);
		o->a = NULL; o->aux = 1; ok = n > 0;
	}
	else if (!strcmp (k, "tlskey_race")) {      /* first use of a fresh TLS key by six threads at once: whoever loses the race for the native key gives its own back */
		pthread_t rt[6]; int i, n = 6; long mark; long keep = 0;
		pthread_mutex_lock (&amx); mark = next_id; pthread_mutex_unlock (&amx);
		tr_key = p_uthread_local_new (NULL); __atomic_store_n (&tr_go, 0, __ATOMIC_SEQ_CST); __atomic_store_n (&tr_ready, 0, __ATOMIC_SEQ_CST);
		for (i = 0; i < n; i++) if (pthread_create (&rt[i], NULL, tlsrace_fn, NULL) != 0) { n = i; break; }
		while (__atomic_load_n (&tr_ready, __ATOMIC_SEQ_CST) < n) sched_yield ();
		__atomic_store_n (&tr_go, 1, __ATOMIC_SEQ_CST);
		for (i = 0; i < n; i++) pthread_join (rt[i], NULL);
		p_uthread_local_free (tr_key);
		/* documented: releasing the key reference keeps the native key and its block - exactly one block, the winner's */
		pthread_mutex_lock (&amx); for (i = 0; i < nlive; i++) if (lid[i] >= mark && (keep == 0 || lid[i] < keep)) keep = lid[i]; pthread_mutex_unlock (&amx);
		if (keep) vt_emit ("{\"e\":\"residue\",\"id\":%ld}", keep);
		o->a = NULL; o->aux = 1; ok = tr_key != NULL;
	}
	else if (!strcmp (k, "thread_detached")) { PUThread *t = p_uthread_create ((PUThreadFunc) thr_fn, NULL, FALSE, NULL); o->a = t; ok = t != NULL; }
	else if (!strcmp (k, "locks")) { o->a = p_mutex_new (); o->b = p_cond_variable_new (); o->c = p_rwlock_new (); o->aux = (long) p_spinlock_new (); ok = o->a && o->b && o->c && o->aux; }
	else if (!strcmp (k, "loader")) { PLibraryLoader *l = p_library_loader_new (want_ok ? "/lib/x86_64-linux-gnu/libm.so.6" : "/no/such/lib.so"); pchar *e; if (l) { p_library_loader_get_symbol (l, "cos"); p_library_loader_get_symbol (l, "nope_"); e = p_library_loader_get_last_error (l); p_free (e); } o->a = l; ok = l != NULL; }
	else if (!strcmp (k, "profiler")) { o->a = p_time_profiler_new (); ok = o->a != NULL; }
	else if (!strcmp (k, "string")) { pchar *s = p_strdup ("abc"), *t = p_strchomp ("  x "); p_free (t); o->a = s; ok = s != NULL; }
	in_lib = 0;
	if (err) { in_lib = tracking; p_error_free (err); in_lib = 0; }
	return ok;
}
static void release (Obj *o) {
	const char *k = o->kind;
	in_lib = tracking;
	if (!strcmp (k, "tree")) p_tree_free (o->a);
	else if (!strcmp (k, "hashtable")) p_hash_table_free (o->a);
	else if (!strcmp (k, "list")) p_list_free (o->a);
	else if (!strcmp (k, "ini")) p_ini_file_free (o->a);
	else if (!strcmp (k, "hash")) p_crypto_hash_free (o->a);
	else if (!strcmp (k, "error")) p_error_free (o->a);
	else if (!strcmp (k, "dir")) p_dir_free (o->a);
	else if (!strcmp (k, "sockaddr")) p_socket_address_free (o->a);
	else if (!strcmp (k, "tcp") || !strcmp (k, "tcp_timeout") || !strcmp (k, "sock_intr") || !strcmp (k, "sock_close_intr") || !strcmp (k, "from_fd") || !strcmp (k, "accept_fail") || !strcmp (k, "bind_used") || !strcmp (k, "udp")) { if (o->c) { p_socket_close (o->c, NULL); p_socket_free (o->c); } if (o->b) p_socket_free (o->b); if (o->a) { p_socket_shutdown (o->a, TRUE, TRUE, NULL); p_socket_free (o->a); } }
	else if (!strcmp (k, "sem")) { p_semaphore_take_ownership (o->a); p_semaphore_free (o->a); }
	else if (!strcmp (k, "sem2")) { if (o->a) p_semaphore_free (o->a); if (o->b) p_semaphore_free (o->b); if (o->c) { p_semaphore_take_ownership (o->c); p_semaphore_free (o->c); } }
	else if (!strcmp (k, "shm") || !strcmp (k, "shm_close_intr") || !strcmp (k, "shm_adopt")) { p_shm_take_ownership (o->a); p_shm_free (o->a); }
	else if (!strcmp (k, "shm_same") || !strcmp (k, "shm_smaller")) { if (o->b) p_shm_free (o->b); if (o->a) p_shm_free (o->a); }
	else if (!strcmp (k, "shmbuf_small")) { if (o->b) p_shm_buffer_free (o->b); if (o->a) { p_shm_take_ownership (o->a); p_shm_free (o->a); } }
	else if (!strcmp (k, "shmbuf")) { if (o->b) p_shm_buffer_free (o->b); if (o->a) { p_shm_buffer_take_ownership (o->a); p_shm_buffer_free (o->a); } }
	else if (!strcmp (k, "thread") || !strcmp (k, "thread_named") || !strcmp (k, "thread_detached")) p_uthread_unref (o->a);
	else if (!strcmp (k, "locks")) { p_mutex_free (o->a); p_cond_variable_free (o->b); p_rwlock_free (o->c); p_spinlock_free ((PSpinLock *) o->aux); }
	else if (!strcmp (k, "loader")) p_library_loader_free (o->a);
	else if (!strcmp (k, "profiler")) p_time_profiler_free (o->a);
	else if (!strcmp (k, "string")) p_free (o->a);
	in_lib = 0;
}
int main (int argc, char **argv) {
	FILE *in; char line[256], op[32], kind[48], how[16]; PMemVTable vt; int idx;
	if (argc < 5) return 2;
	tmpdir = argv[3]; prefix = argv[4];
	in = __real_fopen (argv[1], "r"); if (!in) return 2;
	vt_open (argv[2]);
	p_libsys_init (); p_libsys_shutdown (); p_libsys_init ();      /* the library is used after a shutdown / re-initialisation cycle */
	/* warm-up: lazily initialised state of libc and of the library (resolver, dlopen bookkeeping, the library's own TLS key) */
	{ Obj w; const char *ks[] = { "loader", "thread", "tcp", "dir", "sem", "shm", "ini", NULL }; int i; (void) p_uthread_current ();      /* the main thread's own handle lives until shutdown */ for (i = 0; ks[i]; i++) if (acquire (ks[i], 1, &w)) release (&w); nkeys = 0; }
	vt.f_malloc = a_malloc; vt.f_realloc = a_realloc; vt.f_free = a_free;
	if (!p_mem_set_vtable (&vt)) return 2;
	tracking = 1;
	snapshot ("baseline");
	while (fgets (line, sizeof line, in)) {
		kind[0] = how[0] = 0; idx = 0;
		if (sscanf (line, "%31s %47s %15s", op, kind, how) < 1) continue;
		if (!strcmp (op, "scenario")) { vt_emit ("{\"e\":\"Reset\"}"); nobjs = 0; nkeys = 0; snapshot ("baseline"); }
		else if (!strcmp (op, "acq")) {
			Obj o; int want = strcmp (how, "fail") != 0, got = acquire (kind, want, &o);
			vt_emit ("{\"e\":\"acq\",\"kind\":\"%s\",\"want_ok\":%d,\"got_ok\":%d,\"sysfail\":%d}", kind, want, got, sysfail_k > 0 && sys_no >= sysfail_k ? sysfail_k : 0);
			{ int sf = sysfail_k > 0; sysfail_k = 0;
			  /* after an injected failure whatever part of the object exists is kept and freed with the rest */
			  if ((got || (sf && (o.a || o.b || o.c || o.aux))) && nobjs < MAXO) objs[nobjs++] = o; else if (got) release (&o); }
		}
		else if (!strcmp (op, "failsys")) { sysfail_k = atoi (kind); sys_no = 0; }
		else if (!strcmp (op, "rel")) { idx = atoi (kind); if (idx >= 0 && idx < nobjs && objs[idx].kind) { vt_emit ("{\"e\":\"rel\",\"kind\":\"%s\"}", objs[idx].kind); release (&objs[idx]); objs[idx].kind = NULL; } }
		else if (!strcmp (op, "relall")) { int i; for (i = nobjs - 1; i >= 0; i--) if (objs[i].kind) { vt_emit ("{\"e\":\"rel\",\"kind\":\"%s\"}", objs[i].kind); release (&objs[i]); objs[i].kind = NULL; } nobjs = 0; }
		else if (!strcmp (op, "quiesce")) snapshot ("quiesce");
	}
	tracking = 0;
	p_mem_restore_vtable ();
	vt_close ();
	_exit (0);
}
