"""C15: PHashTable and PList against their reference models for every sequence and pointer pattern."""
import json, os
import build, tlc, behaviours
from core import Machinery, run_driver

M64 = (1 << 64) - 1


def bucket(p):
    """the library's bucket function as the C abstract machine defines it where it is defined"""
    low = p & 0xffffffff
    if low >= 1 << 31:
        low -= 1 << 32
    return ((low + 37) & M64) % 101


def key_classes(rng, nk):
    """list of (name, [nk distinct pointer patterns])"""
    out = []
    out.append(("small+NULL+allones", [0, M64, 1, 2, 101, 202, 64, 138][:nk]))
    # same bucket, random 64-bit
    while True:
        cands = {}
        for _ in range(4000):
            p = rng.getrandbits(64)
            cands.setdefault(bucket(p), []).append(p)
        best = max(cands.values(), key=len)
        if len(best) >= nk:
            out.append(("same-bucket-random64", best[:nk]))
            break
    # same bucket as NULL: includes NULL itself
    sb = [0]
    x = 101
    while len(sb) < nk:
        sb.append(x)
        x += 101 * rng.randint(1, 1000)
    out.append(("same-bucket-as-NULL", sb))
    # INT_MAX-adjacent low words (signed overflow zone of +37) and INT_MIN
    hi = [0x7fffffff - i for i in (0, 1, 36, 37, 5, 20)] + [0x80000000, 0x80000001]
    out.append(("intmax-adjacent-low-word", [((rng.getrandbits(31) << 32) | v) for v in hi[:nk]]))
    out.append(("intmax-exact", [v for v in hi[:nk]]))
    out.append(("negative-low-word", [((rng.getrandbits(32) << 32) | (0x80000000 | rng.getrandbits(31))) for _ in range(nk)]))
    out.append(("random64", [rng.getrandbits(64) for _ in range(nk)]))
    # distinct pointers that agree in their low 32 bits (the part the bucket function looks at): identity is the whole pointer
    lw = rng.getrandbits(32)
    out.append(("same-low-word", [lw | (i << 32) for i in rng.sample(range(0, 1 << 20), nk)]))
    out.append(("same-low-word-as-NULL", [0] + [i << 32 for i in rng.sample(range(1, 1 << 20), nk - 1)]))
    # the first and the last bucket (loops over the bucket array start and end there), and one key per bucket of a random stretch
    b0 = [64, 165, 0xffffffffffffffdb, 0x7fff0000000000a5] + [64 + 101 * rng.randint(2, 10 ** 6) for _ in range(nk)]
    out.append(("bucket-0", b0[:nk]))
    b100 = [63, 164, 0x7fff000000000000 | 164] + [63 + 101 * rng.randint(2, 10 ** 6) for _ in range(nk)]
    out.append(("bucket-100", b100[:nk]))
    k0 = rng.randint(0, 10 ** 6)
    out.append(("one-key-per-bucket", [k0 + rng.randint(0, 100 - nk) + i for i in range(nk)]))
    for name, ks in out:
        if len(set(ks)) != len(ks):
            raise Machinery("key class %s not distinct" % name)
        if name == "bucket-0" and any(bucket(k) != 0 for k in ks):
            raise Machinery("bucket-0 key class is wrong")
        if name == "bucket-100" and any(bucket(k) != 100 for k in ks):
            raise Machinery("bucket-100 key class is wrong")
    return out


def val_patterns(rng, nv):
    vs = [0, 0x1000, M64 - 1, rng.getrandbits(64), 0x7fffffff, 0xffffffff80000000]
    rng.shuffle(vs)
    vs = vs[:nv]
    if len(set(vs)) != nv or M64 in vs:
        vs = [0] + [0x1000 * (i + 1) for i in range(nv - 1)]
    return vs


def header(keys, vals):
    lines = ["reset"]
    for i, p in enumerate(keys):
        lines.append("kmap %d %x" % (i + 1, p))
    for i, p in enumerate(vals):
        lines.append("vmap %d %x" % (i + 1, p))
    lines.append("vmap 9 %x" % M64)       # value id 9 = the all-ones pointer (equal to the not-found marker)
    return lines


def run(ctx):
    rng = ctx.rng
    nk = 5
    # ---- M1 + M2: P-spec graphs
    hdump = ctx.path("g_hash")
    ctx.design_must_hold("data/HashTable.tla", dump=hdump)
    hg = behaviours.parse_dot(hdump + ".dot")
    ldump = ctx.path("g_list")
    lcfg = ctx.path("PList.cfg")
    with open(lcfg, "w") as fh:
        fh.write("SPECIFICATION LSpec\nCONSTANTS LElems = {1,2,3}\n LMax = %d\nCONSTRAINT LBound\nINVARIANT LTypeOK\n" % (4 if ctx.quick else 5))
    ctx.design_must_hold("data/PList.tla", cfg=lcfg, dump=ldump)
    lg = behaviours.parse_dot(ldump + ".dot")
    for g, need in ((hg, ["HInsert", "HRemove", "HFree", "HNew"]), (lg, ["LAppend", "LPrepend", "LRemove", "LReverse", "LFree"])):
        ac = behaviours.action_counts(g)
        for a in need:
            if not ac.get(a):
                raise Machinery("vacuous: no %s edge" % a)
    scripts = []   # (name, lines)
    classes = key_classes(rng, nk)
    hwalks = behaviours.cover_walks(hg, max_walk=700, rng=rng)
    for wi, w in enumerate(hwalks):
        cname, keys = classes[wi % len(classes)]
        lines = header(keys, val_patterns(rng, 2))
        for lab, dst in w:
            name, args = behaviours.parse_label(lab)
            if name == "HNew":
                lines.append("hnew")
                continue
            if name == "HFree":
                lines.append("hfree")
                continue
            lines.append("hins %d %d" % (args[0], args[1]) if name == "HInsert" else "hrem %d" % args[0])
            lines.append("hobs")
        scripts.append(("hash:" + cname, lines))
    # every key class also gets a random history so that each class meets every operation
    for cname, keys in classes:
        lines = header(keys, val_patterns(rng, 3)) + ["hnew"]
        for _ in range(150 if ctx.quick else 1500):
            if rng.random() < 0.6:
                lines.append("hins %d %d" % (rng.randint(1, nk), rng.choice([1, 2, 3, 9])))
            else:
                lines.append("hrem %d" % rng.randint(1, nk))
            lines.append("hobs")
            if rng.random() < 0.05:
                lines.append("hkeysfail %d" % rng.randint(1, 4))
        lines.append("hfree")
        scripts.append(("hashrand:" + cname, lines))
    lwalks = behaviours.cover_walks(lg, max_walk=700, rng=rng)
    for wi, w in enumerate(lwalks):
        lines = header([], val_patterns(rng, 3))
        for lab, dst in w:
            name, args = behaviours.parse_label(lab)
            lines.append({"LAppend": "lapp %d", "LPrepend": "lpre %d", "LRemove": "lrem %d"}[name] % args[0] if args else
                         {"LReverse": "lrev", "LFree": "lfree"}[name])
            lines.append("lobs")
        scripts.append(("list", lines))
    for _ in range(2 if ctx.quick else 10):
        lines = header([], val_patterns(rng, 5))
        for _ in range(300 if ctx.quick else 1500):
            r = rng.random()
            x = rng.randint(1, 5)
            lines.append("lapp %d" % x if r < 0.3 else "lpre %d" % x if r < 0.55 else "lrem %d" % x if r < 0.85 else "lrev" if r < 0.98 else "lfree")
            lines.append("lobs")
            if rng.random() < 0.05:
                lines += ["lappfail %d" % x, "lobs"]
        scripts.append(("listrand", lines))
    ctx.extra["edge_cover"] = {"hash": {"states": len(hg.labels), "edges": hg.nedges, "walks": len(hwalks)},
                               "list": {"states": len(lg.labels), "edges": lg.nedges, "walks": len(lwalks)}}
    ctx.extra["key_classes"] = [c[0] for c in classes]
    # ---- M3: run (ASan+UBSan build: undefined behaviour is observable as a sanitizer abort)
    exe = build.driver("drv_cont", ["drv_cont.c"], variant="asan")
    traces = []
    for i, (name, lines) in enumerate(scripts):
        sp = ctx.path("c%d.script" % i)
        tp = ctx.path("c%d.ndjson" % i)
        with open(sp, "w") as fh:
            fh.write("\n".join(lines) + "\n")
        rc, out, to = run_driver([exe, sp, tp], timeout=300)
        if to or rc != 0:
            rc, out, to = run_driver([exe, sp, tp], timeout=300)
        if to or rc != 0:
            kind = "hang" if to else ("ub" if "runtime error" in out else "crash")
            where = ""
            for ln in out.split("\n"):
                if "runtime error" in ln or "ERROR: AddressSanitizer" in ln:
                    where = ln.strip()
                    break
            fn = "phashtable" if name.startswith("hash") else "plist"
            sig = "%s:%s:%s" % (kind, fn, "signed-overflow" if "signed integer overflow" in where else "other")
            ctx.violation(sig, "driver %s on legal operations (%s): %s" % (kind, name, where or out[-800:]), [sp])
            continue
        traces.append((name, sp, tp))
    ctx.behaviours += len(traces)
    # concatenate small traces into files of bounded size for validation
    files = []
    cur, cnt = [], 0
    for name, sp, tp in traces:
        data = open(tp).read()
        n = data.count("\n")
        ctx.events += n
        if cur and cnt + n > 12000:
            files.append(cur)
            cur, cnt = [], 0
        cur.append((name, sp, data))
        cnt += n
    if cur:
        files.append(cur)
    paths = []
    for i, grp in enumerate(files):
        p = ctx.path("v%d.ndjson" % i)
        with open(p, "w") as fh:
            for name, sp, data in grp:
                fh.write(data)
        paths.append(p)
    res = ctx.validate_many("data/ContTrace.tla", "ContTrace.cfg", paths)
    for (f, ok, matched), grp in zip(res, files):
        if ok:
            continue
        ev = None
        try:
            ev = json.loads(open(f).read().split("\n")[matched[0]])
        except Exception:
            pass
        ctx.violation("model:%s" % (ev["e"] if ev else "?"),
                      "container trace rejected by ContTrace after %s of %s events; first unexplained event: %s" % (matched[0], matched[1], json.dumps(ev)[:500]),
                      [f] + [g[1] for g in grp][:3])
    if paths:
        for i, line in enumerate(open(paths[0])):
            if i in (8, 9, 10):
                ctx.sample(json.loads(line))
    # ---- binding self-test
    if paths:
        lines = open(paths[0]).read().split("\n")
        for i, line in enumerate(lines):
            if line and '"hobs"' in line:
                ev = json.loads(line)
                if ev["keys"]:
                    ev["keys"] = ev["keys"][1:]
                    lines[i] = json.dumps(ev)
                    p = ctx.path("selftest.ndjson")
                    open(p, "w").write("\n".join(lines[:i + 20]) + "\n")
                    ok, matched, r = tlc.validate_trace("data/ContTrace.tla", p, cfg="ContTrace.cfg")
                    if ok:
                        raise Machinery("self-test: corrupted container trace accepted")
                    ctx.extra["selftest"] = "corrupted hobs event %d rejected" % (i + 1)
                    break
    ctx.assumptions += ["stored values never equal the (ppointer)-1 not-found marker",
                        "UB is observed through the ASan+UBSan build of /repo/src (sanitizer abort = rejected behaviour)"]
    ctx.exhaustive = False
