"""C06: PSemaphore - one system-wide counter per name generation; open/create/owner rules; crash recovery."""
import json, os
import build, tlc, traces, ipcnames
from core import Machinery, run_driver

WRAPS = ["sem_open", "sem_unlink", "sem_close", "sem_wait", "sem_post", "shm_open", "shm_unlink", "ftruncate", "fstat", "mmap", "munmap"]
NPROC = 3


class Gen:
    """script generator with just enough bookkeeping to know which calls are legal and which acquires block"""
    def __init__(self, rng):
        self.rng = rng
        self.lines = []
        self.name_gen = {}      # name -> generation id or None
        self.val = {}           # generation -> value
        self.h = {}             # (p, h) -> [gen, name, own]
        self.blocked = {}       # p -> (p, h)
        self.ng = 0

    def newgen(self, n, init):
        self.ng += 1
        self.name_gen[n] = self.ng
        self.val[self.ng] = init
        return self.ng

    def step(self):
        rng = self.rng
        p = rng.randint(1, NPROC)
        if p in self.blocked:
            return
        hs = [k for k in self.h if k[0] == p]
        free_slots = [i for i in (1, 2, 3) if (p, i) not in self.h]
        r = rng.random()
        if (r < 0.25 or not hs) and free_slots:
            i = rng.choice(free_slots)
            n = rng.randint(1, 3)
            init = rng.randint(0, 3)
            create = rng.random() < 0.4
            self.lines.append("P %d semnew %d %d %d %s" % (p, i, n, init, "create" if create else "open"))
            if create or self.name_gen.get(n) is None:
                g = self.newgen(n, init)
                self.h[(p, i)] = [g, n, True]
            else:
                self.h[(p, i)] = [self.name_gen[n], n, False]
            return
        if not hs:
            return
        k = rng.choice(hs)
        g, n, own = self.h[k]
        if r < 0.5:
            if self.val[g] > 0:
                self.val[g] -= 1
                self.lines.append("P %d acq %d" % k)
            elif len(self.blocked) < NPROC - 1 and not any(self.h[k2][0] == g for k2 in self.blocked.values()):
                # at most one blocked acquirer per semaphore: which of several waiters a release wakes is the kernel's choice,
                # and the script must know whose completion to wait for (several waiters: drv_sem_conc)
                self.lines.append("A %d acq %d" % k)
                self.blocked[p] = k
        elif r < 0.75:
            self.lines.append("P %d rel %d" % k)
            self.val[g] += 1
            self.unblock(g)
        elif r < 0.8:
            self.lines.append("P %d own %d" % k)
            self.h[k][2] = True
        elif r < 0.9:
            self.lines.append("P %d val %d" % k)
        else:
            self.lines.append("P %d free %d" % k)
            if own:
                self.name_gen[n] = None
            del self.h[k]

    def unblock(self, g):
        for p, k in list(self.blocked.items()):
            if self.h[k][0] == g and self.val[g] > 0:
                self.val[g] -= 1
                self.lines.append("W %d" % p)
                del self.blocked[p]

    def finish(self):
        # release blocked acquirers, close everything, remove every name through the documented sequence
        for p, k in list(self.blocked.items()):
            g = self.h[k][0]
            q = [x for x in self.h if self.h[x][0] == g and x[0] not in self.blocked]
            if q:
                self.lines.append("P %d rel %d" % q[0])
                self.val[g] += 1
                self.unblock(g)
            else:
                self.lines.append("K %d" % p)
                del self.blocked[p]
                for x in [x for x in self.h if x[0] == p]:
                    del self.h[x]
        for k in list(self.h):
            self.lines.append("P %d free %d" % k)
        for n in (1, 2, 3):
            self.lines += ["P 1 semnew 3 %d 0 open" % n, "P 1 own 3", "P 1 free 3"]
        self.lines += ["obs", "epoch"]


def crash_scenarios(rng, legacy_safe):
    """SIGKILL at every system-call gate of new(OPEN|CREATE on fresh / existing name) and free(owner), then the documented recovery"""
    out = []
    for op, pre, nsteps in (("semnew 1 1 2 open", [], 2), ("semnew 1 1 2 create", [], 2),
                            ("semnew 1 1 2 open", ["P 2 semnew 1 1 1 open"], 3), ("semnew 1 1 2 create", ["P 2 semnew 1 1 1 open"], 4),
                            ("free 1", ["P 1 semnew 1 1 2 open"], 3), ("free 1", ["P 2 semnew 1 1 1 open", "P 1 semnew 1 1 2 open", "P 1 own 1"], 3),
                            ("acq 1", ["P 1 semnew 1 1 1 open"], 2), ("rel 1", ["P 1 semnew 1 1 1 open"], 2)):
        for k in range(0, nsteps + 1):
            lines = list(pre)
            lines.append("B 1 " + op)
            lines += ["S 1"] * k
            lines.append("K 1")
            init = rng.randint(0, 3)
            # the survivor (if any) goes away as well, then: open / take ownership / free / create
            lines += ["K 2", "P 3 semnew 1 1 0 open", "P 3 own 1", "P 3 free 1", "P 3 semnew 1 1 %d create" % init, "P 3 val 1"]
            lines += ["P 3 acq 1"] * init
            lines += ["P 3 free 1", "obs", "epoch"]
            out.append(lines)
    return out


def replay_proto(ctx, exe, prefix, names):
    """M2+M3 for the I-spec: every edge of the bounded SemProto graph (two processes, one handle each, one name,
    system-call granularity, SIGKILL anywhere) is executed on real processes through the system-call gates."""
    import behaviours
    dump = ctx.path("g_semproto")
    ctx.design_must_hold("ipc/SemProto.tla", cfg="SemProto_replay.cfg", coverage=False, dump=dump, workers=16)
    g = behaviours.parse_dot(dump + ".dot")
    os.unlink(dump + ".dot")
    st = {nid: behaviours.parse_state(lab) for nid, lab in g.labels.items()}
    ac = behaviours.action_counts(g)
    for a in ("OpenExcl", "Unlink", "OpenPlain", "Wait", "Post", "Close", "FreeUnlink", "Crash"):
        if not ac.get(a):
            raise Machinery("vacuous: no %s edge in SemProto graph" % a)
    def feasible(src, edge):
        # one single-threaded child per process: it cannot serve another call while it is parked at a gate
        name, args = behaviours.parse_label(edge[0])
        if name in ("Post", "TakeOwn"):
            return st[src]["apend"][args[0] - 1] == "idle"
        return True
    # one walk = one scenario between two quiescent points; kills of half-done CREATE calls leave the validator alternatives that only
    # later events resolve, so long scenarios are cut (the remaining edges get scenarios of their own)
    walks = behaviours.cover_walks_dag(g, edge_filter=feasible, max_len=50)
    if ctx.quick:
        # sample, but keep the rare interleavings: every walk in which a CREATE-mode open removes the name (Unlink) is kept first
        ctx.rng.shuffle(walks)
        rare = [w for w in walks if any(lab.startswith("Unlink") for lab, _ in w)]
        rest = [w for w in walks if not any(lab.startswith("Unlink") for lab, _ in w)]
        # a step budget keeps the quick tier bounded whatever edge order TLC dumped (a walk prefix is a behaviour too)
        picked, budget = [], 20000
        for w in rare[:250] + rest[:150]:
            if budget - len(w) < 0:
                break
            budget -= len(w)
            picked.append(w)
        walks = picked
    lines, expect = [], []     # expect: per emitted 'ret'/'obs' checkpoint
    for w in walks:
        src = g.init
        for lab, dst in w:
            name, args = behaviours.parse_label(lab)
            a, b = st[src], st[dst]
            if name == "NewCall":
                h, n, init, create = args
                # distinct initial values per process make "sees exactly the given value" observable
                lines.append("B %d semnew 1 %d %d %s" % (h, n, h, "create" if create else "open"))
            elif name in ("OpenExcl", "Unlink", "OpenPlain", "Wait", "FreeUnlink"):
                lines.append("S %d" % args[0])
            elif name == "AcqCall":
                lines.append("B %d acq 1" % args[0])
            elif name == "Post":
                lines.append("P %d rel 1" % args[0])
            elif name == "TakeOwn":
                lines.append("P %d own 1" % args[0])
            elif name == "Close":
                lines.append("B %d free 1" % args[0])
                lines.append("S %d" % args[0])
            elif name == "Crash":
                lines.append("K %d" % args[0])
            elif name in ("NewRet", "AcqRet"):
                pass
            else:
                raise Machinery("unknown SemProto action " + lab)
            lines.append("obs")
            gates = {}
            for hh in (1, 2):
                pc = b["hp"][hh - 1]["pc"]
                gates[hh] = {"excl": "sem_open", "plain": "sem_open", "unlink": "sem_unlink", "free_unlink": "sem_unlink"}.get(pc)
                if b["apend"][hh - 1] == "called":
                    gates[hh] = "sem_wait"
            expect.append({"exists": b["kname"][0] != 0, "gates": gates})
            src = dst
        lines += ["K 1", "K 2", "P 3 semnew 1 1 0 open", "P 3 own 1", "P 3 free 1", "epoch"]
    sp, tp = ctx.path("proto.script"), ctx.path("proto.ndjson")
    open(sp, "w").write("\n".join(lines) + "\n")
    rc, out, to = run_driver([exe, sp, tp, prefix, "3"], timeout=900)
    ipcnames.cleanup(names)
    if rc != 0 or to:
        ctx.drift.append({"replay": "drv_ipc failed on the SemProto replay rc=%s: %s" % (rc, out[-300:])})
        return None
    evs = [json.loads(x) for x in open(tp)]
    ctx.events += len(evs)
    key = None
    j = bad = gbad = 0
    curgate = {1: None, 2: None}
    for e in evs:
        if e["e"] == "sys" and "key" in e and key is None:
            key = e["key"]
        if e["e"] == "gate" and e["p"] in curgate:
            curgate[e["p"]] = e["call"]
        elif e["e"] in ("ret", "crash") and e["p"] in curgate:
            curgate[e["p"]] = None
        elif e["e"] == "Epoch":
            curgate = {1: None, 2: None}
        if e["e"] == "obs" and j < len(expect):
            for hh in (1, 2):
                if expect[j]["gates"][hh] != curgate[hh]:
                    gbad += 1
                    if len(ctx.drift) < 5:
                        ctx.drift.append({"replay_step": j, "process": hh, "parked_before": curgate[hh], "model_next_syscall": expect[j]["gates"][hh]})
            ex = dict((k, v) for k, v in e["sem"]).get(key, 0) == 1 if key else False
            if ex != expect[j]["exists"]:
                bad += 1
                if len(ctx.drift) < 5:
                    ctx.drift.append({"replay_step": j, "name_exists_observed": ex, "model": expect[j]["exists"]})
            j += 1
    # tell the validator which name the observed key is (one name in this replay): obs events then pin the abstract name space
    if key:
        for e in evs:
            if e["e"] == "obs":
                e["ex"] = [[1, dict((k, v) for k, v in e["sem"]).get(key, 0)]]
        traces.write(evs, tp)
    ctx.extra["proto_replay"] = {"graph_states": len(g.labels), "graph_edges": g.nedges, "walks": len(walks), "steps": len(expect), "kernel_name_mismatches": bad, "syscall_gate_mismatches": gbad,
                                 "stuck_events": sum(1 for e in evs if e["e"] == "Stuck")}
    ctx.behaviours += len(walks)
    return tp


WITNESSES = ["W_CreateRacesCreate", "W_OpenLosesName", "W_OwnerKilledBetweenCloseAndUnlink"]


def witness_scripts(ctx):
    """rare interleavings as reachability queries: TLC's shortest counterexample to each negated witness predicate is a
    schedule at system-call granularity; it is executed on the real processes and judged by SemTrace like any history"""
    import re
    out = []
    for w in WITNESSES:
        r = ctx.design_check("ipc/SemProto.tla", cfg="SemProto_%s.cfg" % w, coverage=False, workers=1)
        if r.ok:
            raise Machinery("witness %s is not reachable in SemProto" % w)
        i = r.out.find("Error: Invariant")
        acts = re.findall(r"State \d+: <(\w+)\(([^)]*)\)", r.out[i:])
        lines = []
        for name, args in acts:
            a = [x.strip() for x in args.split(",")]
            h = int(a[0])
            if name == "NewCall":
                lines.append("B %d semnew 1 %s %d %s" % (h, a[1], h + 1, "create" if a[3] == "TRUE" else "open"))
            elif name in ("OpenExcl", "Unlink", "OpenPlain", "Wait", "FreeUnlink"):
                lines.append("S %d" % h)
            elif name == "AcqCall":
                lines.append("B %d acq 1" % h)
            elif name == "Post":
                lines.append("P %d rel 1" % h)
            elif name == "TakeOwn":
                lines.append("P %d own 1" % h)
            elif name == "Close":
                lines += ["B %d free 1" % h, "S %d" % h]
            elif name == "Crash":
                lines.append("K %d" % h)
        # run everything to completion, then look at the counters through every handle that exists
        lines += ["F 1", "F 2", "P 1 val 1", "P 2 val 1", "P 1 rel 1", "P 2 val 1", "P 2 rel 1", "P 1 val 1",
                  "K 1", "K 2", "P 3 semnew 1 1 0 open", "P 3 own 1", "P 3 free 1", "obs", "epoch"]
        out.append(lines)
    return out


def run(ctx):
    rng = ctx.rng
    # names differ only in their last characters - and those come after more than 256 common ones
    prefix = "vf%d_" % os.getpid() + "names_that_share_a_long_common_prefix_" * 7 + "x"
    ctx.design_must_hold("ipc/SemAbs.tla", expect_actions=["SNew", "SCreateCall", "SCreateReset", "SCreateLin", "SAcqCall", "SAcqLin", "SRelease", "SOwn", "SFree"])
    if not ctx.quick:
        ctx.design_must_hold("ipc/SemProto.tla", cfg="SemProto_fixed.cfg", coverage=False, workers=16, xmx="8g", timeout=1800)
    r = ctx.design_check("ipc/SemProto.tla", cfg="SemProto_legacy.cfg", coverage=False)
    if r.ok:
        raise Machinery("non-vacuity: the legacy CREATE protocol was not rejected")
    ctx.extra["legacy_create_protocol"] = "rejected by TLC (%s)" % r.violated_name
    exe = build.driver("drv_ipc", ["drv_ipc.c"], variant="default", wraps=WRAPS)
    scripts = []
    for i in range(12 if ctx.quick else 120):
        g = Gen(rng)
        for _ in range(rng.randint(10, 60)):
            g.step()
        g.finish()
        scripts.append(("hist", g.lines))
    for lines in crash_scenarios(rng, True):
        scripts.append(("crash", lines))
    for lines in witness_scripts(ctx):
        scripts.append(("witness", lines))
    # initial values across the whole range the platform allows (SEM_VALUE_MAX is INT_MAX here, _POSIX_SEM_VALUE_MAX only 32767)
    for iv in (32767, 32768, 65536, 100000, 2000000000):
        scripts.append(("bigvalue", ["P 1 semnew 1 1 %d create" % iv, "P 1 val 1", "P 2 semnew 1 1 7 open", "P 2 val 1", "P 2 acq 1", "P 1 val 1", "P 2 rel 1", "P 2 free 1",
                                     "P 3 semnew 2 2 %d open" % iv, "P 3 val 2", "P 3 own 2", "P 3 free 2", "P 1 free 1",
                                     "P 1 semnew 3 1 0 open", "P 1 own 3", "P 1 free 3", "P 1 semnew 3 2 0 open", "P 1 own 3", "P 1 free 3", "obs", "epoch"]))
    # the environment refuses a system call inside an OPEN-mode p_semaphore_new (descriptor table full, ...): the call may fail, but a semaphore
    # that exists keeps its units (a third process still sees them), and nothing is left behind for a name that did not exist
    for skip in (0, 1):
        for en in (24, 23, 12):
            scripts.append(("inject", ["P 1 semnew 1 1 3 create", "X 2 sem_open %d %d" % (en, skip), "P 2 semnew 1 1 2 open", "P 2 val 1", "P 2 free 1",
                                       "P 3 semnew 1 1 0 open", "P 3 val 1", "P 3 acq 1", "P 3 rel 1", "P 3 free 1", "P 1 free 1",
                                       "X 2 sem_open %d %d" % (en, skip), "P 2 semnew 1 2 2 open", "P 2 free 1", "P 3 semnew 1 2 1 open", "P 3 val 1", "P 3 own 1", "P 3 free 1",
                                       "P 1 semnew 3 1 0 open", "P 1 own 3", "P 1 free 3", "P 1 semnew 3 2 0 open", "P 1 own 3", "P 1 free 3", "obs", "epoch"]))
    # a signal handler runs while a process sits in p_semaphore_acquire (sem_wait reports EINTR once): the call still returns only by consuming
    # a unit - at once when one is there, after the next release when none is
    scripts.append(("inject", ["P 1 semnew 1 1 1 create", "P 2 semnew 1 1 0 open", "X 2 sem_wait 4 0", "P 2 acq 1", "P 1 val 1", "P 2 rel 1", "P 1 val 1",
                               "P 1 acq 1", "P 2 val 1", "X 2 sem_wait 4 0", "A 2 acq 1", "T 2", "P 1 val 1", "P 1 rel 1", "W 2", "P 1 val 1", "P 2 rel 1", "P 2 free 1", "P 1 free 1", "obs", "epoch"]))
    names = ["%s_%d" % (prefix, n) for n in (1, 2, 3)]
    files = []
    try:
        # group scripts into driver runs
        groups = [scripts[i:i + 8] for i in range(0, len(scripts), 8)]
        for gi, grp in enumerate(groups):
            sp, tp = ctx.path("s%d.script" % gi), ctx.path("s%d.ndjson" % gi)
            open(sp, "w").write("\n".join("\n".join(l) for _, l in grp) + "\n")
            rc, out, to = run_driver([exe, sp, tp, prefix, str(NPROC)], timeout=300)
            ipcnames.cleanup(names)
            if rc != 0 or to:
                ctx.violation("driver:%s" % ("hang" if to else "crash"), "drv_ipc rc=%s: %s" % (rc, out[-400:]), [sp])
                continue
            files.append((sp, tp))
            ctx.events += sum(1 for _ in open(tp))
        ptrace = replay_proto(ctx, exe, prefix, names)
        if ptrace:
            evs = [json.loads(x) for x in open(ptrace)]
            for ci, chnk in enumerate(traces.split_at(evs, "Epoch", 15000)):
                # split_at cuts before an Epoch marker: move the marker to the end of the previous chunk
                f = traces.write(chnk, ctx.path("proto_c%d.ndjson" % ci))
                files.append((ctx.path("proto.script"), f))
        # concurrent acquirers / releasers (threads and processes): linearizability = k-exclusion
        cexe = build.driver("drv_sem_conc", ["drv_sem_conc.c"], variant="default")
        for ci, (init, nact, procs) in enumerate([(1, 3, 0), (2, 5, 1), (3, 4, 0), (1, 4, 1)] if ctx.quick else
                                                 [(i, n, pr) for i in (1, 2, 4) for n in (2, 5, 8) for pr in (0, 1)]):
            nm = "%s_k%d" % (prefix, ci)
            names.append(nm)
            base = ctx.path("k%d" % ci)
            cmd = [cexe, base, nm, str(init), str(nact), "4", str(80 if ctx.quick else 200), str(procs), str(rng.randint(1, 10 ** 6))]
            rc, out, to = run_driver(cmd, timeout=90)
            if to or rc != 0:
                for f in os.listdir(ctx.rundir):
                    if f.startswith("k%d." % ci):
                        os.unlink(ctx.path(f))
                rc, out, to = run_driver(cmd, timeout=90)
                if to or rc != 0:
                    ctx.violation("conc:%s" % ("stuck" if to else "crash"), "%d concurrent acquire/release actors around a semaphore of %d did not finish (rc=%s) twice" % (nact, init, rc), [])
                    continue
            pth, evs = traces.merge(base)
            ctx.events += len(evs)
            files.append(("k-exclusion init=%d actors=%d procs=%d" % (init, nact, procs), pth))
        # threads of one process opening different names at the same moment
        nexe = build.driver("drv_sem_names", ["drv_sem_names.c"], variant="default")
        nprefix = "vf%d_names_that_share_a_common_prefix_n" % os.getpid()      # (short names here: whatever is done differently for short names is covered too)
        names += ["%s_%d" % (nprefix, n) for n in (1, 2, 3)]
        base = ctx.path("names")
        cmd = [nexe, base, nprefix, str(150 if ctx.quick else 1500), str(rng.randint(1, 10 ** 6))]
        rc, out, to = run_driver(cmd, timeout=120)
        if to or rc != 0:
            ipcnames.cleanup(names)
            for f in os.listdir(ctx.rundir):
                if f.startswith("names."):
                    os.unlink(ctx.path(f))
            rc, out, to = run_driver(cmd, timeout=120)
        if to or rc != 0:
            ctx.violation("names:%s" % ("stuck" if to else "crash"), "threads creating different names at the same moment did not finish (rc=%s) twice: %s" % (rc, out[-300:]), [])
        else:
            pth, evs = traces.merge(base)
            ctx.events += len(evs)
            for ci, ch in enumerate(traces.split_at(evs, "Epoch", 6000)):
                files.append(("concurrent creation of different names", traces.write(ch, base + "_c%d.ndjson" % ci)))
        res = ctx.validate_many("ipc/SemTrace.tla", "SemTrace.cfg", [t for _, t in files], par=6, timeout=900)
        for (sp, tp), (_, ok, matched) in zip(files, res):
            if ok:
                continue
            evs = [json.loads(x) for x in open(tp)]
            ev = evs[matched[0]] if matched[0] is not None and matched[0] < len(evs) else None
            # which call is unexplained
            sig = "unexplained"
            if ev and ev.get("e") == "ret" and ev.get("op") == "semnew" and ev.get("ok") == 0:
                call = [e for e in evs[:matched[0]] if e.get("e") == "call" and e.get("h") == ev["h"]][-1]
                sig = "create-fails-on-existing-name" if call["create"] == 1 else "open-fails"
            elif ev and ev.get("e") == "Stuck":
                sig = "stuck"
            elif ev and ev.get("e") == "ret":
                sig = "wrong-%s" % ev.get("op")
            ctx.violation("sem:" + sig, "semaphore history rejected by SemTrace after %s of %s events: %s" % (matched[0], matched[1], json.dumps(ev)[:300]), [x for x in (sp, tp) if os.path.exists(x)])
        ctx.behaviours += len(scripts)
        ctx.extra["scenarios"] = {"histories": sum(1 for k, _ in scripts if k == "hist"), "crash_points": sum(1 for k, _ in scripts if k == "crash"),
                                  "tlc_witness_schedules": sum(1 for k, _ in scripts if k == "witness")}
        if files:
            for i, line in enumerate(open(files[0][1])):
                if i < 5:
                    ctx.sample(json.loads(line))
            # binding self-test: a counter value off by one
            evs = [json.loads(x) for x in open(files[0][1])]
            for i, e in enumerate(evs):
                if e["e"] == "ret" and e["op"] == "rel" and e["ok"] == 1 and e["val"] >= 0:      # a release that succeeded and whose counter was read back
                    e["val"] += 1
                    break
            p = traces.write(evs[: i + 3], ctx.path("selftest.ndjson"))
            ok, matched, r = tlc.validate_trace("ipc/SemTrace.tla", p, cfg="SemTrace.cfg")
            if ok:
                raise Machinery("self-test: wrong counter value accepted")
            ctx.extra["selftest"] = "wrong counter after release rejected"
    finally:
        left = ipcnames.leftovers(names)
        ipcnames.cleanup(names)
        if left:
            ctx.notes.append("IPC names removed by the check after the run: %s" % left)
    ctx.assumptions += ["the System V implementation (psemaphore-sysv.c) is not build-selectable on this platform and is not checked",
                        "the counter is observed with sem_getvalue on the descriptor the library itself obtained (link-time wrapper)",
                        "children are serialised by the parent; concurrent acquirers/releasers are covered by the k-exclusion histories"]
    ctx.exhaustive = False
