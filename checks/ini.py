"""C16: PIniFile - safe on any bytes; documented grammar on well-formed files."""
import json, os, re
import build, tlc, behaviours, traces
from core import Machinery, run_driver

SEC_NAMES = {1: "alpha", 2: "Section Two", 3: "s3"}
KEY_NAMES = {1: "key", 2: "other_key", 3: "k3"}


def c_atoi(s):
    m = re.match(r"[ \t\n\v\f\r]*([+-]?\d+)", s)
    if not m:
        return 0
    v = int(m.group(1))
    return max(-2 ** 31, min(2 ** 31 - 1, v))


def text_info(t):
    """documented conversions of a stored value text"""
    if t in ("true", "TRUE"):
        b = 1
    elif t in ("false", "FALSE"):
        b = 0
    else:
        b = 1 if c_atoi(t) > 0 else 0
    lst = []
    if len(t) >= 3 and t[0] == "{" and t[-1] == "}":
        lst = t[1:-1].split()
    return c_atoi(t), b, lst


TEXT_POOL = ["1234", "-17", "0", "true", "FALSE", "TRUE", "false", "hello", "Test string", "{123 val 7654}", "{ a  b }", "a=b=c", "x;y", "p # q",
             "2147483647", "12abc", "3.5", "0.25", "1e3", "-2.5e-1", "", "{}", "{x}", "value with spaces", "7", "UPPER",
             # lists: element lengths in every order (the getter re-uses one scratch buffer), blanks and tabs as separators, with and without
             # a blank before the closing brace
             # integers "in the usual form" are decimal whatever they start with (atoi): leading zeros, a 0x prefix, an explicit sign
             "010", "0100", "09", "-012", "0x10", "+5", "0007", "00", "0129",
             # doubles "in any commonly used notation": no digit before the point, none after it, signs, upper-case exponent with sign
             ".5", "-.25", "+.75", ".5e1", "-.125e+2", "5.", "1E2", "2.5E+1", "+3", "12.5", ".0", "00.5", "1e0", "-4.",
             "{10 5}", "{alpha be c}", "{12345 c2 1 }", "{ab\tcdef\tg}", "{1 22 333 22 1}", "{longest-first x}"]
DOUBLES = {"1234": 1234.0, "-17": -17.0, "0": 0.0, "3.5": 3.5, "0.25": 0.25, "1e3": 1000.0, "-2.5e-1": -0.25, "2147483647": 2147483647.0, "7": 7.0,
           ".5": 0.5, "-.25": -0.25, "+.75": 0.75, ".5e1": 5.0, "-.125e+2": -12.5, "5.": 5.0, "1E2": 100.0, "2.5E+1": 25.0, "+3": 3.0, "12.5": 12.5, ".0": 0.0, "00.5": 0.5,
           "1e0": 1.0, "-4.": -4.0, "010": 10.0, "0100": 100.0, "09": 9.0, "-012": -12.0, "+5": 5.0, "0007": 7.0, "00": 0.0, "0129": 129.0}


def render_kv(rng, key, text):
    """one concrete spelling of `key = text` within the documented grammar"""
    if len(text) > 800:
        return key + "=" + text          # long values: stay within the documented 1024-byte line limit
    needs_quote = any(c in text for c in ";#") or text == ""
    if needs_quote:
        q = rng.choice(['"', "'"])
    else:
        q = rng.choice(["", "", '"', "'"])
    if q and (q in text or text != text.strip()):
        q = '"' if "'" in text else "'"
    eq = rng.choice(["=", " = ", "\t=\t", " =", "= ", "   =   "])
    lead = rng.choice(["", "", " ", "\t"])
    trail = rng.choice(["", "", " ", "  ; a comment", " # another = comment", "\t;x"])
    if not q and "=" in text and trail.strip().startswith("#"):
        pass
    return lead + key + eq + q + text + q + trail


def render_file(rng, lines):
    out = []
    for ln in lines:
        kind = ln[0]
        if kind == "blank":
            out.append(rng.choice(["", "   ", "\t"]))
        elif kind == "comment":
            out.append(rng.choice(["", "", " ", "\t", "    "]) + rng.choice(["# comment", "; comment = not an assignment", "#[notasection]", ";", "# key = 5", ";key=value ; again"]))
        elif kind == "section":
            name = SEC_NAMES[ln[1]]
            out.append(rng.choice(["[%s]", "  [%s]", "[%s]  ", "[ %s ]", "\t[%s]\t"]) % name)
        elif kind == "kv":
            out.append(render_kv(rng, KEY_NAMES[ln[1]], ln[2]))
    eol = rng.choice(["\n", "\n", "\r\n"])
    body = eol.join(out) + rng.choice([eol, eol, ""])
    bom = rng.choice([b"", b"", b"\xef\xbb\xbf", b"\xff\xfe", b"\xfe\xff"])
    return bom + body.encode("latin-1")


def run(ctx):
    rng = ctx.rng
    dump = ctx.path("g_ini")
    ctx.design_must_hold("data/IniStore.tla", dump=dump, expect_actions=["ILineSection", "ILineKV"])
    g = behaviours.parse_dot(dump + ".dot")
    walks = behaviours.cover_walks(g, max_walk=8, rng=rng)
    # abstract files: the edge cover of the design graph (2 sections x 2 keys x 2 texts) with noise lines mixed in, plus random ones
    files = []
    texts = list(TEXT_POOL)
    for w in walks:
        t1, t2 = rng.sample(texts, 2)
        lines = []
        seen, skipping = set(), False
        for lab, dst in w:
            name, args = behaviours.parse_label(lab)
            if rng.random() < 0.3:
                lines.append((rng.choice(["blank", "comment"]),))
            if name == "ILineSection":
                # the documented format has distinct section names: a repeated section (and what follows it) is left out
                skipping = args[0] in seen
                if not skipping:
                    seen.add(args[0])
                    lines.append(("section", args[0]))
            elif not skipping:
                lines.append(("kv", args[0], t1 if args[1] == 1 else t2))
        files.append(lines)
    for _ in range(40 if ctx.quick else 3000):
        lines = []
        secs = rng.sample([1, 2, 3], rng.randint(1, 3))
        if rng.random() < 0.5:
            lines.append(("kv", rng.randint(1, 3), rng.choice(texts)))      # before the first section
        for s in secs:
            lines.append(("section", s))
            for _ in range(rng.randint(0, 5)):
                r = rng.random()
                lines.append(("kv", rng.randint(1, 3), rng.choice(texts)) if r < 0.7 else (rng.choice(["blank", "comment"]),))
        files.append(lines)
    # every text of the pool at least once, whatever the random choices were
    for i in range(0, len(texts), 9):
        chunk = texts[i:i + 9]
        lines = []
        for j, t in enumerate(chunk):
            if j % 3 == 0:
                lines.append(("section", j // 3 + 1))
            lines.append(("kv", j % 3 + 1, t))
        files.append(lines)
    # long lines up to the 1024-byte limit
    for n in (900, 1000, 1015):
        files.append([("section", 1), ("kv", 1, "x" * n), ("kv", 2, "7")])
    exe = build.driver("drv_ini", ["drv_ini.c"], variant="asan")
    man = []
    text_ids = {}
    for fi, lines in enumerate(files):
        p = ctx.path("f%d.ini" % fi)
        open(p, "wb").write(render_file(rng, lines))
        man.append("file " + p)
        for s in (1, 2, 3):
            for k in (1, 2, 3):
                man.append("q %s %s" % (SEC_NAMES[s].encode().hex(), KEY_NAMES[k].encode().hex()))
        man.append("end")
        for ln in lines:
            if ln[0] == "kv" and ln[2] not in text_ids:
                text_ids[ln[2]] = len(text_ids) + 1
    mp, op = ctx.path("ini.manifest"), ctx.path("ini.out")
    open(mp, "w").write("\n".join(man) + "\n")
    rc, out, to = run_driver([exe, mp, op], timeout=300)
    if rc != 0 or to:
        ctx.violation("grammar:%s" % ("hang" if to else "memory-error" if "Sanitizer" in out else "crash"), "drv_ini on well-formed files: %s" % out[-600:], [mp])
        return
    sec_id = {v.encode().hex(): k for k, v in SEC_NAMES.items()}
    key_id = {v.encode().hex(): k for k, v in KEY_NAMES.items()}
    txt_hex = {t.encode("latin-1").hex(): i for t, i in text_ids.items()}
    table = ctx.path("ini.table")
    with open(table, "w") as fh:
        for t, i in text_ids.items():
            iv, bv, lst = text_info(t)
            fh.write(json.dumps({"t": i, "int": iv, "bool": bv, "list": [x.encode("latin-1").hex() for x in lst]}) + "\n")
    evs = []
    obs = [json.loads(x) for x in open(op)]
    oi = 0
    dbl_bad = []
    for fi, lines in enumerate(files):
        evs.append({"e": "file", "n": fi})
        for ln in lines:
            if ln[0] == "section":
                evs.append({"e": "line", "kind": "section", "s": ln[1], "k": 0, "t": 0})
            elif ln[0] == "kv":
                evs.append({"e": "line", "kind": "kv", "s": 0, "k": ln[1], "t": text_ids[ln[2]]})
            else:
                evs.append({"e": "line", "kind": ln[0], "s": 0, "k": 0, "t": 0})
        o = obs[oi]; oi += 1
        evs.append({"e": "parsed", "ok": o["ok"]})
        evs.append({"e": "sections", "names": [sec_id.get(x, -1) for x in o["sections"]]})
        for ks in o["keys"]:
            evs.append({"e": "keys", "s": sec_id.get(ks["s"], -1), "keys": [key_id.get(x, -1) for x in ks["keys"]]})
        for s in (1, 2, 3):
            for k in (1, 2, 3):
                o = obs[oi]; oi += 1
                default = o["str"] == "@default@".encode().hex()
                txt = bytes.fromhex(o["str"]).decode("latin-1")
                dbl_ok = 1
                if not default and txt in DOUBLES and float(o["dbl"]) != DOUBLES[txt]:
                    dbl_ok = 0
                    dbl_bad.append((txt, o["dbl"]))
                if default and float(o["dbl"]) != -77.5:
                    dbl_ok = 0
                evs.append({"e": "get", "s": s, "k": k, "exists": o["exists"], "str": -1 if default else txt_hex.get(o["str"], -2),
                            "int": o["int"], "bool": o["bool"], "list": o["list"], "dbl": dbl_ok})
    ctx.events += len(evs)
    chunks = traces.split_at(evs, "file", 12000)
    paths = [traces.write(ch, ctx.path("ini_c%d.ndjson" % i)) for i, ch in enumerate(chunks)]
    from concurrent.futures import ThreadPoolExecutor
    with ThreadPoolExecutor(6) as ex:
        res = list(ex.map(lambda p: ctx.validate("data/IniTrace.tla", "IniTrace.cfg", p, env={"TABLE": table}), paths))
    for p, (ok, matched) in zip(paths, res):
        if ok:
            continue
        ce = [json.loads(x) for x in open(p)]
        ev = ce[matched[0]] if matched[0] is not None and matched[0] < len(ce) else None
        fno = [e["n"] for e in ce[: matched[0] + 1] if e["e"] == "file"][-1]
        ctx.violation("grammar:%s" % (ev["e"] if ev else "?"), "parse result of a well-formed file differs from IniStore: %s; file content: %r" % (json.dumps(ev)[:300], open(ctx.path("f%d.ini" % fno), "rb").read()[:300]),
                      [ctx.path("f%d.ini" % fno), p])
    ctx.behaviours += len(files)
    ctx.extra["wellformed_files"] = len(files)
    ctx.extra["design_graph_walks"] = len(walks)
    if dbl_bad:
        ctx.notes.append("double getter differs on exactly representable inputs: %s" % dbl_bad[:3])
    for e in evs[1:6]:
        ctx.sample(e)
    # ---- robustness: any bytes
    rfiles = []
    base = [open(ctx.path("f%d.ini" % i), "rb").read() for i in range(min(len(files), 30))]
    for i in range(150 if ctx.quick else 20000):
        r = rng.random()
        if r < 0.25:
            data = bytes(rng.getrandbits(8) for _ in range(rng.choice([0, 1, 10, 100, 1500, 5000])))
        else:
            data = bytearray(rng.choice(base))
            for _ in range(rng.randint(1, 8)):
                m = rng.random()
                pos = rng.randint(0, max(0, len(data) - 1)) if data else 0
                if m < 0.3 and data:
                    data[pos] = rng.getrandbits(8)
                elif m < 0.5:
                    data[pos:pos] = bytes([rng.choice([0, 10, 13, 61, 91, 93, 34, 39, 59, 35, 123, 125, 255])]) * rng.choice([1, 1, 3, 1100])
                elif m < 0.7 and data:
                    del data[pos:pos + rng.randint(1, 20)]
                elif m < 0.8:
                    data = data[:pos]
                else:
                    data[pos:pos] = (b"[" + b"s" * rng.choice([1, 1020, 1023, 1024, 1030]) + b"]\n" + b"k" * rng.choice([1, 600, 1023]) + b"=" + b"v" * rng.choice([1, 500, 1024, 2000]) + b"\n")
            data = bytes(data)
        p = ctx.path("r%d.ini" % i)
        open(p, "wb").write(data)
        rfiles.append(p)
    mp2, op2 = ctx.path("rob.manifest"), ctx.path("rob.out")
    open(mp2, "w").write("\n".join("file %s\nq %s %s\nend" % (p, b"alpha".hex(), b"key".hex()) for p in rfiles) + "\n")
    rc, out, to = run_driver([exe, mp2, op2], timeout=600)
    if rc != 0 or to:
        kind = "hang" if to else "memory-error" if ("Sanitizer" in out or "runtime error" in out) else "crash"
        # find the file that kills the parser: bisect by running files one by one is cheap enough
        culprit = None
        for p in rfiles:
            open(mp2, "w").write("file %s\nend\n" % p)
            rc1, out1, to1 = run_driver([exe, mp2, op2], timeout=60)
            if rc1 != 0 or to1:
                culprit, out = p, out1
                break
        ctx.violation("robust:%s" % kind, "parser %s on arbitrary bytes (%s): %s" % (kind, culprit, out[-500:]), [culprit] if culprit else [])
    else:
        revs = []
        for o in (json.loads(x) for x in open(op2)):
            if o["e"] != "parsed":
                continue
            revs.append({"e": "rfile", "returned": 1})
            for ks in o["keys"]:
                revs.append({"e": "rsec", "nkeys": ks["nkeys"]})
                revs.append({"e": "rkey", "exists": ks["allok"], "retrievable": ks["allok"]})
        p = traces.write(revs, ctx.path("rob.ndjson"))
        ctx.events += len(revs)
        ok, matched = ctx.validate("data/IniRobust.tla", "IniRobust.cfg", p)
        if not ok:
            ctx.violation("robust:inconsistent", "parse result of arbitrary bytes is inconsistent (listed section without keys / key without value), event %s" % matched[0], [p])
    ctx.extra["robustness_files"] = len(rfiles)
    # ---- binding self-test
    if paths:
        ce = [json.loads(x) for x in open(paths[0])]
        for i, e in enumerate(ce):
            if e["e"] == "get" and e["exists"] == 1:
                e["int"] += 1
                break
        p = traces.write(ce[: i + 2], ctx.path("selftest.ndjson"))
        ok, matched, r = tlc.validate_trace("data/IniTrace.tla", p, cfg="IniTrace.cfg", env={"TABLE": table})
        if ok:
            raise Machinery("self-test: wrong int getter result accepted")
        ctx.extra["selftest"] = "wrong integer conversion rejected"
    ctx.assumptions += ["well-formed files stay inside the documented grammar: distinct section names, no comment markers in unquoted values, no blanks at the edges of quoted values",
                        "double conversion is asserted only for exactly representable decimal strings; memory errors are observed through the ASan+UBSan build"]
    ctx.exhaustive = False
