"""X03 (beyond the listed properties): PError objects follow specs/sys/ErrObj.tla (life cycle, first-error-stays convention, domains)."""
import json, os
import build, tlc, behaviours, traces
from core import Machinery, run_driver

CODES = [0, 1, -1, 499, 500, 519, 599, 600, 610, 699, 1000, 2147483647, -2147483647]
NATS = [0, 2, 11, -5, 32767]


def run(ctx):
    rng = ctx.rng
    dump = ctx.path("g_err")
    ctx.design_must_hold("sys/ErrObj.tla", cfg="ErrObj.cfg", dump=dump,
                         expect_actions=["New", "NewLit", "SetError", "SetErrorP", "SetCode", "SetNative", "SetMsg", "Clear", "Copy", "Free", "Obs"])
    g = behaviours.parse_dot(dump + ".dot")
    os.unlink(dump + ".dot")
    files = []
    lines = []
    nwalks = 0
    for _ in range(2 if ctx.quick else 20):
        walks = behaviours.cover_walks(g, max_walk=120, rng=rng)
        nwalks += len(walks)
        for w in walks:
            lines.append("scenario")
            for lab, dst in w:
                name, args = behaviours.parse_label(lab)
                s = args[0]
                code, nat, m = rng.choice(CODES), rng.choice(NATS), rng.randint(0, 5)
                # the class of the message (NULL or text) follows the edge, the concrete values are drawn per edge
                if name in ("NewLit", "SetError", "SetErrorP"):
                    m = 0 if args[3] == 0 else rng.randint(1, 5)
                    lines.append("%s %d %d %d %d" % ({"NewLit": "newlit", "SetError": "seterror", "SetErrorP": "seterrorp"}[name], s, code, nat, m))
                elif name == "New":
                    lines.append("new %d" % s)
                elif name == "SetCode":
                    lines.append("setcode %d %d" % (s, code))
                elif name == "SetNative":
                    lines.append("setnative %d %d" % (s, nat))
                elif name == "SetMsg":
                    lines.append("setmsg %d %d" % (s, 0 if args[1] == 0 else rng.randint(1, 5)))
                elif name == "Clear":
                    lines.append("clear %d" % s)
                elif name == "Copy":
                    lines.append("copy %d %d" % (s, args[1]))
                elif name == "Free":
                    lines.append("free %d" % s)
                lines.append("obs %d" % s)
                if rng.random() < 0.3:
                    lines.append("obs %d" % rng.randint(1, 3))
    ctx.behaviours += nwalks
    ctx.extra["edge_cover"] = {"states": len(g.labels), "edges": g.nedges, "walks": nwalks}
    chunks = []
    cur = []
    for ln in lines:
        if ln == "scenario" and len(cur) > 5000:
            chunks.append(cur)
            cur = []
        cur.append(ln)
    chunks.append(cur)
    for variant in ("asan", "default"):
        exe = build.driver("drv_err", ["drv_err.c"], variant=variant)
        for ci, ch in enumerate(chunks):
            if variant == "default" and ci % 2:
                continue
            sp, tp = ctx.path("err_%s_%d.script" % (variant, ci)), ctx.path("err_%s_%d.ndjson" % (variant, ci))
            open(sp, "w").write("\n".join(ch) + "\n")
            rc, out, to = run_driver([exe, sp, tp], timeout=120)
            if rc != 0 or to:
                kind = "hang" if to else ("memory" if "Sanitizer" in out else "crash")
                ctx.violation("%s:%s" % (variant, kind), "error objects: driver %s (rc=%s): %s" % (kind, rc, out[-500:]), [sp])
            if os.path.exists(tp):
                ctx.events += sum(1 for _ in open(tp))
                files.append((tp, sp))
    res = ctx.validate_many("sys/ErrObjTrace.tla", "ErrObjTrace.cfg", [f for f, _ in files], par=8)
    for (f, sp), (_, ok, matched) in zip(files, res):
        if ok:
            continue
        evs = [json.loads(x) for x in open(f)]
        ev = evs[matched[0]] if matched[0] is not None and matched[0] < len(evs) else None
        ctx.violation("model:%s" % (ev["e"] if ev else "?"), "error object history not explained by ErrObj at event %s: %s; before: %s" % (
            matched[0], json.dumps(ev)[:300], json.dumps(evs[max(0, matched[0] - 3):matched[0]])[:400]), [f, sp])
    if files:
        for i, line in enumerate(open(files[0][0])):
            if i in (1, 2, 3):
                ctx.sample(json.loads(line))
        # binding self-test: a set_error_p that overwrote an existing error
        evs = [json.loads(x) for x in open(files[0][0])]
        for i, e in enumerate(evs):
            if e["e"] == "obs" and e["ex"] == 1:
                e["code"] += 1
                p = traces.write(evs[: i + 1], ctx.path("selftest.ndjson"))
                ok, matched, r = tlc.validate_trace("sys/ErrObjTrace.tla", p, cfg="ErrObjTrace.cfg")
                if ok:
                    raise Machinery("self-test: wrong error code in an observation accepted")
                ctx.extra["selftest"] = "changed code in obs event %d rejected" % (i + 1)
                break
    ctx.assumptions += ["not one of the listed properties (DESIGN.md, 'Beyond the listed properties'); the errno-to-code tables of perror.c are not modelled"]
    ctx.exhaustive = False
