"""C03: PCondVariable - atomic release-and-wait; signal wakes one, broadcast all."""
import json, os
import build, tlc, traces
from core import Machinery, run_driver


def run(ctx):
    rng = ctx.rng
    ctx.design_must_hold("sync/CondVar.tla", expect_actions=["Call", "LinLock", "LinTryT", "LinTryF", "LinUnlock", "WaitBegin", "WaitReturn", "LinSignal", "LinBroadcast", "Spurious", "Ret"], deadlock=False)
    ctx.design_must_hold("sync/BoundedBuffer.tla", cfg="BoundedBuffer_ok.cfg", expect_actions=["Lock", "Check", "Notify", "Unlock", "Wake", "SpuriousW"], allow_unused=("Block",))
    r = ctx.design_check("sync/BoundedBuffer.tla", cfg="BoundedBuffer_broken.cfg")
    if r.ok or r.violation != "liveness":
        raise Machinery("non-vacuity: the non-atomic release-then-block variant was not rejected by the liveness property")
    ctx.extra["non_atomic_wait_variant"] = "rejected (lost wake-up found by TLC)"
    exe = build.driver("drv_cond", ["drv_cond.c"], variant="default")
    files = []
    runs = []
    if ctx.quick:
        runs = [("pc", [1, 1, 1, 60, 3]), ("pc", [2, 2, 1, 40, 3]), ("pc", [3, 3, 2, 25, 3]), ("pc", [4, 2, 3, 20, 2]),
                ("wake", [1, "signal", 25]), ("wake", [4, "signal", 15]), ("wake", [5, "broadcast", 15]), ("wake", [2, "broadcast", 25]),
                # the signaller's critical section lasts a while: waiters stay blocked for hundreds of milliseconds before the wake-up arrives
                ("wake", [1, "signal", 3, 260]), ("wake", [2, "signal", 2, 130]), ("wake", [3, "broadcast", 3, 260]),
                # many wake-ups inside one critical section (the waiters cannot run in between): counts around powers of two
                ("wake", [1, "signal", 2, 0, 256]), ("wake", [3, "broadcast", 2, 0, 256]), ("wake", [2, "signal", 1, 0, 512]), ("wake", [1, "broadcast", 1, 0, 1024]), ("wake", [3, "signal", 1, 0, 255])]
    else:
        for p_ in (1, 2, 4, 8):
            for c_ in (1, 3, 8):
                for cap in (1, 2, 5):
                    runs.append(("pc", [p_, c_, cap, 40, 6]))
        for n in (1, 2, 3, 5, 8):
            runs.append(("wake", [n, "signal", 30]))
            runs.append(("wake", [n, "broadcast", 30]))
            for burst in (2, 128, 256, 257, 512, 1024, 4096, 65536):
                runs.append(("wake", [n, "signal", 1, 0, burst]))
                runs.append(("wake", [n, "broadcast", 1, 0, burst]))
            for hold in (60, 130, 260, 520):
                runs.append(("wake", [n, "signal", 3, hold]))
                runs.append(("wake", [n, "broadcast", 3, hold]))
    # generation scenario: events as fast as possible, wake-ups issued outside the critical section, waiters in predicate loops (not logged;
    # the verdict is the watchdog's: an event that was broadcast and is not seen within 5 s)
    for n, how, rounds in ([(2, "broadcast", 60000), (3, "broadcast", 30000), (3, "signal", 10000)] if ctx.quick else [(2, "broadcast", 300000), (5, "broadcast", 100000), (3, "signal", 100000), (1, "signal", 100000)]):
        cmd = [exe, "gen", ctx.path("gen"), str(n), how, str(rounds)]
        rc, out, to = run_driver(cmd, timeout=120)
        if rc == 4:
            # watchdog-evident: it has to show again (the race is narrow: up to three more executions)
            again = False
            for _ in range(3):
                rc2, out2, to2 = run_driver(cmd, timeout=120)
                if rc2 == 4:
                    again, out = True, out2
                    break
            if again:
                ctx.violation("gen:lost-wakeup", "generation scenario (%d waiters, %s after leaving the critical section): %s" % (n, how, out.strip()[-200:]), [])
        elif rc != 0 or to:
            ctx.violation("gen:%s" % ("hang" if to else "crash"), "generation scenario rc=%s" % rc, [])
    # first-use scenario: a fresh condition variable per round, its first signal (without the mutex) races its first wait (not logged; watchdog verdict, must repeat)
    for how, rounds in ([("signal", 30000), ("broadcast", 15000)] if ctx.quick else [("signal", 300000), ("broadcast", 300000)]):
        cmd = [exe, "fresh", ctx.path("fresh"), "1", how, str(rounds)]
        rc, out, to = run_driver(cmd, timeout=300)
        if rc == 4:
            again = False
            for _ in range(3):
                rc2, out2, to2 = run_driver(cmd, timeout=300)
                if rc2 == 4:
                    again, out = True, out2
                    break
            if again:
                ctx.violation("fresh:lost-wakeup", "first-use scenario (%s): %s" % (how, out.strip()[-250:]), [])
        elif rc != 0 or to:
            rc2, out2, to2 = run_driver(cmd, timeout=300)
            if rc2 != 0 or to2:
                ctx.violation("fresh:%s" % ("hang" if to2 else "crash"), "first-use scenario rc=%s: %s" % (rc2, out2[-200:]), [])
    for i, (mode, a) in enumerate(runs):
        base = ctx.path("cv%d" % i)
        cmd = [exe, mode, base] + [str(x) for x in a] + ([str(rng.randint(1, 10 ** 6))] if mode == "pc" else [])
        label = "%s:%s" % (mode, "x".join(str(x) for x in a[:5]))
        rc, out, to = run_driver(cmd, timeout=90)
        if to or rc != 0:
            ctx.notes.append("first run of %s: rc=%s timeout=%s - repeating" % (label, rc, to))
            for f in os.listdir(ctx.rundir):
                if f.startswith("cv%d." % i):
                    os.unlink(ctx.path(f))
            rc, out, to = run_driver(cmd, timeout=90)
            if to:
                ctx.violation("%s:hang" % mode, "producer/consumer exchange or wake scenario %s did not complete within 90 s twice" % label, [])
                continue
            if rc != 0:
                ctx.violation("%s:crash" % mode, "drv_cond %s rc=%d: %s" % (label, rc, out[-300:]), [])
                continue
        p, evs = traces.merge(base)
        ctx.events += len(evs)
        stuck = [e for e in evs if e["e"] == "Stuck"]
        if stuck:
            # watchdog-evident: confirm by a second execution before trusting it
            for f in os.listdir(ctx.rundir):
                if f.startswith("cv%d." % i):
                    os.unlink(ctx.path(f))
            rc, out, to = run_driver(cmd, timeout=90)
            p, evs2 = traces.merge(base)
            if not [e for e in evs2 if e["e"] == "Stuck"]:
                ctx.notes.append("unreproduced_stall in %s (first run only)" % label)
                evs = evs2
            else:
                evs = evs2
        for ci, ch in enumerate(traces.split_at(evs, "Epoch", 6000 if mode == "wake" else 20000)):
            files.append((label, traces.write(ch, base + "_c%d.ndjson" % ci)))
    res = ctx.validate_many("sync/CondLin.tla", "CondLin.cfg", [f for _, f in files], par=6, timeout=900 if ctx.quick else 3000)
    for (label, f), (_, ok, matched) in zip(files, res):
        if not ok:
            ev = None
            try:
                ev = json.loads(open(f).read().split("\n")[matched[0]])
            except Exception:
                pass
            kind = "stuck" if ev and ev.get("e") == "Stuck" else "not-explained"
            ctx.violation("%s:%s" % (label.split(":")[0], kind),
                          "condition-variable history (%s) is not a behaviour of CondVar: %s; stuck at event %s: %s" % (
                              label, "a thread is still blocked in wait although a signal/broadcast had to wake it" if kind == "stuck" else "no linearization",
                              matched[0], json.dumps(ev)[:300]), [f])
    ctx.extra["histories"] = len(files)
    if files:
        for i, line in enumerate(open(files[0][1])):
            if i in (1, 2, 3, 4):
                ctx.sample(json.loads(line))
        # binding self-tests: (1) a critical-section access right after wait returned, by another thread (wait returned without the mutex);
        # (2) a Stuck event for a thread that was signalled
        evs = [json.loads(x) for x in open(files[0][1])]
        for i, e in enumerate(evs):
            if e["e"] == "cs":
                e["t"] = (e["t"] % 2) + 1 if e["t"] in (1, 2) else 1
                break
        p = traces.write(evs[: i + 10], ctx.path("selftest1.ndjson"))
        ok, matched, r = tlc.validate_trace("sync/CondLin.tla", p, cfg="CondLin.cfg")
        if ok:
            raise Machinery("self-test: data access by a non-owner accepted")
        wf = [f for lab, f in files if lab.startswith("wake") and "broadcast" in lab]
        if wf:
            evs = [json.loads(x) for x in open(wf[0])]
            # after the broadcast returns, claim that waiter 1 is stuck
            for i, e in enumerate(evs):
                if e["e"] == "ret" and e["t"] == 17 and i > 0 and evs[i - 1].get("op") == "broadcast":
                    cut = evs[: i + 1] + [{"e": "Stuck", "t": 1}]
                    p = traces.write(cut, ctx.path("selftest2.ndjson"))
                    ok, matched, r = tlc.validate_trace("sync/CondLin.tla", p, cfg="CondLin.cfg")
                    if ok:
                        raise Machinery("self-test: a waiter stuck after broadcast accepted")
                    break
        ctx.extra["selftest"] = "non-owner data access rejected; stuck-after-broadcast rejected"
    ctx.assumptions += ["Stuck events come from a 10 s watchdog in a scenario that normally takes microseconds and are confirmed by a second execution",
                        "real-thread histories are samples of the schedule space; the all-interleavings claim is proved on BoundedBuffer/CondVar by TLC"]
    ctx.exhaustive = False
