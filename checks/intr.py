"""C19: blocking calls are transparent to signal interruptions."""
import json, os
import build, tlc, traces, ipcnames
from core import Machinery, run_driver
import sock as socklib

WRAPS = ["clock_nanosleep", "nanosleep", "sem_wait", "sem_open", "shm_open", "close"]


def run(ctx):
    rng = ctx.rng
    prefix = "vf%d" % os.getpid()
    ctx.design_must_hold("sys/Interrupt.tla", expect_actions=["Issue", "Interrupted", "Completed"])
    exe = build.driver("drv_intr", ["drv_intr.c"], variant="default", wraps=WRAPS)
    scripts = []
    # (b) injected EINTR at every k-th invocation (k <= 4 consecutive interruptions) of each blocking system call
    for k in range(0, 5 if ctx.quick else 9):
        plan = lambda call: ["plan " + ",".join([call + ":EINTR"] * k)] if k else []
        scripts.append(("inject-sleep-%d" % k, plan("clock_nanosleep") + ["sleep %d" % rng.choice([5, 20, 40])]))
        scripts.append(("inject-sem-%d" % k, plan("sem_open") + ["semnew 2", "units 2"] + plan("sem_wait") + ["acquire"] + plan("sem_wait") + ["acquire", "release", "semfree"]))
        scripts.append(("inject-shm-%d" % k, plan("shm_open") + ["shmnew 64", "units 1"] + plan("sem_wait") + ["shmlock", "shmunlock"] + plan("sem_wait") + ["shmlock", "shmunlock", "shmfree"]))
        # the lock semaphore of a segment is opened inside p_shm_new as well
        scripts.append(("inject-shm-sem-%d" % k, ["plan " + ",".join(["shm_open:EINTR"] * (k // 2) + ["sem_open:EINTR"] * k)] * (1 if k else 0) + ["shmnew 64", "units 1", "shmlock", "shmunlock", "shmfree"]))
    # ... and at every later invocation: opening objects that exist already takes other branches (exclusive creation fails first, then the
    # plain open; CREATE mode unlinks and creates again; a segment opens its lock semaphore as well)
    for pos in range(1, 5 if ctx.quick else 7):
        for k in ((1, 3) if ctx.quick else (1, 2, 3, 5)):
            pl = lambda call: "plan " + ",".join([call + ":OK"] * (pos - 1) + [call + ":EINTR"] * k)
            scripts.append(("inject-semopen-%d-%d" % (pos, k), ["semnew 1", pl("sem_open"), "semopen 1", "units 1", "acquire", "release", "semfree"]))
            scripts.append(("inject-semcreate-%d-%d" % (pos, k), ["semnew 1", pl("sem_open"), "semcreate 2", "units 2", "acquire", "release", "semfree"]))
            scripts.append(("inject-shmopen-%d-%d" % (pos, k), ["shmnew 64", pl("shm_open"), "shmopen 64", "units 1", "shmlock", "shmunlock", "shmfree"]))
            scripts.append(("inject-shmopen-sem-%d-%d" % (pos, k), ["shmnew 64", pl("sem_open"), "shmopen 64", "units 1", "shmlock", "shmunlock", "shmfree"]))
    # an interrupted close (the descriptor is released before the interruption is reported, and the handler that ran opened a file which got
    # that number): the library call succeeds as before and the handler's descriptor stays open - close is not issued again
    scripts.append(("inject-close-shm", ["plan close:EINTR", "shmnew 64", "units 1", "shmlock", "shmunlock", "plan close:EINTR", "shmopen 64", "shmfree"]))
    scripts.append(("inject-close-shm-2", ["shmnew 200", "plan close:EINTR", "shmopen 200", "units 1", "shmlock", "shmunlock", "shmfree"]))
    # (a) real signals: timer storms with a handler installed without SA_RESTART
    for period in ([300, 2000, 20000] if ctx.quick else [200, 300, 500, 700, 1000, 1500, 3000, 5000, 10000, 20000, 50000] * 3):
        scripts.append(("storm-sleep-%d" % period, ["storm %d" % period, "sleep 60", "sleep 5", "sleep 130", "storm 0"]))
        scripts.append(("storm-sem-%d" % period, ["storm %d" % period, "semnew 1", "units 1", "acquire", "releaseafter 80", "acquire", "join", "release", "acquire", "semfree", "storm 0"]))
        scripts.append(("storm-shm-%d" % period, ["storm %d" % period, "shmnew 128", "units 1", "shmlock", "shmunlockafter 80", "shmlock", "join", "shmunlock", "shmfree", "storm 0"]))
    files = []
    names = [prefix + "_intr"]
    try:
        for i, (label, lines) in enumerate(scripts):
            sp, tp = ctx.path("i%d.script" % i), ctx.path("i%d.ndjson" % i)
            open(sp, "w").write("\n".join(lines) + "\n")
            rc, out, to = run_driver([exe, sp, tp, prefix], timeout=60)
            if to or rc != 0:
                rc, out, to = run_driver([exe, sp, tp, prefix], timeout=60)
                if to or rc != 0:
                    ctx.violation("%s:%s" % (label.rsplit("-", 1)[0], "hang" if to else "crash"), "scenario %s: driver %s rc=%s %s" % (label, "hang" if to else "crash", rc, out[-300:]), [sp])
                    continue
            ctx.events += sum(1 for _ in open(tp))
            files.append((label, sp, tp))
            ipcnames.cleanup(names)
        res = ctx.validate_many("sys/InterruptTrace.tla", "InterruptTrace.cfg", [t for _, _, t in files], par=8)
        nint = 0
        for (label, sp, tp), (_, ok, matched) in zip(files, res):
            evs = [json.loads(x) for x in open(tp)]
            nint += sum(1 for e in evs if e["e"] == "isys" and e["eintr"] == 1)
            if ok:
                continue
            ev = evs[matched[0]] if matched[0] is not None and matched[0] < len(evs) else None
            what = ev["op"] if ev and "op" in ev else "?"
            ctx.violation("%s:%s" % (label.split("-")[0], what), "scenario %s: the interrupted call's outcome differs from the uninterrupted one: %s" % (label, json.dumps(ev)[:300]), [sp, tp])
        ctx.extra["interrupted_system_calls_observed"] = nint
        ctx.behaviours += len(files)
        # sockets under a real signal storm: the C09/C10 scenarios with parked receivers / acceptors, judged by SockTrace[io]
        sexe = build.driver("drv_sock", ["drv_sock.c"], variant="default", wraps=socklib.WRAPS)
        sscen = []
        for fam in (4, 6):
            for period in (400, 3000):
                sscen.append(["scenario", "storm %d" % period] + socklib.tcp_pair(fam) + ["bg recv 3 10", "sleepms 60", "send 2 4", "join", "bg accept 8 1", "sleepms 60", "new 9 %d tcp" % fam,
                              "connect 9 1", "join", "send 2 3000", "recv 3 5000", "set 3 timeout 50", "recv 3 10",
                              "set 3 timeout 400", "bg recv 3 10", "sleepms 200", "send 2 6", "join"] + socklib.udp_pair(fam) +
                             ["bg recvfrom 4 100", "sleepms 50", "sendto 5 4 7 60", "join", "storm 0"])
        # injected interruptions of the socket system calls themselves (no storm): connect restarted, waits resumed with what is left of the timeout
        for fam in (4, 6):
            for k in (1, 2, 4):
                sscen.append(["scenario", "new 1 %d tcp" % fam, "bind 1", "listen 1", "new 2 %d tcp" % fam, "plan " + ",".join(["connect:EINTR"] * k), "connect 2 1",
                              "plan " + ",".join(["poll:EINTR"] * k), "accept 3 1", "send 2 5", "plan " + ",".join(["poll:LATE40"] * k), "set 3 timeout 400", "recv 3 10",
                              "plan " + ",".join(["poll:LATE60"] * k), "set 3 timeout %d" % (60 * k + 120), "recv 3 10"])
        # the accept call itself interrupted (not the wait before it), on listeners with and without a timeout: the pending connection is still accepted
        for fam in (4, 6):
            for k in (1, 2):
                for T in (0, 500):
                    sscen.append(["scenario", "new 1 %d tcp" % fam, "bind 1", "listen 1", "set 1 timeout %d" % T, "new 2 %d tcp" % fam, "connect 2 1", "sleepms 20",
                                  "plan " + ",".join(["accept:EINTR"] * k), "accept 3 1", "send 2 5", "set 3 timeout 300", "recv 3 10"])
        # very long timeouts (hours: beyond 2^31 microseconds) with an interruption early in the wait: what is left of the timeout is still hours, the
        # call is served when the peer acts 150 ms later
        for fam in (4, 6):
            for T in (4295000, 8590000, 12884902, 2147484, 2147483647):
                sscen.append(["scenario"] + socklib.tcp_pair(fam) + ["set 3 timeout %d" % T, "plan poll:EINTR", "bg recv 3 10", "sleepms 150", "send 2 6", "join",
                              "plan poll:EINTR,poll:EINTR", "bg recv 3 10", "sleepms 100", "send 2 6", "join"])
        sp, tp = ctx.path("isock.script"), ctx.path("isock.ndjson")
        open(sp, "w").write("\n".join("\n".join(s) for s in sscen) + "\n")
        rc, out, to = run_driver([sexe, sp, tp], timeout=120)
        if rc != 0 or to:
            ctx.violation("socket:%s" % ("hang" if to else "crash"), "socket scenarios under a signal storm: rc=%s %s" % (rc, out[-300:]), [sp])
        else:
            ctx.events += sum(1 for _ in open(tp))
            ok, matched = socklib.validate_sock(ctx, "SockTrace_io.cfg", tp)
            if not ok:
                ev = [json.loads(x) for x in open(tp)][matched[0]]
                ctx.violation("socket:%s" % ev.get("op", "?"), "socket call under a signal storm: %s" % json.dumps(ev)[:300], [sp, tp])
            ctx.extra["socket_storm_scenarios"] = len(sscen)
        if files:
            for e in [json.loads(x) for x in open(files[0][2])][:4]:
                ctx.sample(e)
            # binding self-test: a sleep that returns early
            evs = [json.loads(x) for x in open([t for l, _, t in files if l.startswith("storm-sleep")][0])]
            for i, e in enumerate(evs):
                if e["e"] == "iret" and e["op"] == "sleep":
                    e["elapsed"] = 1
                    break
            p = traces.write(evs[: i + 1], ctx.path("selftest.ndjson"))
            ok, matched, r = tlc.validate_trace("sys/InterruptTrace.tla", p, cfg="InterruptTrace.cfg")
            if ok:
                raise Machinery("self-test: early return from sleep accepted")
            ctx.extra["selftest"] = "early sleep return rejected"
    finally:
        ipcnames.cleanup(names)
    ctx.assumptions += ["injected EINTR follows each system call's own convention (clock_nanosleep returns the error number, the others set errno)",
                        "real signals: SIGALRM from an interval timer, handler without SA_RESTART, delivered to the thread under test",
                        "sleep duration is judged as a lower bound with CLOCK_MONOTONIC"]
    ctx.exhaustive = False
