"""C07: PShm - same name = same bytes, system-wide lock, crash-recoverable."""
import json, os
import build, tlc, traces, ipcnames, behaviours
from core import Machinery, run_driver
from sem import WRAPS

UNIT = 64      # bytes per abstract size unit


def write_cfg(ctx, nnames):
    p = ctx.path("ShmTrace_run.cfg")
    open(p, "w").write("SPECIFICATION TSpec\nCONSTANTS Names = {%s}\n Hids = {11,12,13,21,22,23,31,32,33}\nCONSTRAINT HighWater\nPOSTCONDITION Accepted\nINVARIANT OneHolder\nCHECK_DEADLOCK FALSE\n"
                       % ",".join(str(i) for i in range(1, nnames + 1)))
    return p


class Gen:
    def __init__(self, rng, name0):
        self.rng, self.lines = rng, []
        self.seg = {}        # name -> [size, holder(p,h) or None] or absent
        self.h = {}          # (p,h) -> [name, own, rsize, segobj]
        self.blocked = {}
        self.name0 = name0

    def step(self):
        rng = self.rng
        p = rng.randint(1, 3)
        if p in self.blocked:
            return
        hs = [k for k in self.h if k[0] == p]
        slots = [i for i in (1, 2, 3) if (p, i) not in self.h]
        r = rng.random()
        if (r < 0.25 or not hs) and slots:
            i = rng.choice(slots)
            n = self.name0 + rng.randint(0, 1)
            if n in self.seg:
                real = self.seg[n][0]
                size = rng.choice([real, real, 0, real * 2, max(1, real // 2)])
                rs = real if size == 0 or size >= real else size
                self.h[(p, i)] = [n, False, rs, self.seg[n]]
            else:
                if rng.random() < 0.25:
                    # a creation that cannot succeed (zero size / a size no system grants) must fail without leaving the name behind
                    self.lines.append("P %d shmnew %d %d %d" % (p, i, n, rng.choice([0, 1 << 50])))
                    return
                size = rng.choice([1, 17, 64, 100, 4096, 5000])
                self.seg[n] = [size, None]
                self.h[(p, i)] = [n, True, size, self.seg[n]]
            self.lines.append("P %d shmnew %d %d %d" % (p, i, n, size))
            return
        if not hs:
            return
        k = rng.choice(hs)
        n, own, rs, so = self.h[k]
        if r < 0.45:
            off = rng.choice([0, rs - 1, rng.randint(0, rs - 1)])
            self.lines.append("P %d shmw %d %d %d" % (k[0], k[1], off, rng.randint(1, 255)))
        elif r < 0.65:
            off = rng.choice([0, rs - 1, rng.randint(0, rs - 1)])
            self.lines.append("P %d shmr %d %d" % (k[0], k[1], off))
        elif r < 0.7:
            self.lines.append("P %d shmsize %d" % k)
        elif r < 0.8:
            if so[1] is None:
                so[1] = k
                self.lines.append("P %d shmlock %d" % k)
            elif so[1][0] != p and len(self.blocked) < 2 and not any(self.h[k2][3] is so for k2 in self.blocked.values()):
                self.lines.append("A %d shmlock %d" % k)
                self.lines.append("T %d" % p)
                self.blocked[p] = k
        elif r < 0.88:
            if so[1] == k:
                self.lines.append("P %d shmunlock %d" % k)
                so[1] = None
                self.grant(so)
        elif r < 0.92:
            self.lines.append("P %d shmown %d" % k)
            self.h[k][1] = True
        elif so[1] != k:
            self.lines.append("P %d shmfree %d" % k)
            if self.h[k][1] and self.seg.get(n) is so:
                del self.seg[n]
            elif self.h[k][1] and n in self.seg:
                del self.seg[n]
            del self.h[k]

    def grant(self, so):
        for p, k in list(self.blocked.items()):
            if self.h[k][3] is so and so[1] is None:
                so[1] = k
                self.lines.append("W %d" % p)
                del self.blocked[p]
                return

    def finish(self):
        progress = True
        while self.blocked and progress:          # in dependency order: a holder that is itself blocked cannot unlock yet
            progress = False
            for p, k in list(self.blocked.items()):
                so = self.h[k][3]
                holder = so[1]
                if holder and holder in self.h and holder[0] not in self.blocked:
                    self.lines.append("P %d shmunlock %d" % holder)
                    so[1] = None
                    self.grant(so)
                    progress = True
                    break
        for k, v in list(self.h.items()):
            if k[0] in self.blocked:
                continue
            if v[3][1] == k:
                self.lines.append("P %d shmunlock %d" % k)
                v[3][1] = None
        for p in list(self.blocked):
            self.lines.append("K %d" % p)
            for x in [x for x in self.h if x[0] == p]:
                del self.h[x]
        for k in list(self.h):
            self.lines.append("P %d shmfree %d" % k)
        for n in (self.name0, self.name0 + 1):
            self.lines += ["P 1 shmnew 3 %d 16" % n, "P 1 shmown 3", "P 1 shmfree 3"]
        self.lines += ["obs", "epoch"]


def proto_walk_scripts(ctx):
    dump = ctx.path("g_shmproto")
    ctx.design_check("ipc/ShmProto.tla", cfg="ShmProto_all.cfg", coverage=False, dump=dump)
    g = behaviours.parse_dot(dump + ".dot")
    os.unlink(dump + ".dot")
    st = {nid: behaviours.parse_state(lab) for nid, lab in g.labels.items()}
    walks = behaviours.cover_walks_dag(g)
    out = []
    size = UNIT
    for wi, w in enumerate(walks):
        n = wi + 1
        lines = []
        src = g.init
        for lab, dst in w:
            name, args = behaviours.parse_label(lab)
            p = args[0]
            if name == "NewCall":
                lines.append("B %d shmnew 1 %d %d" % (p, n, size))
            elif name in ("ShmOpenExcl", "ShmOpenPlain", "Fstat", "Ftruncate", "Mmap", "SemExcl", "SemUnlink", "SemPlain"):
                lines.append("S %d" % p)
            elif name in ("FailClean", "FailVanished", "NewOk"):
                lines.append("F %d" % p)
            elif name == "Crash":
                lines.append("K %d" % p)
            else:
                raise Machinery("unknown ShmProto action " + lab)
            src = dst
        fin = st[src]
        for p in (1, 2):
            if fin["pr"][p - 1]["alive"] and fin["pr"][p - 1]["pc"] not in ("idle", "open"):
                lines.append("F %d" % p)
        live = [p for p in (1, 2) if fin["pr"][p - 1]["pc"] == "open" or (fin["pr"][p - 1]["alive"] and fin["pr"][p - 1]["pc"] not in ("idle",) and fin["pr"][p - 1]["result"] == "none")]
        live = [p for p in (1, 2) if fin["pr"][p - 1]["alive"] and fin["pr"][p - 1]["pc"] != "idle"]
        # the probes only make sense for handles that exist; a failed new leaves no handle and the child answers ok=0, so
        # only processes whose new is expected to succeed in the model are probed
        okp = [p for p in (1, 2) if fin["pr"][p - 1]["alive"] and fin["pr"][p - 1]["pc"] in ("open", "ok", "sem_excl", "sem_plain", "sem_unlink", "mmap", "trunc", "fstat", "plain", "excl")]
        if len(okp) == 2:
            lines += ["P 1 shmw 1 0 11", "P 2 shmr 1 0", "P 2 shmw 1 %d 22" % (size - 1), "P 1 shmr 1 %d" % (size - 1), "P 1 shmsize 1", "P 2 shmsize 1",
                      "P 1 shmlock 1", "A 2 shmlock 1", "T 2", "P 1 shmunlock 1", "W 2", "P 2 shmunlock 1"]
        elif len(okp) == 1:
            p = okp[0]
            lines += ["P %d shmw 1 0 11" % p, "P %d shmr 1 0" % p, "P %d shmsize 1" % p, "P %d shmlock 1" % p, "P %d shmunlock 1" % p]
        # everybody dies; documented recovery: open, take ownership, free, create afresh
        lines += ["K 1", "K 2", "P 3 shmnew 1 %d %d" % (n, size), "P 3 shmown 1", "P 3 shmfree 1",
                  "P 3 shmnew 1 %d %d" % (n, size * 2), "P 3 shmsize 1", "P 3 shmr 1 0", "P 3 shmfree 1", "obs", "epoch"]
        taint = sorted(fin["tainted"]["__set__"])
        out.append((lines, taint, n))
    return out, g


def cex_script(actions, n, size=UNIT):
    """TLC counterexample (list of (action, proc)) -> gated script with the two-handle probes and the recovery epilogue"""
    lines = []
    alive = {1: True, 2: True}
    for name, p in actions:
        if name == "NewCall":
            lines.append("B %d shmnew 1 %d %d" % (p, n, size))
        elif name in ("ShmOpenExcl", "ShmOpenPlain", "Fstat", "Ftruncate", "Mmap", "SemExcl", "SemUnlink", "SemPlain"):
            lines.append("S %d" % p)
        elif name in ("FailClean", "FailVanished", "NewOk"):
            lines.append("F %d" % p)
        elif name == "Crash":
            lines.append("K %d" % p)
            alive[p] = False
    lines += ["F 1", "F 2"]
    if alive[1] and alive[2]:
        lines += ["P 1 shmw 1 0 11", "P 2 shmr 1 0", "P 1 shmsize 1", "P 2 shmsize 1",
                  "P 1 shmlock 1", "A 2 shmlock 1", "T 2", "P 1 shmunlock 1", "W 2", "P 2 shmunlock 1"]
    lines += ["K 1", "K 2", "P 3 shmnew 1 %d %d" % (n, size), "P 3 shmown 1", "P 3 shmfree 1",
              "P 3 shmnew 1 %d %d" % (n, size * 2), "P 3 shmsize 1", "P 3 shmr 1 0", "P 3 shmfree 1", "obs", "epoch"]
    return lines


def inject_scripts(name0):
    """a system call inside p_shm_new is refused by the environment (descriptor table full, no memory, no space): the call may fail, but the
    segment that other processes use stays what it was (third process: same size, same bytes), and a failed creation leaves no name behind"""
    out = []
    n = name0
    for call, en, skip in (("shm_open", 24, 0), ("shm_open", 23, 1), ("mmap", 12, 0), ("sem_open", 24, 0), ("sem_open", 24, 1), ("ftruncate", 28, 0)):
        n += 1
        lines = ["P 1 shmnew 1 %d 4096" % n, "P 1 shmw 1 0 77", "P 1 shmw 1 4095 78",
                 "X 2 %s %d %d" % (call, en, skip), "P 2 shmnew 1 %d 4096" % n, "P 2 shmr 1 0", "P 2 shmfree 1",
                 "P 3 shmnew 1 %d 0" % n, "P 3 shmsize 1", "P 3 shmr 1 0", "P 3 shmr 1 4095", "P 3 shmlock 1", "P 3 shmunlock 1", "P 3 shmfree 1",
                 "P 1 shmr 1 0", "P 1 shmfree 1", "P 1 shmnew 3 %d 16" % n, "P 1 shmown 3", "P 1 shmfree 3", "obs", "epoch"]
        out.append(lines)
        # the same refusals while the name is created
        n += 1
        lines = ["X 1 %s %d %d" % (call, en, skip), "P 1 shmnew 1 %d 4096" % n, "P 1 shmfree 1", "P 2 shmnew 1 %d 100" % n, "P 2 shmsize 1", "P 2 shmr 1 0", "P 2 shmfree 1",
                 "P 1 shmnew 3 %d 16" % n, "P 1 shmown 3", "P 1 shmfree 3", "obs", "epoch"]
        out.append(lines)
    return out, n


def failing_creation_scripts(name0):
    """a creation that cannot succeed (size 0) is stopped at the system-call gates behind its clean-up; another process creates and fills the same name at that moment;
    the failing call then runs to its end - it must not touch what the other process made"""
    out = []
    n = name0
    # (only from the gate behind the first shm_unlink on: while the zero-length segment of the failing creation exists, a second creator runs
    # into the recorded finding "zero-size-seen")
    for k in (4, 5, 6, 7):
        n += 1
        lines = ["B 1 shmnew 1 %d 0" % n] + ["S 1"] * k + ["P 2 shmnew 1 %d 4096" % n, "P 2 shmw 1 0 55", "P 2 shmw 1 4095 56", "F 1",
                 "P 3 shmnew 1 %d 0" % n, "P 3 shmsize 1", "P 3 shmr 1 0", "P 3 shmr 1 4095", "P 3 shmlock 1", "P 3 shmunlock 1", "P 3 shmfree 1", "P 2 shmr 1 0", "P 2 shmfree 1",
                 "P 1 shmfree 1", "P 1 shmnew 3 %d 16" % n, "P 1 shmown 3", "P 1 shmfree 3", "obs", "epoch"]
        out.append(lines)
    return out, n


def free_race_scripts(name0):
    """an opener is stopped between its two shm_open calls (exclusive creation refused, plain open not yet made, ...) while the owner frees the
    segment: whatever the opener's call returns, afterwards the name is free and the next p_shm_new makes a fresh segment of the requested size"""
    out = []
    n = name0
    for k in (1, 2, 3):
        n += 1
        lines = ["P 1 shmnew 1 %d 4096" % n, "P 1 shmw 1 0 55", "B 2 shmnew 1 %d 4096" % n] + ["S 2"] * k + ["P 1 shmfree 1", "F 2", "P 2 shmfree 1",
                 "P 3 shmnew 1 %d 12288" % n, "P 3 shmsize 1", "P 3 shmr 1 0", "P 3 shmw 1 12287 9", "P 3 shmr 1 12287", "P 3 shmlock 1", "P 3 shmunlock 1", "P 3 shmfree 1",
                 "P 1 shmnew 3 %d 16" % n, "P 1 shmown 3", "P 1 shmfree 3", "obs", "epoch"]
        out.append(lines)
    return out, n


def lock_crash_scripts(name0):
    """a process is killed while it holds the segment lock (as creator or as opener, with a second handle around or not); after the documented
    clean-up the next p_shm_new makes a fresh segment whose lock is free"""
    out = []
    n = name0
    for who in ("creator", "opener", "owner-opener"):
        n += 1
        lines = ["P 1 shmnew 1 %d 512" % n, "P 2 shmnew 1 %d 512" % n]
        p = 1 if who == "creator" else 2
        if who == "owner-opener":
            lines.append("P 2 shmown 1")
        lines += ["P %d shmlock 1" % p, "P %d shmw 1 5 77" % p, "K %d" % p, "K %d" % (3 - p),
                  "P 3 shmnew 1 %d 512" % n, "P 3 shmown 1", "P 3 shmfree 1",
                  "P 3 shmnew 1 %d 2048" % n, "P 3 shmsize 1", "P 3 shmr 1 5", "A 3 shmlock 1", "W 3", "P 3 shmw 1 2047 3", "P 3 shmunlock 1",
                  "P 1 shmnew 2 %d 0" % n, "A 1 shmlock 2", "W 1", "P 1 shmr 2 2047", "P 1 shmunlock 2", "P 1 shmfree 2", "P 3 shmfree 1", "obs", "epoch"]
        out.append(lines)
    return out, n


def readonly_scripts(name0):
    """a handle asked for with read-only access is a handle like any other: as the first one it creates the segment (size as asked, zero-filled),
    as a later one it sees what the others store; the lock works through it"""
    out = []
    n = name0
    for size in (1, 100, 4096, 5000):
        n += 1
        out.append(["P 1 shmnewro 1 %d %d" % (n, size), "P 1 shmsize 1", "P 1 shmr 1 0", "P 2 shmnew 1 %d %d" % (n, size), "P 2 shmsize 1", "P 2 shmw 1 %d 77" % (size - 1),
                    "P 1 shmr 1 %d" % (size - 1), "P 1 shmlock 1", "A 2 shmlock 1", "T 2", "P 1 shmunlock 1", "W 2", "P 2 shmunlock 1",
                    "P 3 shmnewro 1 %d 0" % n, "P 3 shmsize 1", "P 3 shmr 1 %d" % (size - 1), "P 3 shmfree 1", "P 2 shmfree 1", "P 1 shmfree 1",
                    "P 3 shmnew 1 %d %d" % (n, size + 10), "P 3 shmsize 1", "P 3 shmr 1 %d" % (size - 1), "P 3 shmown 1", "P 3 shmfree 1", "obs", "epoch"])
    return out, n


def free_crash_scripts(name0):
    out = []
    n = name0
    for owner in (0, 1):
        for k in range(0, 6):
            n += 1
            lines = ["P 2 shmnew 1 %d 128" % n, "P 1 shmnew 1 %d 128" % n]
            if owner:
                lines.append("P 1 shmown 1")
            lines += ["P 1 shmw 1 3 33", "B 1 shmfree 1"] + ["S 1"] * k + ["K 1", "K 2",
                      "P 3 shmnew 1 %d 128" % n, "P 3 shmown 1", "P 3 shmfree 1", "P 3 shmnew 1 %d 256" % n, "P 3 shmsize 1", "P 3 shmr 1 3", "P 3 shmfree 1", "obs", "epoch"]
            out.append((lines, ["crash-in-free"], n))
    return out, n


def run(ctx):
    rng = ctx.rng
    prefix = "vf%d_names_that_share_a_long_common_prefix" % os.getpid()      # names differ only in their last characters
    # ---- M1
    ctx.design_must_hold("ipc/ShmAbs.tla", expect_actions=["MNew", "MWrite", "MLockCall", "MLockLin", "MUnlock", "MOwn", "MFree"])
    ctx.design_must_hold("ipc/ShmProto.tla", cfg="ShmProto_race_excl.cfg", coverage=False)
    ctx.design_must_hold("ipc/ShmProto.tla", cfg="ShmProto_crash_excl.cfg", coverage=False)
    model_findings = {}
    import re
    cex = []
    for c, inv, pat in (("race", "NewSucceeds", "zero-size-seen"), ("race2", "OneLock", "follower-created-lock"), ("crash", "Recoverable", "crash-in-zero-window")):
        r = ctx.design_check("ipc/ShmProto.tla", cfg="ShmProto_%s.cfg" % c, coverage=False, workers=1)
        model_findings[c] = "holds" if r.ok else "violated: %s" % r.violated_name
        if not r.ok:
            i = r.out.find("Error: Invariant")
            acts = [(a, int(p_)) for a, p_ in re.findall(r"State \d+: <(\w+)\((\d)\)", r.out[i:])]
            cex.append((acts, pat))
    ctx.extra["design_level_findings"] = model_findings
    exe = build.driver("drv_ipc", ["drv_ipc.c"], variant="default", wraps=WRAPS)
    scripts = []
    pw, g = proto_walk_scripts(ctx)
    if ctx.quick:
        # all walks that end in a finding pattern plus a sample of the clean ones
        clean = [w for w in pw if not w[1]]
        rng.shuffle(clean)
        pw = [w for w in pw if w[1]][:30] + clean[:40]
    for lines, taint, n in pw:
        scripts.append(("proto", lines, taint))
    nmax = max(n for _, _, n in pw) if pw else 0
    for acts, pat in cex:
        nmax += 1
        scripts.append(("proto", cex_script(acts, nmax), [pat]))
    fc, nmax = free_crash_scripts(nmax)
    for lines, taint, n in fc:
        scripts.append(("freecrash", lines, []))
    fcr, nmax = failing_creation_scripts(nmax)
    for lines in fcr:
        scripts.append(("failcreate", lines, []))
    ros, nmax = readonly_scripts(nmax)
    for lines in ros:
        scripts.append(("readonly", lines, []))
    lcs, nmax = lock_crash_scripts(nmax)
    for lines in lcs:
        scripts.append(("lockcrash", lines, []))
    frs, nmax = free_race_scripts(nmax)
    for lines in frs:
        scripts.append(("freerace", lines, []))
    inj, nmax = inject_scripts(nmax)
    for lines in inj:
        scripts.append(("inject", lines, []))
    for i in range(10 if ctx.quick else 100):
        gen = Gen(rng, nmax + 1)
        nmax += 2
        for _ in range(rng.randint(10, 70)):
            gen.step()
        gen.finish()
        scripts.append(("hist", gen.lines, []))
    cfg = write_cfg(ctx, nmax + 2)
    names = ["%s_%d" % (prefix, n) for n in range(1, nmax + 3)]
    ctx.extra["proto_replay"] = {"graph_states": len(g.labels), "graph_edges": g.nedges, "walks_run": len(pw)}
    try:
        # one driver run and one trace per scenario: a rejected scenario must not hide the next one
        jobs = []
        for i, (kind, lines, taint) in enumerate(scripts):
            sp, tp = ctx.path("m%d.script" % i), ctx.path("m%d.ndjson" % i)
            open(sp, "w").write("\n".join(lines) + "\n")
            rc, out, to = run_driver([exe, sp, tp, prefix, "3"], timeout=300)
            if rc != 0 or to:
                ctx.violation("driver:%s" % ("hang" if to else "crash"), "drv_ipc rc=%s: %s" % (rc, out[-400:]), [sp])
                continue
            jobs.append((kind, sp, tp, taint))
            ctx.events += sum(1 for _ in open(tp))
        # concatenate accepted-looking scenarios for speed: scenarios are independent (Epoch resets the model), but a rejection
        # would hide the rest of a file, so finding-pattern scenarios are validated one by one and the others in groups
        singles = [j for j in jobs if j[3]]
        rest = [j for j in jobs if not j[3]]
        groups = [rest[i:i + 12] for i in range(0, len(rest), 12)]
        files = []
        for gi, grp in enumerate(groups):
            p = ctx.path("grp%d.ndjson" % gi)
            with open(p, "w") as fh:
                for j in grp:
                    fh.write(open(j[2]).read())
            files.append((p, grp))
        for j in singles:
            files.append((j[2], [j]))
        res = ctx.validate_many("ipc/ShmTrace.tla", cfg, [f for f, _ in files], par=8)
        again = []
        for (f, grp), (_, ok, matched) in zip(files, res):
            if ok:
                continue
            if len(grp) > 1:
                again += grp
                continue
            report(ctx, grp[0], f, matched)
        if again:
            res2 = ctx.validate_many("ipc/ShmTrace.tla", cfg, [j[2] for j in again], par=8)
            for j, (_, ok, matched) in zip(again, res2):
                if not ok:
                    report(ctx, j, j[2], matched)
        ctx.behaviours += len(jobs)
        ctx.extra["scenarios"] = {k: sum(1 for j in jobs if j[0] == k) for k in ("proto", "freecrash", "hist")}
        hist = [j for j in jobs if j[0] == "hist"]
        if hist:
            for i, line in enumerate(open(hist[0][2])):
                if i < 4:
                    ctx.sample(json.loads(line))
            evs = [json.loads(x) for x in open(hist[0][2])]
            for i, e in enumerate(evs):
                if e["e"] == "ret" and e["op"] == "shmr":
                    e["val"] = (e["val"] + 1) % 256
                    break
            p = traces.write(evs[: i + 2], ctx.path("selftest.ndjson"))
            ok, matched, r = tlc.validate_trace("ipc/ShmTrace.tla", p, cfg=cfg)
            if ok:
                raise Machinery("self-test: wrong byte read accepted")
            ctx.extra["selftest"] = "wrong byte read rejected"
        # lock as one system-wide mutex: free-running actors (threads / processes), histories judged by LockLin
        cexe = build.driver("drv_shm_conc", ["drv_shm_conc.c"], variant="default")
        lfiles = []
        for ci, (nact, procs) in enumerate([(3, 0), (4, 1), (6, 1)] if ctx.quick else [(n, pr) for n in (2, 4, 8) for pr in (0, 1)]):
            nm = "%s_L%d" % (prefix, ci)
            names.append(nm)
            base = ctx.path("L%d" % ci)
            cmd = [cexe, base, nm, str(nact), "4", str(80 if ctx.quick else 200), str(procs), str(rng.randint(1, 10 ** 6))]
            rc, out, to = run_driver(cmd, timeout=90)
            if to or rc != 0:
                for f in os.listdir(ctx.rundir):
                    if f.startswith("L%d." % ci):
                        os.unlink(ctx.path(f))
                rc, out, to = run_driver(cmd, timeout=90)
                if to or rc != 0:
                    ctx.violation("lock:%s" % ("stuck" if to else "crash"), "%d actors incrementing a counter under p_shm_lock did not finish (rc=%s) twice: %s" % (nact, rc, out[-200:]), [])
                    continue
            pth, evs = traces.merge(base, annotate={"res": "xres"})
            ctx.events += len(evs)
            lfiles.append(pth)
        lres = ctx.validate_many("sync/LockLin.tla", "LockLin_rw.cfg", lfiles, par=6, timeout=900)
        for f, ok, matched in lres:
            if not ok:
                ctx.violation("lock:not-a-mutex", "p_shm_lock history has no linearization as one mutex with visible critical-section writes (stuck at event %s)" % matched[0], [f])
        ctx.extra["lock_histories"] = len(lfiles)
        # threads of one process creating different segments at the same moment, then reading each other's
        nexe = build.driver("drv_shm_names", ["drv_shm_names.c"], variant="default")
        nprefix = prefix + "_n"
        names += ["%s_%d" % (nprefix, n) for n in (1, 2, 3)]
        base = ctx.path("names")
        cmd = [nexe, base, nprefix, str(120 if ctx.quick else 1200), str(rng.randint(1, 10 ** 6))]
        rc, out, to = run_driver(cmd, timeout=120)
        if to or rc != 0:
            ipcnames.cleanup(names)
            for f in os.listdir(ctx.rundir):
                if f.startswith("names."):
                    os.unlink(ctx.path(f))
            rc, out, to = run_driver(cmd, timeout=120)
        if to or rc != 0:
            ctx.violation("names:%s" % ("stuck" if to else "crash"), "threads creating different segments at the same moment did not finish (rc=%s) twice: %s" % (rc, out[-300:]), [])
        else:
            pth, evs = traces.merge(base)
            ctx.events += len(evs)
            nfiles = [traces.write(ch, base + "_c%d.ndjson" % ci) for ci, ch in enumerate(traces.split_at(evs, "Epoch", 6000))]
            for f, ok, matched in ctx.validate_many("ipc/ShmTrace.tla", cfg, nfiles, par=6, timeout=900):
                if not ok:
                    ev = [json.loads(x) for x in open(f)][matched[0]]
                    ctx.violation("names:%s" % ev.get("op", ev["e"]), "segments created at the same moment by threads of one process are not independent objects: ShmTrace rejects event %s: %s" % (matched[0], json.dumps(ev)[:300]), [f])
    finally:
        left = ipcnames.leftovers(names)
        ipcnames.cleanup(names)
        ctx.extra["ipc_names_removed_by_check"] = len(left)
    ctx.assumptions += ["pshm-sysv.c is not build-selectable on this platform and is not checked",
                        "two creators / one name / one size for the exhaustive system-call interleavings; other histories are seeded random"]
    ctx.exhaustive = False


def report(ctx, job, f, matched):
    kind, sp, tp, taint = job
    evs = [json.loads(x) for x in open(f)]
    ev = evs[matched[0]] if matched[0] is not None and matched[0] < len(evs) else None
    what = "?"
    if ev and ev.get("e") == "ret":
        what = "%s-%s" % (ev["op"], "fails" if ev.get("ok") == 0 else "wrong")
    elif ev and ev.get("e") == "Stuck":
        what = "stuck"
    primary = "none"
    for pat in ("crash-in-zero-window", "zero-size-seen", "follower-created-lock", "crash-in-free"):
        if pat in taint:
            primary = pat
            break
    sig = "%s:%s:%s" % (kind, primary, what)
    ctx.violation(sig, "shared-memory scenario rejected by ShmTrace after %s of %s events: %s; system-call pattern: %s" % (matched[0], matched[1], json.dumps(ev)[:300], taint or "none"), [sp, tp])
