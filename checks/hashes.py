"""C11: PCryptoHash equals the standard digest of the concatenated updates, however chunked."""
import hashlib, json, os, sys
import build, tlc, behaviours, traces
from core import Machinery, run_driver

ALGS = {0: ("md5", 64), 1: ("sha1", 64), 2: ("sha224", 64), 3: ("sha256", 64), 4: ("sha384", 128), 5: ("sha512", 128),
        6: ("sha3_224", 144), 7: ("sha3_256", 136), 8: ("sha3_384", 104), 9: ("sha3_512", 72), 10: ("gost", 32)}
_pat_cache = {}


SPECIAL = (1000, 1001, 1002, 1003, 1004)


def pick_seed(rng):
    """chunk content class: mostly the pseudo-random pattern, sometimes content made of extreme words (carry chains in the word arithmetic)"""
    return rng.choice(SPECIAL) if rng.random() < 0.3 else rng.randint(0, 255)


def sbyte(i, seed):
    if seed == 1000:
        return 0xff
    if seed == 1001:
        return 0x00
    if seed == 1002:
        return 0x01 if i % 32 == 0 else 0xff
    if seed == 1003:
        return 0xff if (i // 4) % 2 == 0 else (0x01, 0x00, 0x00, 0x80)[i % 4]
    return 0x80 if i % 64 == 63 else 0xff          # 1004


def pattern(n, seed):
    if seed >= 1000:
        if n <= 4096:
            return bytes(sbyte(i, seed) for i in range(n))
        blk = bytes(sbyte(i, seed) for i in range(4096))      # all special patterns have a period dividing 4096
        return (blk * (n // 4096 + 1))[:n]
    if n <= 1 << 20:
        return bytes(((seed * 131 + i * 7 + (i >> 8) * 13) & 0xff) for i in range(n))
    blk = pattern(65536, seed)
    return blk   # callers that need more handle repetition themselves


def digest(alg, parts):
    """parts: list of (length, seed, big) ; returns hex"""
    name = ALGS[alg][0]
    if name == "gost":
        import gost3411
        data = b"".join(pattern(n, s) for n, s, big in parts)
        return gost3411.gost3411_94(data).hex()
    h = hashlib.new(name)
    for n, s, big in parts:
        if n <= 1 << 20:
            h.update(pattern(n, s))
        else:
            blk = pattern(65536, s)      # the pattern has period 65536
            full, rest = divmod(n, 65536)
            big_blk = blk * 256
            q, r = divmod(full, 256)
            for _ in range(q):
                h.update(big_blk)
            for _ in range(r):
                h.update(blk)
            h.update(blk[:rest])
    return h.hexdigest()


class Scen:
    def __init__(self, alg):
        self.alg = alg
        self.lines = ["scenario", "new %d" % alg]
        self.parts = []     # every non-empty chunk in order of its update call: (id, (len, seed, big))

    def upd(self, cid, n, seed):
        self.lines.append("upd %d %d %d" % (cid, n, seed))
        if n > 0:
            self.parts.append((cid, (n, seed, False)))

    def updbig(self, cid, log2, extra, seed):
        self.lines.append("updmap %d %d %d %d" % (cid, log2, extra, seed))
        self.parts.append((cid, ((1 << log2) + extra, seed, True)))

    def table(self):
        out = [{"alg": self.alg, "ch": [], "hex": digest(self.alg, [])}]
        k = len(self.parts)
        big = any(p[1][2] for p in self.parts)
        for i in range(k):
            if big and i not in getattr(self, "starts", {0}):
                continue          # scenarios with 4 GiB chunks: only the runs that can be asked for (from creation or from a reset on)
            for j in range(i + 1, k + 1):
                sub = self.parts[i:j]
                if any(p[1][2] for p in sub) and not (i == 0 or True):
                    continue
                out.append({"alg": self.alg, "ch": [p[0] for p in sub], "hex": digest(self.alg, [p[1] for p in sub])})
        return out


def skeleton_scenarios(ctx, alg, rng, cid):
    """life-cycle skeletons = edge cover of the HashCtx design graph, chunk lengths drawn around the block size"""
    g = ctx._hash_graph
    B = ALGS[alg][1]
    scens = []
    for w in behaviours.cover_walks(g, max_walk=40, rng=rng):
        s = None
        for lab, dst in w:
            name, args = behaviours.parse_label(lab)
            if name == "HNew":
                s = Scen(alg)
                scens.append(s)
            elif s is None:
                continue
            elif name == "HUpdate":
                cid[0] += 1
                n = 0 if args[1] == 0 else rng.choice([1, B - 1, B, B + 1, 2 * B + 1, rng.randint(1, 3 * B)])
                s.upd(cid[0], n, pick_seed(rng))
            elif name == "HGet":
                s.lines.append(rng.choice(["gets", "getd"]))
            elif name == "HReset":
                s.lines.append("reset")
            elif name == "HFree":
                s.lines.append("free")
                s = None
    return scens


def pair_scenarios(alg, rng, cid, quick):
    """every pair (bytes already buffered b, chunk length l) around the block / padding boundaries"""
    B = ALGS[alg][1]
    if quick:
        bs = sorted(set([0, 1, B // 2, B - 17, B - 9, B - 8, B - 2, B - 1]))
        ls = lambda b: sorted(set([0, 1, B - b - 1, B - b, B - b + 1, B, 2 * B - b, 2 * B + 1, rng.randint(0, 2 * B + 1)]))
    else:
        bs = range(0, B)
        ls = lambda b: range(0, 2 * B + 2) if b % 7 == 0 or b >= B - 18 else sorted(set([0, 1, B - b - 1, B - b, B - b + 1, B, 2 * B - b, 2 * B + 1]))
    out = []
    for b in bs:
        for l in ls(b):
            if l < 0:
                continue
            s = Scen(alg)
            cid[0] += 1; s.upd(cid[0], b, pick_seed(rng))
            cid[0] += 1; s.upd(cid[0], l, pick_seed(rng))
            s.lines += ["gets", "getd"]
            cid[0] += 1; s.upd(cid[0], 5, 1)        # ignored: digest was read
            s.lines += ["gets", "len", "reset"]
            cid[0] += 1; s.upd(cid[0], l, pick_seed(rng))
            s.lines += ["getd", "free"]
            out.append(s)
    return out


def run(ctx):
    rng = ctx.rng
    dump = ctx.path("g_hashctx")
    ctx.design_must_hold("data/HashCtx.tla", dump=dump, expect_actions=["HNew", "HUpdate", "HGet", "HReset", "HFree"])
    ctx._hash_graph = behaviours.parse_dot(dump + ".dot")
    try:
        import gost3411  # noqa: F401
        have_gost = gost3411.gost3411_94(b"").hex() == "981e5f3ca30c841487830f84fb433e13ac1101569b9c13584ac483234cd656c0"
    except Exception:
        have_gost = False
    if not have_gost:
        ctx.notes.append("no GOST R 34.11-94 reference available: GOST digests not checked in this run")
    exe = build.driver("drv_hash", ["drv_hash.c"], variant="asan")
    exe_plain = build.driver("drv_hash", ["drv_hash.c"], variant="default", opt="-O2")
    cid = [0]
    jobs = []
    for alg in sorted(ALGS):
        if alg == 10 and not have_gost:
            continue
        scens = skeleton_scenarios(ctx, alg, rng, cid) + pair_scenarios(alg, rng, cid, ctx.quick)
        if alg == 10 and not ctx.quick:
            scens = scens[:400]      # the pure-Python reference is slow
        # long messages across many blocks, multi-chunk
        for _ in range(3 if ctx.quick else 20):
            s = Scen(alg)
            for _ in range(rng.randint(2, 6)):
                cid[0] += 1
                s.upd(cid[0], rng.choice([0, 1, 1000, 4096, 65535, 65536, 70001]) if alg != 10 else rng.choice([0, 1, 31, 32, 33, 500]), pick_seed(rng))
            s.lines += ["gets", "free"]
            scens.append(s)
        # memory runs out inside a read: the call gives nothing, the next reads give the digest (and an update in between is ignored)
        for _ in range(2):
            s = Scen(alg)
            cid[0] += 1; s.upd(cid[0], rng.choice([3, 64, 200]) if alg != 10 else rng.choice([3, 32, 70]), pick_seed(rng))
            s.lines += ["getsfail", "gets", "getd", "gets", "reset"]
            s.starts = {0, len(s.parts)}
            cid[0] += 1; s.upd(cid[0], 5, 7)
            s.lines += ["getsfail", "getd", "free"]
            scens.append(s)
        if alg in ((0, 1, 3) if ctx.quick else (0, 1, 3, 5, 7)):
            # single updates of 2^32 bytes and more (the byte counters of the 64-byte-block algorithms are two 32-bit words); after such a
            # message the object is reset and used again - "since the last reset" must hold whatever was hashed before
            for extra in ((1,) if ctx.quick else (0, 1, 65)):
                s = Scen(alg)
                s.starts = {0}
                cid[0] += 1; s.upd(cid[0], 3, 9)
                cid[0] += 1; s.updbig(cid[0], 32, extra, 77)
                s.lines += ["gets", "reset"]
                s.starts.add(len(s.parts))
                cid[0] += 1; s.upd(cid[0], 3, 5)
                s.lines += ["gets", "getd", "reset", "gets", "free"]
                s.starts.add(len(s.parts))
                scens.append(s)
        if alg in ((0, 1, 2, 3, 4, 5) if ctx.quick else tuple(range(0, 10))):
            # long messages: the total length since the last reset passes 2^26 and 2^29 bytes (every bit of the byte counter that is moved
            # when the length is turned into a bit count), in one object that is reset in between
            s = Scen(alg)
            s.starts = {0}
            cid[0] += 1; s.upd(cid[0], 5, 9)
            cid[0] += 1; s.updbig(cid[0], 26, 0, 31)
            s.lines += ["gets", "reset"]
            s.starts.add(len(s.parts))
            cid[0] += 1; s.upd(cid[0], 1, 5)
            cid[0] += 1; s.updbig(cid[0], 29, 4, 32)
            s.lines += ["gets", "reset"]
            s.starts.add(len(s.parts))
            if not ctx.quick:
                for lg, extra in ((27, 12345), (30, 1), (31, 9)):
                    cid[0] += 1; s.updbig(cid[0], lg, extra, 33)
                    s.lines += ["gets", "reset"]
                    s.starts.add(len(s.parts))
            s.lines += ["free"]
            scens.append(s)
        jobs.append((alg, scens))
    files = []
    # one job per (algorithm, part); scenarios with 4 GiB updates form parts of their own and run on the plain build (run in parallel:
    # the oracle's hashlib calls release the interpreter lock)
    parts = []
    for alg, scens in jobs:
        small = [s for s in scens if not any(p[1][2] for p in s.parts)]
        bigs = [s for s in scens if any(p[1][2] for p in s.parts)]
        for part, i0 in enumerate(range(0, len(small), 400)):
            parts.append((alg, "%d" % part, small[i0:i0 + 400], exe))
        for bi, sc in enumerate(bigs):
            parts.append((alg, "big%d" % bi, [sc], exe_plain))

    def run_part(pt):
        alg, tag, sub, ex_ = pt
        sp, tp, tb = ctx.path("h%d_%s.script" % (alg, tag)), ctx.path("h%d_%s.ndjson" % (alg, tag)), ctx.path("h%d_%s.table" % (alg, tag))
        open(sp, "w").write("\n".join("\n".join(s.lines) for s in sub) + "\n")
        seen = set()
        with open(tb, "w") as fh:
            for s in sub:
                for rec in s.table():
                    k = (rec["alg"], tuple(rec["ch"]))
                    if k not in seen:
                        seen.add(k)
                        fh.write(json.dumps(rec) + "\n")
        rc, out, to = run_driver([ex_, sp, tp], timeout=1800)
        if rc != 0 or to:
            kind = "hang" if to else ("memory-error" if "Sanitizer" in out or "runtime error" in out else "crash")
            return ("violation", "%s:%s" % (ALGS[alg][0], kind), "drv_hash %s: %s" % (kind, out[-500:]), [sp])
        return ("file", (alg, sp, tp, tb, len(sub)), sum(1 for _ in open(tp)))
    from concurrent.futures import ThreadPoolExecutor as _TPE
    with _TPE(8) as ex:
        outcomes = list(ex.map(run_part, parts))
    for o in outcomes:
        if o[0] == "violation":
            ctx.violation(o[1], o[2], o[3])
        else:
            files.append(o[1])
            ctx.events += o[2]
    from concurrent.futures import ThreadPoolExecutor
    def val(f):
        return ctx.validate("data/HashTrace.tla", "HashTrace.cfg", f[2], env={"TABLE": f[3]}, timeout=1800)
    with ThreadPoolExecutor(8) as ex:
        res = list(ex.map(val, files))
    for f, (ok, matched) in zip(files, res):
        if ok:
            ctx.behaviours += f[4]
            continue
        evs = [json.loads(x) for x in open(f[2])]
        ev = evs[matched[0]] if matched[0] is not None and matched[0] < len(evs) else None
        # look back for the updates of this scenario
        j = matched[0]
        ctxt = []
        while j is not None and j >= 0 and evs[j]["e"] != "Reset":
            if evs[j]["e"] == "upd":
                ctxt.append(evs[j]["len"])
            j -= 1
        big = any(n == 1 for n in ctxt) and any("updmap" in l for l in open(f[1]))
        sig = "%s:%s" % (ALGS[f[0]][0], "digest-after-4GiB-update" if _is_big(f[1], evs, matched[0]) else "digest")
        ctx.violation(sig, "%s: digest is not the standard digest of the accepted chunks (chunk lengths of the scenario, newest first: %s); event %s: %s" % (
            ALGS[f[0]][0], ctxt[:6], matched[0], json.dumps(ev)[:200]), [f[1], f[2], f[3]])
    ctx.extra["algorithms"] = [ALGS[a][0] for a, _ in jobs]
    ctx.extra["scenarios"] = sum(len(s) for _, s in jobs)
    if files:
        for i, line in enumerate(open(files[0][2])):
            if i in (1, 2, 3, 4):
                ctx.sample(json.loads(line))
        # binding self-test: one hex digit changed
        evs = [json.loads(x) for x in open(files[0][2])]
        for i, e in enumerate(evs):
            if e["e"] == "gets":
                e["hex"] = ("0" if e["hex"][0] != "0" else "1") + e["hex"][1:]
                break
        p = traces.write(evs[: i + 2], ctx.path("selftest.ndjson"))
        ok, matched, r = tlc.validate_trace("data/HashTrace.tla", p, cfg="HashTrace.cfg", env={"TABLE": files[0][3]})
        if ok:
            raise Machinery("self-test: wrong digest accepted")
        ctx.extra["selftest"] = "one changed hex digit rejected"
    ctx.assumptions += ["digest values come from an independent oracle (Python hashlib; own RFC 5831 reference for GOST): TLA+ decides life-cycle and chunk accounting only",
                        "chunk contents are a fixed pseudo-random pattern per (seed, length)"]
    ctx.exhaustive = False


def _is_big(script, evs, idx):
    # the failing scenario contains an updmap line iff the scenario index matches one with 'updmap'
    n = sum(1 for e in evs[: idx + 1] if e["e"] == "Reset")
    k = 0
    for line in open(script):
        if line.startswith("scenario"):
            k += 1
        if k == n and line.startswith("updmap"):
            return True
    return False
