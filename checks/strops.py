"""X02 (beyond the listed properties): PString helpers - p_strdup, p_strchomp and the tokenizer p_strtok follow specs/data/StrOps.tla."""
import itertools, json, os
import build, tlc, traces
from core import Machinery, run_driver


def hx(s):
    return "".join("%02x" % c for c in s) or "-"


def run(ctx):
    rng = ctx.rng
    # ---- M1: the operators themselves: the tokenizer yields the maximal runs of non-delimiters (every string <= 5 over 3 letters, every delimiter
    # set), evaluated by TLC as ASSUMEs when the module is loaded; a tokenizer that does not skip leading delimiters is told apart
    ctx.design_must_hold("data/StrOpsMC.tla", cfg="StrOpsMC.cfg", coverage=False)
    try:
        ctx.design_check("data/StrOpsBroken.tla", cfg="StrOpsMC.cfg", coverage=False)
        raise Machinery("non-vacuity: the tokenizer without delimiter skipping was not told apart")
    except tlc.TLCError as ex:
        if "BadTokensAreRuns" not in str(ex) and "is false" not in str(ex):
            raise
    ctx.extra["broken_tokenizer_variant"] = "rejected by TLC (assumption BadTokensAreRuns is false)"
    # ---- M3: every string up to length L over {a, b, ',', ' '} through every helper; tokenizer sessions with per-call delimiter sets
    L = 5 if ctx.quick else 7
    alpha = [97, 98, 44, 32]
    lines = ["null"]
    dsets = [[44], [32], [44, 32], [], [97]]
    for n in range(0, L + 1):
        for s in itertools.product(alpha, repeat=n):
            lines.append("dup " + hx(s))
            lines.append("chomp " + hx(s))
            k = n + 2
            d = dsets[(sum(s) + n) % len(dsets)]
            lines.append("tok %s %s" % (hx(s), " ".join([hx(d)] * min(k, 8))))
            if n >= 3 and (sum(s) % 3 == 0):
                # delimiters change from call to call
                calls = [hx(rng.choice(dsets)) for _ in range(min(k, 8))]
                lines.append("tok %s %s" % (hx(s), " ".join(calls)))
    # white space classes, long strings, bytes above 127
    ws = [32, 9, 10, 11, 12, 13]
    for _ in range(300 if ctx.quick else 5000):
        n = rng.choice([0, 1, 2, 3, 10, 100, 1000])
        s = [rng.choice(ws + [65, 66, 200, 255, 1, 160]) for _ in range(n)]
        lines.append("chomp " + hx(s))
        lines.append("dup " + hx(s))
        d = [rng.choice(ws + [65, 200]) for _ in range(rng.randint(0, 3))]
        lines.append("tok %s %s" % (hx(s), " ".join([hx(d)] * rng.randint(1, 12))))
    files = []
    chunks = [lines[i:i + 4000] for i in range(0, len(lines), 4000)]
    for variant in ("asan", "default"):
        exe = build.driver("drv_str", ["drv_str.c"], variant=variant)
        for ci, ch in enumerate(chunks):
            if variant == "default" and ci % 2:
                continue
            sp, tp = ctx.path("str_%s_%d.script" % (variant, ci)), ctx.path("str_%s_%d.ndjson" % (variant, ci))
            open(sp, "w").write("\n".join(ch) + "\n")
            rc, out, to = run_driver([exe, sp, tp], timeout=120)
            if rc != 0 or to:
                kind = "hang" if to else ("memory" if "Sanitizer" in out else "crash")
                ctx.violation("%s:%s" % (variant, kind), "string helpers: driver %s (rc=%s): %s" % (kind, rc, out[-500:]), [sp])
            if os.path.exists(tp):
                ctx.events += sum(1 for _ in open(tp))
                files.append((tp, sp))
    res = ctx.validate_many("data/StrOpsTrace.tla", "StrOpsTrace.cfg", [f for f, _ in files], par=8)
    for (f, sp), (_, ok, matched) in zip(files, res):
        if ok:
            continue
        evs = [json.loads(x) for x in open(f)]
        ev = evs[matched[0]] if matched[0] is not None and matched[0] < len(evs) else None
        ctx.violation("model:%s" % (ev["e"] if ev else "?"), "string helper result not explained by StrOps at event %s: %s" % (matched[0], json.dumps(ev)[:400]), [f, sp])
    ctx.behaviours += len(lines)
    if files:
        for i, line in enumerate(open(files[0][0])):
            if i in (5, 6, 7):
                ctx.sample(json.loads(line))
        # binding self-test: a token that still carries its delimiter
        evs = [json.loads(x) for x in open(files[0][0])]
        for i, e in enumerate(evs):
            if e["e"] == "tok" and e["calls"] and e["calls"][0]["r"] != [-1] and e["calls"][0]["d"]:
                e["calls"][0]["r"] = e["calls"][0]["r"] + [e["calls"][0]["d"][0]]
                p = traces.write(evs[: i + 1], ctx.path("selftest.ndjson"))
                ok, matched, r = tlc.validate_trace("data/StrOpsTrace.tla", p, cfg="StrOpsTrace.cfg")
                if ok:
                    raise Machinery("self-test: a token carrying its delimiter was accepted")
                ctx.extra["selftest"] = "token with trailing delimiter at event %d rejected" % (i + 1)
                break
    ctx.extra["strings"] = {"alphabet": 4, "max_len": L, "scripted_calls": len(lines)}
    ctx.assumptions += ["C locale (isspace classes); not one of the listed properties (DESIGN.md, 'Beyond the listed properties')"]
    ctx.exhaustive = False
