"""C04: p_atomic_* operations are indivisible and match C word arithmetic; c11 / sync / sim models."""
import json, os
import build, tlc, traces
from core import Machinery, run_driver

BND32 = [0, 1, 2, 0x7fffffff, 0x80000000, 0xffffffff, 0xfffffffe, 0x7ffffffe, 0x80000001, 0x55555555, 0xaaaaaaaa, 0x10000, 0xffff, 0x8000]
BND64 = BND32 + [0x7fffffffffffffff, 0x8000000000000000, 0xffffffffffffffff, 0xfffffffffffffffe, 0x100000000, 0xffffffff00000000, 0x5555555555555555]


def seq_script(rng):
    lines = []
    for c, bnd, mask in (("i", BND32, 0xffffffff), ("p", BND64, 0xffffffffffffffff)):
        vals = bnd + [rng.getrandbits(64) & mask for _ in range(4)]
        for a in vals:
            for b in vals:
                lines += ["%s set %x 0" % (c, a), "%s add %x 0" % (c, b), "%s get 0 0" % c,
                          "%s set %x 0" % (c, a), "%s and %x 0" % (c, b),
                          "%s set %x 0" % (c, a), "%s or %x 0" % (c, b),
                          "%s set %x 0" % (c, a), "%s xor %x 0" % (c, b), "%s get 0 0" % c,
                          "%s set %x 0" % (c, a), "%s cas %x %x" % (c, a, b), "%s get 0 0" % c,
                          "%s set %x 0" % (c, a), "%s cas %x %x" % (c, b, a ^ 1)]
            if c == "i":
                lines += ["i set %x 0" % a, "i inc 0 0", "i get 0 0", "i set %x 0" % a, "i dec_and_test 0 0", "i get 0 0"]
    return lines


def run(ctx):
    rng = ctx.rng
    # ---- M1: the P-spec on a tiny word, all interleavings; the split (non-atomic) variants must be rejected
    for c in ("add", "dec", "or", "mix") + (() if ctx.quick else ("mix2",)):
        ctx.design_must_hold("sync/AtomicsDesign.tla", cfg="AtomicsDesign_%s.cfg" % c, expect_actions=["DCall", "DLin", "DRet"],
                             allow_unused=("DLoad", "DStore"), xmx="12g", timeout=1800, workers=16)
    for c, inv in (("add_split", "TicketsDistinct"), ("dec_split", "OneZeroCrossing"), ("or_split", "OrBitsKept")):
        r = ctx.design_check("sync/AtomicsDesign.tla", cfg="AtomicsDesign_%s.cfg" % c, allow_unused=("DLin",))
        if r.ok or r.violated_name != inv:
            raise Machinery("non-vacuity: the non-atomic variant %s was not rejected by %s" % (c, inv))
    ctx.extra["non_atomic_variants_rejected"] = ["add_split", "dec_split", "or_split"]
    files = []
    seq = seq_script(rng)
    # (the last two: unoptimised builds of the library - the repository's default configuration has no optimisation flags)
    for variant in ("default", "sync", "sim", "default@O0", "sync@O0"):
        opt = "-O1"
        if "@" in variant:
            variant, o = variant.split("@")
            opt = "-" + o
        label = {"default": "c11"}.get(variant, variant) + ("" if opt == "-O1" else opt)
        exe = build.driver("drv_atomic", ["drv_atomic.c"], variant=variant, opt=opt)
        # sequential, all operand classes (pieces of <= 8000 operations, one driver run and one trace each)
        for pi in range(0, len(seq), 8000):
            if opt != "-O1" and pi > 0:
                break
            sp = ctx.path("seq_%s%s_%d.script" % (variant, opt.replace("-", "_"), pi))
            open(sp, "w").write("\n".join(seq[pi:pi + 8000]) + "\n")
            base = ctx.path("seq_%s%s_%d" % (variant, opt.replace("-", "_"), pi))
            rc, out, to = run_driver([exe, "seq", sp, base], timeout=120)
            if rc != 0 or to:
                ctx.violation("%s:seq-crash" % label, "sequential atomic script rc=%s: %s" % (rc, out[-400:]), [sp])
                continue
            p, evs = traces.merge(base, annotate={"res": "xres", "ok": "xok"})
            ctx.events += len(evs)
            files.append((label + "-seq", p))
        for (nth, cores) in ([(6, "0-3"), (3, "0")] if ctx.quick else [(2, "0-1"), (4, "0-1"), (8, "0-7"), (16, "0-15"), (3, "0")]):
            if opt != "-O1" and nth != 6 and nth != 8:
                continue
            base = ctx.path("conc_%s%s_%d" % (variant, opt.replace("-", "_"), nth))
            cmd = ["taskset", "-c", cores, exe, "conc", base, str(nth), str(8 if ctx.quick else 24), str(120 if ctx.quick else (250 if nth < 16 else 100)), str(rng.randint(1, 10 ** 6))]
            rc, out, to = run_driver(cmd, timeout=120)
            if to or rc != 0:
                rc, out, to = run_driver(cmd, timeout=120)
                if to or rc != 0:
                    ctx.violation("%s:conc-%s" % (label, "stuck" if to else "crash"), "concurrent atomic mix rc=%s: %s" % (rc, out[-400:]), [])
                    continue
            p, evs = traces.merge(base, annotate={"res": "xres", "ok": "xok"})
            ctx.events += len(evs)
            for ci, ch in enumerate(traces.split_at(evs, "Epoch", 20000)):
                files.append((label + "-conc", traces.write(ch, base + "_c%d.ndjson" % ci)))
    res = ctx.validate_many("sync/AtomicsLin.tla", "AtomicsLin.cfg", [f for _, f in files], par=6, timeout=900 if ctx.quick else 3000)
    for (label, f), (_, ok, matched) in zip(files, res):
        if not ok:
            ev = None
            try:
                ev = json.loads(open(f).read().split("\n")[matched[0]])
            except Exception:
                pass
            ctx.violation("%s:not-linearizable" % label, "atomic history (%s): no sequential order of indivisible C-arithmetic operations explains the results; stuck at event %s: %s" % (label, matched[0], json.dumps(ev)[:300]), [f])
    ctx.extra["histories"] = {}
    for label, f in files:
        ctx.extra["histories"][label] = ctx.extra["histories"].get(label, 0) + 1
    if files:
        for i, line in enumerate(open(files[0][1])):
            if i in (1, 2, 3, 4):
                ctx.sample(json.loads(line))
        # binding self-test: one returned old value off by one
        evs = [json.loads(x) for x in open(files[-1][1])]
        for i, e in enumerate(evs):
            if e["e"] == "ret" and e["res"]:
                e["res"][0] = (e["res"][0] + 1) % 65536
                break
        p = traces.write(evs[: i + 20], ctx.path("selftest.ndjson"))
        ok, matched, r = tlc.validate_trace("sync/AtomicsLin.tla", p, cfg="AtomicsLin.cfg")
        if ok:
            raise Machinery("self-test: corrupted fetch result accepted")
        ctx.extra["selftest"] = "corrupted result at event %d rejected" % (i + 1)
    ctx.assumptions += ["barrier strength of set/get beyond what x86-64 exhibits is not observable; the message-passing litmus only records positive observations",
                        "32-bit / pointer-width words are modelled as 16-bit limbs (Words.tla) because TLC integers are 32-bit"]
    ctx.exhaustive = False
