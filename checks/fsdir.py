"""X01 (beyond the listed properties): PDir / PFile - the directory name space and listing passes follow specs/sys/FsDir.tla."""
import json, os, shutil
import build, tlc, behaviours, traces
from core import Machinery, run_driver


def edge_lines(rng, name, args, cursor_open):
    """script lines for one edge of the FsDir graph"""
    if name in ("MkDir", "RmDir", "MkFile", "RmFile", "PutInner", "TakeInner", "OpenOn"):
        op = {"MkDir": "mkdir", "RmDir": "rmdir", "MkFile": "mkfile", "RmFile": "rmfile", "PutInner": "put", "TakeInner": "take", "OpenOn": "openon"}[name]
        return ["%s %d" % (op, args[0])]
    if name == "Open":
        return ["open %d %d" % (args[0], rng.randint(0, 1))]
    if name == "Next":
        return ["next %d" % args[0]]
    if name == "End":
        return ["drain %d" % args[0]]
    if name == "Rewind":
        return ["rewind %d" % args[0]]
    if name == "Close":
        return ["close %d" % args[0]]
    if name == "Probe":
        return [rng.choice(["obs", "obs", "null"])]
    return []


def random_script(rng, n):
    """both cursors, three names (one of them 200 characters long), changes in the middle of passes"""
    lines = ["reset"]
    for _ in range(n):
        r = rng.random()
        nm = rng.randint(1, 3)
        c = rng.randint(1, 2)
        if r < 0.35:
            lines.append("%s %d" % (rng.choice(["mkdir", "rmdir", "mkfile", "rmfile", "put", "take", "openon"]), nm))
        elif r < 0.45:
            lines.append("open %d %d" % (c, rng.randint(0, 1)))
        elif r < 0.75:
            lines.append("next %d" % c)
        elif r < 0.82:
            lines.append("drain %d" % c)
        elif r < 0.88:
            lines.append("rewind %d" % c)
        elif r < 0.92:
            lines.append("close %d" % c)
        else:
            lines.append(rng.choice(["obs", "obs", "null"]))
    lines += ["obs", "drain 1", "drain 2", "rewind 1", "drain 1", "close 1", "close 2"]
    return lines


def run(ctx):
    rng = ctx.rng
    # ---- M1: the design with history variables; a rewind that does not restart the pass must be rejected
    ctx.design_must_hold("sys/FsDirMC.tla", cfg="FsDirMC_1.cfg" if ctx.quick else "FsDirMC.cfg", workers=16, xmx="8g", timeout=1800,
                         expect_actions=["MMkDir", "MRmDir", "MMkFile", "MRmFile", "MInner", "MOpen", "MRewind", "MEnd", "MClose", "MStep"])
    r = ctx.design_check("sys/FsDirMC.tla", cfg="FsDirMC_lazy.cfg", coverage=False)
    if r.ok or r.violated_name != "QuietPassExact":
        raise Machinery("non-vacuity: a rewind that keeps the position was not rejected by QuietPassExact")
    ctx.extra["lazy_rewind_variant"] = "rejected by TLC (QuietPassExact)"
    # ---- M2: behaviours of the I-level graph (2 names, 1 cursor), every edge
    dump = ctx.path("g_fs")
    ctx.design_must_hold("sys/FsDir.tla", cfg="FsDirWalk.cfg", dump=dump, coverage=False)
    g = behaviours.parse_dot(dump + ".dot")
    os.unlink(dump + ".dot")
    walks = behaviours.cover_walks(g, max_walk=80, rng=rng)
    lines = []
    for w in walks:
        lines.append("reset")
        for lab, dst in w:
            name, args = behaviours.parse_label(lab)
            lines += edge_lines(rng, name, args, None)
        lines += ["obs", "drain 1"]
    ctx.behaviours += len(walks)
    ctx.extra["edge_cover"] = {"states": len(g.labels), "edges": g.nedges, "walks": len(walks)}
    scripts = [lines[i:i + 6000] for i in range(0, len(lines), 6000)]
    for _ in range(20 if ctx.quick else 400):
        scripts.append(random_script(rng, rng.randint(30, 200)))
    # ---- M3 / M4: run on the real code, validate against FsDirTrace
    files = []
    for variant in ("asan", "default"):
        exe = build.driver("drv_fs", ["drv_fs.c"], variant=variant)
        for si, sc in enumerate(scripts):
            if variant == "default" and si % 3:
                continue
            # cut long scripts at "reset" lines so that one trace stays below ~4000 events
            sp, tp = ctx.path("fs_%s_%d.script" % (variant, si)), ctx.path("fs_%s_%d.ndjson" % (variant, si))
            root = ctx.path("root_%s_%d" % (variant, si))
            shutil.rmtree(root, ignore_errors=True)
            if sc[0] != "reset":
                sc = ["reset"] + sc
            open(sp, "w").write("\n".join(sc) + "\n")
            rc, out, to = run_driver([exe, sp, tp, root], timeout=120)
            shutil.rmtree(root, ignore_errors=True)
            if rc != 0 or to:
                kind = "hang" if to else ("memory" if "Sanitizer" in out else "crash")
                ctx.violation("%s:%s" % (variant, kind), "directory script: driver %s (rc=%s): %s" % (kind, rc, out[-500:]), [sp])
            if os.path.exists(tp):
                ctx.events += sum(1 for _ in open(tp))
                files.append((variant, tp, sp))
    res = ctx.validate_many("sys/FsDirTrace.tla", "FsDirTrace.cfg", [f for _, f, _ in files], par=8)
    for (variant, f, sp), (_, ok, matched) in zip(files, res):
        if ok:
            continue
        evs = [json.loads(x) for x in open(f)]
        ev = evs[matched[0]] if matched[0] is not None and matched[0] < len(evs) else None
        ctx.violation("model:%s" % (ev["e"] if ev else "?"), "directory history not explained by FsDir at event %s: %s; before: %s" % (
            matched[0], json.dumps(ev)[:300], json.dumps(evs[max(0, matched[0] - 5):matched[0]])[:500]), [f, sp])
    if files:
        for i, line in enumerate(open(files[0][1])):
            if i in (1, 2, 3, 4):
                ctx.sample(json.loads(line))
        # binding self-tests: (1) an entry returned twice in a pass, (2) the end of a pass reported although an entry is owed
        evs = [json.loads(x) for x in open(files[0][1])]
        done = []
        for i, e in enumerate(evs):
            if e["e"] == "next" and e["n"] in (1, 2, 3) and "dup" not in done:
                p = traces.write(evs[: i + 1] + [dict(e)], ctx.path("selftest1.ndjson"))
                ok, matched, r = tlc.validate_trace("sys/FsDirTrace.tla", p, cfg="FsDirTrace.cfg")
                if ok:
                    raise Machinery("self-test: an entry returned twice in one pass was accepted")
                done.append("dup")
            if e["e"] == "open" and "early-end" not in done:
                p = traces.write(evs[: i + 1] + [{"e": "end", "c": e["c"], "err": 0}], ctx.path("selftest2.ndjson"))
                ok, matched, r = tlc.validate_trace("sys/FsDirTrace.tla", p, cfg="FsDirTrace.cfg")
                if ok:
                    raise Machinery("self-test: end of a pass before '.' and '..' were returned was accepted")
                done.append("early-end")
        ctx.extra["selftest"] = "rejected: " + ", ".join(done)
    ctx.assumptions += ["the file system under the build directory behaves as POSIX requires of readdir / rewinddir: an entry present for the whole pass is returned once; "
                        "entries created or removed during a pass may or may not appear",
                        "not one of the listed properties: this check extends the specification to the directory and file API (DESIGN.md, 'Beyond the listed properties')"]
    ctx.exhaustive = False
