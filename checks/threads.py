"""C05: PUThread - join / exit code, reference-counted handle, TLS destroy notifiers."""
import json, os
import build, tlc, traces
from core import Machinery, run_driver


def scenario(rng, nthreads):
    lines = []
    nkeys = rng.randint(1, 3)
    keyf = {}
    for k in range(1, nkeys + 1):
        keyf[k] = rng.randint(0, 1) if k > 1 else 1
        lines.append("keynew %d %d" % (k, keyf[k]))
    val = [100]

    def newval():
        val[0] += 1
        return val[0]
    per = []
    for h in range(1, nthreads + 1):
        j = rng.randint(0, 1)
        sub = []
        cur = {}
        for _ in range(rng.randint(0, 6)):
            k = rng.randint(1, nkeys)
            r = rng.random()
            op = "tset" if r < 0.4 else "trepl" if r < 0.75 else "tget"
            # replacing a value with itself is a replacement too: the notifier runs for the value that was stored
            v = 0 if op == "tget" else (cur[k] if op == "trepl" and k in cur and rng.random() < 0.35 else newval())
            if op != "tget":
                cur[k] = v
            sub.append("T %d: %s %d %d" % (h, op, k, v))
        sub.append("T %d: write %d" % (h, newval()))
        sub.append("T %d: exit %d" % (h, rng.choice([0, 1, 7, -5, 255, 2147483647, -1, -1, -2, -2147483647])) if rng.random() < 0.6 else "T %d: ret" % h)
        lines += sub
        pat = rng.choice(["unref-first", "join-racing", "finished-before-join", "extra-ref", "late-unref"]) if j else \
            rng.choice(["unref-first", "finished-before-unref", "extra-ref-detached", "join-detached"])
        ops = ["new %d %d" % (h, j)]
        if pat == "unref-first":
            ops += ["unref %d" % h, "go %d 1" % h, "go %d 2" % h]
        elif pat == "join-racing":
            ops += ["go %d 1" % h, "go %d 2" % h, "join %d" % h, "unref %d" % h]
        elif pat == "finished-before-join":
            ops += ["go %d 1" % h, "go %d 2" % h, "waitst %d 3" % h, "join %d" % h, "unref %d" % h]
        elif pat == "extra-ref":
            ops += ["ref %d" % h, "go %d 1" % h, "unref %d" % h, "go %d 2" % h, "join %d" % h, "ref %d" % h, "unref %d" % h, "unref %d" % h]
        elif pat == "late-unref":
            # a second join (after other threads came and went: the native id of the first join is stale by then) yields the code again
            ops += ["go %d 1" % h, "waitst %d 2" % h, "go %d 2" % h, "join %d" % h] + (["churn 80"] if rng.random() < 0.3 else []) + ["join %d" % h, "unref %d" % h]
        elif pat == "finished-before-unref":
            ops += ["go %d 1" % h, "go %d 2" % h, "waitst %d 3" % h, "unref %d" % h]
        elif pat == "extra-ref-detached":
            ops += ["ref %d" % h, "unref %d" % h, "go %d 1" % h, "go %d 2" % h, "ref %d" % h, "unref %d" % h, "unref %d" % h]
        elif pat == "join-detached":
            ops += ["go %d 1" % h, "join %d" % h, "go %d 2" % h, "unref %d" % h]
        per.append(ops)
    # main-thread TLS use
    mops = []
    mcur = {}
    for _ in range(rng.randint(0, 4)):
        k = rng.randint(1, nkeys)
        r = rng.random()
        op = "tset" if r < 0.3 else "trepl" if r < 0.7 else "tget"
        v = 0 if op == "tget" else (mcur[k] if op == "trepl" and k in mcur and rng.random() < 0.35 else newval())
        if op != "tget":
            mcur[k] = v
        mops.append("%s %d %d" % (op, k, v))
    per.append(mops)
    # random interleaving preserving each list's order
    idx = [0] * len(per)
    while any(idx[i] < len(per[i]) for i in range(len(per))):
        i = rng.choice([i for i in range(len(per)) if idx[i] < len(per[i])])
        lines.append(per[i][idx[i]])
        idx[i] += 1
    lines.append("epoch")
    return lines


def keyrace(rng):
    """first use of a fresh key by several threads at the same moment (lazy creation of the native key is a race)"""
    n = rng.randint(2, 5)
    lines = ["keynew 1 1", "keynew 2 %d" % rng.randint(0, 1), "race %d" % n]
    v = 200
    for h in range(1, n + 1):
        k = rng.randint(1, 2) if rng.random() < 0.3 else 1
        first = rng.choice(["tset", "tset", "trepl", "tget"])
        sub = ["bar 0 0", "%s %d %d" % (first, k, 0 if first == "tget" else v + 1), "tget %d 0" % k, "tset %d %d" % (k, v + 2), "tget %d 0" % k, "trepl %d %d" % (k, v + 3), "tget %d 0" % k,
               "write %d" % (v + 4), "exit %d" % h]
        v += 10
        lines += ["T %d: %s" % (h, x) for x in sub]
    lines += ["new %d 1" % h for h in range(1, n + 1)]
    lines += ["go %d 1" % h for h in range(1, n + 1)]
    lines += ["go %d 2" % h for h in range(1, n + 1)]
    for h in range(1, n + 1):
        lines += ["join %d" % h, "unref %d" % h]
    lines.append("epoch")
    return lines


def fastexit(rng):
    """threads that call p_uthread_exit the moment they start, while the creating call is still on its way back (it is held up for 2 ms after it
    released the start-up spinlock): the exit code still arrives, the exit call does not return, detached threads end as well"""
    lines = []
    n = rng.randint(1, 3)
    for h in range(1, n + 1):
        j = rng.choice([1, 1, 0])
        lines.append("newfast %d %d" % (h, j))
        lines += ["join %d" % h, "unref %d" % h] if rng.random() < 0.7 else ["unref %d" % h]
    lines.append("epoch")
    return lines


def keyfree(rng):
    """the reference to a TLS key is released (p_uthread_local_free) while threads that stored values under it are still alive:
    the key itself stays, and every value left under it is destroyed when its thread exits"""
    n = rng.randint(1, 3)
    f2 = rng.randint(0, 1)
    lines = ["keynew 1 1", "keynew 2 %d" % f2]
    v = 400
    for h in range(1, n + 1):
        sub = []
        for _ in range(rng.randint(1, 4)):
            k = rng.randint(1, 2)
            sub.append("%s %d %d" % (rng.choice(["tset", "trepl"]), k, v))
            v += 1
        sub += ["tget 1 0", "write %d" % v, rng.choice(["exit %d" % h, "ret"])]
        v += 1
        lines += ["T %d: %s" % (h, x) for x in sub]
    lines += ["new %d 1" % h for h in range(1, n + 1)]
    lines += ["go %d 1" % h for h in range(1, n + 1)]
    lines += ["waitst %d 2" % h for h in range(1, n + 1)]      # every thread has made its TLS calls and is parked before its exit
    lines += rng.choice([["keyfree 1"], ["keyfree 1", "keyfree 2"], ["keyfree 2", "keyfree 1"]])
    lines += ["go %d 2" % h for h in range(1, n + 1)]
    for h in range(1, n + 1):
        lines += ["join %d" % h, "unref %d" % h]
    lines.append("epoch")
    return lines


def unrefrace(rng):
    """the last references of a handle are dropped by several threads at the same moment"""
    lines = ["keynew 1 0"]
    n = rng.randint(1, 3)
    for h in range(1, n + 1):
        k = rng.randint(2, 6)
        lines += ["T %d: write %d" % (h, 300 + h), "T %d: exit %d" % (h, h), "new %d 1" % h]
        order = rng.choice(["after-join", "while-running", "thread-exit-joins-the-race"])
        if rng.random() < 0.25:
            # references taken and dropped by several threads at once while the handle is held: the count must come out unchanged
            lines += ["refchurn %d %d" % (h, rng.randint(2, 4))]
        if order == "after-join":
            lines += ["ref %d" % h] * (k - 1) + ["go %d 1" % h, "go %d 2" % h, "join %d" % h, "unrefrace %d %d" % (h, k)]
        elif order == "while-running":
            lines += ["ref %d" % h] * (k - 1) + ["go %d 1" % h, "waitst %d 2" % h, "unrefrace %d %d" % (h, k), "go %d 2" % h]
        else:
            lines += ["ref %d" % h] * (k - 1) + ["go %d 1" % h, "go %d 2" % h, "unrefrace %d %d" % (h, k)]
    lines.append("epoch")
    return lines


def run(ctx):
    rng = ctx.rng
    ctx.design_must_hold("sync/UThread.tla", expect_actions=["Create", "Start", "Exit", "OwnRefDrop", "Ref", "Unref", "Free", "JoinRet"], deadlock=False)
    files = []
    nscen = 60 if ctx.quick else 600
    for variant in (["default", "asan"] if ctx.quick else ["default", "asan", "sim"]):
        exe = build.driver("drv_thread", ["drv_thread.c"], variant=variant, wraps=["pthread_key_create", "p_spinlock_unlock"])
        qenv = {"VERIF_QUARANTINE": "1"} if variant != "asan" else None
        nb = 3 if ctx.quick else 12
        for batch in range(nb + 1):
            lines = []
            if batch == nb:          # one more batch made of reference races only (the window is a few instructions wide: many short rounds)
                for _ in range(150 if ctx.quick else 600):
                    lines += unrefrace(rng)
            for _ in range(0 if batch == nb else (nscen // 3 if ctx.quick else nscen // 12)):
                r_ = rng.random()
                lines += scenario(rng, rng.randint(1, 5)) if r_ < 0.5 else keyrace(rng) if r_ < 0.68 else keyfree(rng) if r_ < 0.78 else fastexit(rng) if r_ < 0.86 else unrefrace(rng)
            sp = ctx.path("th_%s_%d.script" % (variant, batch))
            open(sp, "w").write("\n".join(lines) + "\n")
            base = ctx.path("th_%s_%d" % (variant, batch))
            rc, out, to = run_driver([exe, sp, base], timeout=120, env=qenv)
            if to or rc != 0:
                for f in os.listdir(ctx.rundir):
                    if f.startswith("th_%s_%d." % (variant, batch)) and not f.endswith(".script"):
                        os.unlink(ctx.path(f))
                rc, out, to = run_driver([exe, sp, base], timeout=120, env=qenv)
                if to or rc != 0:
                    kind = "hang" if to else ("memory-error" if "Sanitizer" in out else "crash")
                    ctx.violation("%s:%s" % (variant, kind), "thread scenarios (%s build): %s (driver exit status %s, twice; a negative status is a signal): %s" % (variant, kind, rc, out[-600:]), [sp])
                    continue
            p, evs = traces.merge(base)
            ctx.events += len(evs)
            for ci, ch in enumerate(traces.split_at(evs, "keynew", 15000)):
                files.append((variant, traces.write(ch, base + "_c%d.ndjson" % ci), sp))
    # cut only at scenario starts: split_at cuts before a 'keynew' that follows an Epoch only approximately; validate as is
    res = ctx.validate_many("sync/UThreadTrace.tla", "UThreadTrace.cfg", [f for _, f, _ in files], par=6, timeout=900)
    for (variant, f, sp), (_, ok, matched) in zip(files, res):
        if not ok:
            ev = None
            try:
                ev = json.loads(open(f).read().split("\n")[matched[0]])
            except Exception:
                pass
            what = {"hfree": "handle released while referenced / twice", "joinret": "join returned early or with a wrong code / stale data",
                    "tdestroy": "notifier ran for a value that was not due (or twice)", "Epoch": "handle or TLS value never released",
                    "trepl_e": "replaced value not destroyed inside replace_local", "tget": "TLS value not per-thread"}.get(ev["e"] if ev else "", "no explanation")
            ctx.violation("%s:%s" % (variant, ev["e"] if ev else "?"), "thread history rejected by UThreadTrace (%s); stuck at event %s: %s" % (what, matched[0], json.dumps(ev)[:300]), [f, sp])
    ctx.behaviours += nscen
    ctx.extra["scenarios"] = nscen * (2 if ctx.quick else 3)
    if files:
        for i, line in enumerate(open(files[0][1])):
            if i in (1, 2, 3, 4, 5):
                ctx.sample(json.loads(line))
        # binding self-test: a join that returns before the thread's exit event
        evs = [json.loads(x) for x in open(files[0][1])]
        done = False
        for i, e in enumerate(evs):
            if e["e"] == "joinret" and e["code"] != -1:
                h = e["h"]
                for j2 in range(i - 1, -1, -1):
                    if evs[j2]["e"] == "exit" and evs[j2]["h"] == h:
                        evs.insert(j2, evs.pop(i))
                        done = True
                        break
                break
        if done:
            p = traces.write(evs[: i + 5], ctx.path("selftest.ndjson"))
            ok, matched, r = tlc.validate_trace("sync/UThreadTrace.tla", p, cfg="UThreadTrace.cfg")
            if ok:
                raise Machinery("self-test: join returning before the thread exited was accepted")
            ctx.extra["selftest"] = "early join rejected"
    ctx.assumptions += ["handle identity is the block returned by p_uthread_create, tracked through the user allocator table",
                        "orders are forced by script gates; first use of a fresh TLS key is raced through a spin barrier and a late-returning pthread_key_create (link-time wrapper); join vs. exit is sampled",
                        "the native TLS key kept by p_uthread_local_free is documented residue (not checked here)"]
    ctx.exhaustive = False
