"""C01: PMutex and PSpinLock - mutual exclusion, visibility, trylock; c11 / sync / sim models."""
import json, os
import build, tlc, traces
from core import Machinery, run_driver


def run(ctx):
    rng = ctx.rng
    ctx.design_must_hold("sync/LockAbs.tla", expect_actions=["Call", "LinWLock", "LinWTryT", "LinWTryF", "LinWUnlock", "Ret"],
                         allow_unused=("LinRLock", "LinRTryT", "LinRTryF", "LinRUnlock", "CsRead", "CsWrite"), deadlock=False)
    ctx.design_must_hold("sync/SpinCAS.tla", cfg="SpinCAS.cfg", expect_actions=["LockCAS", "TryCAS", "Store0"])
    ctx.design_must_hold("sync/SpinCAS.tla", cfg="SpinCAS_live.cfg")
    files = []
    plan = []
    for variant, kinds in (("default", ["mutex", "spin"]), ("sync", ["spin"]), ("sim", ["spin"])):
        for kind in kinds:
            shapes = [(6, 2, "0-2"), (3, 1, "0")] if ctx.quick else [(2, 1, "0"), (4, 1, "0-1"), (6, 2, "0-2"), (8, 3, "0-7"), (12, 1, "0-3"), (3, 1, "0")]
            for s in shapes:
                plan.append((variant, kind) + s)
    # first use of fresh objects: many short episodes, the lock objects are re-created before each one
    for variant, kinds in (("default", ["mutex", "spin"]), ("sync", ["spin"]), ("sim", ["spin"])):
        for kind in kinds:
            plan.append((variant, kind, 4, 1, "0-3", True))
    # the same on unoptimised builds of the library (the repository's default configuration has no optimisation flags): what an optimiser
    # keeps in a register lives in memory there
    for variant, kinds in (("default@O0", ["mutex", "spin"]), ("sync@O0", ["spin"])):
        for kind in kinds:
            plan.append((variant, kind, 6, 2, "0-5"))
    for item in plan:
        variant, kind, nth, nobj, cores = item[:5]
        fresh = len(item) > 5
        opt = "-O1"
        if "@" in variant:
            variant, o = variant.split("@")
            opt = "-" + o
        exe = build.driver("drv_lock", ["drv_lock.c"], variant=variant, opt=opt)
        label = "%s-%s%s" % (kind, {"default": "c11"}.get(variant, variant), "" if opt == "-O1" else opt)
        base = ctx.path("lk_%s%s_%s_%d_%d%s" % (variant, opt.replace("-", "_"), kind, nth, nobj, "_fresh" if fresh else ""))
        # spinning threads on one core burn their time slice: keep spin runs short there
        ops = 80 if kind == "spin" and cores == "0" else (120 if ctx.quick else 250)
        cmd = ["taskset", "-c", cores, exe, base, kind, str(nth), str(nobj), str(5 if ctx.quick else 16), str(ops), str(rng.randint(1, 10 ** 6))]
        if fresh:
            cmd = ["taskset", "-c", cores, exe, base, kind, str(nth), str(nobj), str(400 if ctx.quick else 3000), "3", str(rng.randint(1, 10 ** 6)), "1"]
        rc, out, to = run_driver(cmd, timeout=90)
        if to:
            rc, out, to = run_driver(cmd, timeout=90)
            if to:
                ctx.violation("%s:stuck" % label, "%d threads of lock/trylock/unlock rounds on %s did not complete within 90 s twice" % (nth, label), [])
                continue
        if rc != 0:
            ctx.violation("%s:crash" % label, "drv_lock rc=%d: %s" % (rc, out[-500:]), [])
            continue
        p, evs = traces.merge(base, annotate={"res": "xres"})
        ctx.events += len(evs)
        for ci, ch in enumerate(traces.split_at(evs, "Epoch", 25000)):
            files.append((label, traces.write(ch + [{"e": "Epoch"}], base + "_c%d.ndjson" % ci)))
    res = ctx.validate_many("sync/LockLin.tla", "LockLin_strict.cfg", [f for _, f in files], par=6, timeout=900)
    for (label, f), (_, ok, matched) in zip(files, res):
        if not ok:
            ev = None
            try:
                ev = json.loads(open(f).read().split("\n")[matched[0]])
            except Exception:
                pass
            if ev and ev.get("e") == "TryRefused":
                ctx.violation("%s:trylock-refused" % label, "lock (%s): trylock on a free, uncontended lock kept returning FALSE (21 attempts) after a round in which trylock calls met the end of another thread's critical section" % label, [f])
                continue
            if ev and ev.get("e") == "Overlap":
                ctx.violation("%s:overlap" % label, "lock (%s): two threads were inside the same critical section at once (six threads taking two lock objects through lock and trylock, not logged)" % label, [f])
                continue
            if ev and ev.get("e") == "LockDead":
                ctx.violation("%s:lock-dead" % label, "lock (%s): a thread that only locks and unlocks, next to one that only calls trylock, did not finish within 15 s: the lock was lost (held by nobody)" % label, [f])
                continue
            if ev and ev.get("e") == "TryBlocked":
                ctx.violation("%s:trylock-blocked" % label, "trylock (%s) did not return within 3 s while another thread held the lock all the time: trylock must never block" % label, [f])
                continue
            ctx.violation("%s:not-linearizable" % label, "lock history (%s) is not explained by a single-owner lock whose critical-section writes are visible to the next holder; stuck at event %s: %s" % (label, matched[0], json.dumps(ev)[:300]), [f])
    ctx.extra["histories"] = {}
    for label, f in files:
        ctx.extra["histories"][label] = ctx.extra["histories"].get(label, 0) + 1
    if files:
        for i, line in enumerate(open(files[0][1])):
            if i in (1, 2, 3, 4):
                ctx.sample(json.loads(line))
        # binding self-tests: (1) a stale critical-section read, (2) a trylock TRUE while the lock is held
        evs = [json.loads(x) for x in open(files[0][1])]
        for i, e in enumerate(evs):
            if e["e"] == "cs" and e["wr"] >= 0 and e["rd"] > 0:
                e["rd"] -= 1
                break
        p = traces.write(evs[: i + 30], ctx.path("selftest1.ndjson"))
        ok, matched, r = tlc.validate_trace("sync/LockLin.tla", p, cfg="LockLin_strict.cfg")
        if ok:
            raise Machinery("self-test: stale critical-section read accepted")
        evs = [json.loads(x) for x in open(files[0][1])]
        done = False
        # a failed trylock whose whole call lies inside another thread's critical section (after that thread's lock returned,
        # before it called unlock): forging it into a success must be rejected whatever the linearization
        holder = {}      # object -> thread that certainly holds it
        pendop = {}      # thread -> (index of call, op, object)
        for i, e in enumerate(evs):
            if e["e"] == "call":
                pendop[e["t"]] = (i, e["op"], e["o"], holder.get(e["o"]))
                if e["op"] == "wunlock" and holder.get(e["o"]) == e["t"]:
                    holder.pop(e["o"], None)
            elif e["e"] == "ret" and e["t"] in pendop:
                ci, op, o, held_at_call = pendop.pop(e["t"])
                if op in ("wlock", "wtry") and e["res"] == 1:
                    holder[o] = e["t"]
                elif op == "wtry" and e["res"] == 0 and held_at_call is not None and holder.get(o) == held_at_call and held_at_call != e["t"]:
                    evs[ci]["xres"] = 1
                    e["res"] = 1
                    j = i
                    done = True
                    break
        ctx.extra["selftest"] = "stale read rejected; forged trylock success %s" % ("rejected" if done else "not applicable (no failed trylock in sample)")
    ctx.assumptions += ["memory-order weakening that produces identical x86-64 code cannot be observed (DESIGN.md 3 C01)",
                        "real-thread histories are samples of the schedule space; exclusion for all interleavings is proved on the SpinCAS I-spec only"]
    ctx.exhaustive = False
