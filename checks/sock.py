"""C09 (data intact despite retries) and C10 (modes and life-cycle) of PSocket."""
import json, os
import build, tlc, behaviours, traces
from core import Machinery, run_driver

WRAPS = ["poll", "send", "recv", "sendto", "recvfrom", "connect", "accept", "close", "shutdown", "bind", "listen", "setsockopt", "getsockopt"]
MODE = {"C09": "io", "C10": "life"}


def tcp_pair(fam, l=1, c=2, a=3):
    return ["new %d %d tcp" % (l, fam), "bind %d" % l, "listen %d" % l, "new %d %d tcp" % (c, fam), "connect %d %d" % (c, l), "accept %d %d" % (a, l)]


def udp_pair(fam, a=4, b=5):
    return ["new %d %d udp" % (a, fam), "bind %d" % a, "new %d %d udp" % (b, fam), "bind %d" % b]


def plan_scenarios(ctx):
    """every fault sequence (<= 3 faults) of the SockLoop I-spec for every looping call, on both address families"""
    dump = ctx.path("g_sockloop")
    ctx.design_must_hold("net/SockLoop.tla", dump=dump, expect_actions=["PollEINTR", "PollReady", "SysEINTR", "SysEAGAIN", "SysShort", "SysOK"])
    g = behaviours.parse_dot(dump + ".dot")
    os.unlink(dump + ".dot")
    terms = [behaviours.parse_state(lab) for lab in g.labels.values() if '\\"done\\"' in lab]
    out = []
    for i, t in enumerate(terms):
        fam = 4 if i % 2 == 0 else 6
        plan = ",".join("%s:%s" % (c, o) for c, o in t["plan"])
        call = t["call"]
        lines = ["scenario"]
        if call in ("send", "recv", "accept"):
            lines += tcp_pair(fam)[: 5 if call == "accept" else 6]
            if call == "recv":
                lines.append("send 2 100")
            if plan:
                lines.append("plan " + plan)
            lines.append({"send": "send 2 100", "recv": "recv 3 50", "accept": "accept 3 1"}[call])
            if call == "send":
                lines += ["recv 3 200", "send 2 10", "recv 3 200"]
            elif call == "recv":
                lines += ["recv 3 200"]
            else:
                lines += ["send 2 20", "recv 3 50"]
        else:
            lines += udp_pair(fam)
            if call == "recvfrom":
                lines.append("sendto 5 4 %d 40" % (100 + i))
            if plan:
                lines.append("plan " + plan)
            lines.append("sendto 5 4 %d 40" % (300 + i) if call == "sendto" else "recvfrom 4 100")
            if call == "sendto":
                lines.append("recvfrom 4 100")
        out.append((lines, {"call": call, "sysseq": t["sysseq"], "plan": t["plan"]}))
    return out, len(g.labels), g.nedges


def random_history(rng):
    fam = rng.choice([4, 6])
    # the generator does not know how many bytes short transfers really moved, so a blocking receive always has a timeout here
    # (waiting without a timeout is exercised separately with a parked background receiver)
    lines = ["scenario"] + tcp_pair(fam) + udp_pair(fam) + ["set 2 timeout 150", "set 3 timeout 150"]
    sent = {2: 0, 3: 0}
    rcvd = {2: 0, 3: 0}
    peer = {2: 3, 3: 2}
    nb = {2: False, 3: False, 4: False, 5: False}
    tmo = {2: 150, 3: 150, 4: 0, 5: 0}
    dgq = {4: 0, 5: 0}
    did = [1000]
    for _ in range(rng.randint(10, 60)):
        r = rng.random()
        h = rng.choice([2, 3])
        if r < 0.3:
            n = rng.choice([1, 2, 100, 1000, 4096, 20000, rng.randint(1, 30000)])
            if sent[h] - rcvd[peer[h]] + n > 100000:
                continue
            planned = rng.random() < 0.15 and not nb[h]
            if planned:
                lines.append("plan " + ",".join(rng.choice(["poll:EINTR", "send:EINTR", "send:EAGAIN", "send:SHORT%d" % rng.randint(1, 50)]) for _ in range(rng.randint(1, 3))))
            lines.append("send %d %d%s" % (h, n, " 1" if not planned and rng.random() < 0.3 else ""))      # " 1": through p_socket_send_to
            sent[h] = None if sent[h] is None else sent[h]   # exact count unknown to the generator after short sends
            sent[h] += n
        elif r < 0.6:
            avail = sent[peer[h]] - rcvd[h]
            n = rng.choice([1, 10, 1000, 65536, rng.randint(1, 5000)])
            if rng.random() < 0.15 and avail > 0 and not nb[h]:
                lines.append("plan " + ",".join(rng.choice(["poll:EINTR", "recv:EINTR", "recv:EAGAIN", "recv:SHORT%d" % rng.randint(1, 50)]) for _ in range(rng.randint(1, 3))))
            if nb[h] and avail > 0:
                lines.append("sleepms 20")
            lines.append("recv %d %d" % (h, n))
            # the generator cannot know how much arrives (short sends); it only needs a lower bound to avoid endless waits
            rcvd[h] += min(n, max(avail, 0))
        elif r < 0.7:
            v = rng.choice([0, 1])
            lines.append("set %d blocking %d" % (h, v))
            nb[h] = v == 0
        elif r < 0.8:
            v = rng.choice([60, 120, 150])
            lines.append("set %d timeout %d" % (h, v))
            tmo[h] = v
        elif r < 0.9:
            a, b = rng.choice([(4, 5), (5, 4)])
            did[0] += 1
            if dgq[b] < 5:
                lines.append("sendto %d %d %d %d" % (a, b, did[0], rng.choice([0, 1, 2, 10, 500, 1400])))
                dgq[b] += 1
        else:
            a = rng.choice([4, 5])
            if dgq[a] > 0:
                lines.append("recvfrom %d %d" % (a, rng.choice([10, 100, 2000])))
                dgq[a] -= 1
    # drain with generous blocking receives, then orderly end: writer closes, reader sees EOF
    for h in (2, 3):
        lines += ["set %d blocking 1" % h, "set %d timeout 150" % h]
    lines += ["shutdown 2 0 1", "recv 3 100000", "recv 3 100000", "recv 3 100000", "recv 3 100000", "close 3", "recv 2 100000", "recv 2 100000", "send 2 10", "send 2 10 1", "close 2", "close 1"]
    return lines


def life_scenarios(rng):
    out = []
    for fam in (4, 6):
        # closed state: every I/O call after close, close twice, getters all the way
        s = ["scenario"] + tcp_pair(fam) + ["set 2 keepalive 1", "set 2 timeout 70", "set 2 blocking 0", "getters 2", "close 2", "close 2",
             "send 2 10", "recv 2 10", "shutdown 2 1 1", "shutdown 2 0 0", "shutdown 2 1 0", "shutdown 2 0 1", "bind 2", "listen 2", "connect 2 1", "getters 2", "set 2 timeout 30", "set 2 blocking 1", "getters 2",
             "close 1", "accept 6 1", "listen 1", "close 3", "recv 3 5", "send 3 5"]
        out.append(s)
        s = ["scenario"] + udp_pair(fam) + ["shutdown 5 0 0", "getters 5", "close 4", "sendto 4 5 1 10", "recvfrom 4 10", "shutdown 4 0 0", "shutdown 4 1 1", "close 4", "getters 4", "shutdown 4 0 0", "sendto 5 4 2 10"]
        out.append(s)
        # timeouts: accept on an empty queue, receive without data, datagram receive without data; not before T
        for T in (30, 120):
            s = ["scenario", "new 1 %d tcp" % fam, "bind 1", "listen 1", "set 1 timeout %d" % T, "accept 6 1", "new 2 %d tcp" % fam, "connect 2 1", "accept 3 1",
                 "set 3 timeout %d" % T, "recv 3 10", "set 3 timeout 0", "send 2 5", "recv 3 10"] + udp_pair(fam) + ["set 4 timeout %d" % T, "recvfrom 4 10"]
            out.append(s)
        # non-blocking: return at once
        s = ["scenario", "new 1 %d tcp" % fam, "bind 1", "listen 1", "set 1 blocking 0", "accept 6 1", "new 2 %d tcp" % fam, "set 2 blocking 0", "connect 2 1", "sleepms 30",
             "set 1 blocking 1", "set 1 timeout 200", "accept 3 1", "set 3 blocking 0", "recv 3 10", "set 2 blocking 1", "send 2 7", "sleepms 30", "recv 3 10"] + udp_pair(fam) + \
            ["set 4 blocking 0", "recvfrom 4 10", "sendto 5 4 9 20", "sleepms 30", "recvfrom 4 100"]
        out.append(s)
        # refused connection, blocking and non-blocking; backlog rules; keepalive
        s = ["scenario", "new 2 %d tcp" % fam, "connectdead 2", "new 7 %d tcp" % fam, "set 7 blocking 0", "connectdead 7", "new 1 %d tcp" % fam, "set 1 backlog 9", "getters 1",
             "bind 1", "listen 1", "set 1 backlog 3", "getters 1", "set 1 keepalive 1", "set 1 keepalive 0", "set 1 timeout -4", "getters 1"]
        out.append(s)
        # signals that arrive while a timed call has been waiting for a while (poll reports EINTR after 90 ms, twice): the call still runs out
        # of time only after T, and a peer that acts before T is still served; an interrupted connect is restarted
        s = ["scenario"] + tcp_pair(fam) + ["set 3 timeout 300", "plan poll:LATE90,poll:LATE90", "recv 3 10",
                                            "set 3 timeout 400", "plan poll:LATE90,poll:LATE90", "bg recv 3 10", "sleepms 280", "send 2 6", "join",
                                            "new 7 %d tcp" % fam, "plan connect:EINTR", "connect 7 1", "getters 7",
                                            "new 8 %d tcp" % fam, "plan connect:EINTR,connect:EINTR,connect:EINTR", "connect 8 1", "getters 8"] + udp_pair(fam) + \
            ["set 4 timeout 250", "plan poll:LATE70,poll:LATE70,poll:LATE70", "recvfrom 4 10", "plan connect:EINTR", "connect 5 4"]
        out.append(s)
        # non-blocking connect completed through the public wait and check_connect_result; addresses; buffer sizes
        s = ["scenario", "new 1 %d tcp" % fam, "bind 1", "listen 1", "new 2 %d tcp" % fam, "set 2 blocking 0", "connect 2 1", "set 2 timeout 500", "iowait 2 2", "ccr 2", "getters 2",
             "set 1 timeout 500", "accept 3 1", "addrs 2", "addrs 3", "addrs 1", "bufsize 2 0 8192", "bufsize 3 1 8192", "set 3 timeout 40", "iowait 3 1", "send 2 9", "sleepms 30", "iowait 3 1", "recv 3 20",
             "iowait 1 1", "new 7 %d tcp" % fam, "connect 7 1", "iowait 1 1", "accept 8 1", "addrs 8", "addrs 7"] + udp_pair(fam) + ["addrs 4", "set 4 timeout 40", "iowait 4 1", "sendto 5 4 1 10", "sleepms 20", "iowait 4 1", "iowait 4 2"]
        out.append(s)
        # empty and one-byte datagrams are datagrams: delivered in order with the sender's address, in blocking and non-blocking mode
        s = ["scenario"] + udp_pair(fam) + ["set 4 timeout 300", "sendto 5 4 1 10", "sendto 5 4 2 0", "sendto 5 4 3 1", "sendto 5 4 4 20", "sleepms 20",
                                            "recvfrom 4 100", "recvfrom 4 100", "recvfrom 4 100", "recvfrom 4 100", "set 4 blocking 0", "sendto 5 4 5 0", "sleepms 20", "recvfrom 4 100", "recvfrom 4 100"]
        out.append(s)
        # a listen call that fails leaves the socket as it was: later option calls still take effect and the getters show them
        s = ["scenario"] + udp_pair(fam) + ["getters 4", "listen 4", "set 4 backlog 7", "getters 4", "set 4 backlog 2", "getters 4", "listen 4", "set 4 backlog 11", "getters 4",
                                            "set 4 timeout 25", "recvfrom 4 10", "close 4", "listen 4", "set 4 backlog 3", "getters 4"]
        out.append(s)
        # a connection attempt that cannot complete (accept queue full, nobody accepts): timed-out error after T, socket stays unconnected
        s = ["scenario", "new 1 %d tcp" % fam, "set 1 backlog 0", "bind 1", "listen 1", "fill 1", "new 2 %d tcp" % fam, "set 2 timeout 300", "connectfull 2 1", "getters 2",
             "new 7 %d tcp" % fam, "set 7 blocking 0", "connectfull 7 1", "getters 7", "close 2", "connectfull 2 1"]
        out.append(s)
        # connect on a connected socket: whatever the repeated call returns, the connection and the getters stay (stream: the OS reports
        # "already connected" from the second or third call on; datagram: an address of the other family cannot be associated)
        s = ["scenario"] + tcp_pair(fam) + ["reconnect 2 1", "getters 2", "reconnect 2 1", "reconnect 2 1", "getters 2", "send 2 5", "recv 3 10", "reconnect 2 0", "getters 2",
                                            "new 7 %d tcp" % fam, "set 7 blocking 0", "connect 7 1", "set 7 timeout 500", "iowait 7 2", "ccr 7", "reconnect 7 1", "reconnect 7 1", "getters 7"] + \
            udp_pair(fam) + ["connect 5 4", "getters 5", "reconnect 5 0", "getters 5", "reconnect 5 4", "getters 5"]
        out.append(s)
        # writing to a peer that has gone yields an error, not a signal - through either send call, however often it is repeated
        s = ["scenario"] + tcp_pair(fam) + ["send 2 5 1", "recv 3 10", "close 3", "send 2 5 1", "sleepms 30", "send 2 5 1", "send 2 5", "send 2 5 1", "getters 2",
                                            "new 7 %d tcp" % fam, "connect 7 1", "accept 8 1", "free 8", "send 7 3", "sleepms 30", "send 7 3 1", "send 7 3 1", "send 7 3"]
        out.append(s)
        # options of the listener and of the accepted socket: keep-alive set on the listener before accept, read and cleared through the accepted socket
        s = ["scenario", "new 1 %d tcp" % fam, "set 1 keepalive 1", "bind 1", "listen 1", "getters 1", "new 2 %d tcp" % fam, "connect 2 1", "accept 3 1", "getters 3",
             "set 3 keepalive 0", "getters 3", "set 3 keepalive 1", "getters 3", "set 1 keepalive 0", "new 7 %d tcp" % fam, "connect 7 1", "accept 8 1", "getters 8", "set 8 keepalive 1", "getters 8"]
        out.append(s)
        # blocking without timeout waits until it can proceed: the receiver is parked, then the peer sends
        s = ["scenario"] + tcp_pair(fam) + ["bg recv 3 10", "sleepms 60", "send 2 4", "join", "bg accept 8 1", "sleepms 60", "new 9 %d tcp" % fam, "connect 9 1", "join"]
        out.append(s)
    return out


def relinearize(evs):
    """The return of a parked background call (receive / accept) that was logged between the call and the return of a foreground
    call is concurrent with that foreground call: its linearization point may lie after the foreground call's.  SockTrace applies
    effects at return events, so the alternative order is expressed by moving the background return behind the foreground return."""
    out = list(evs)
    i = 0
    moved = 0
    while i < len(out):
        e = out[i]
        if e.get("e") == "sret" and e.get("bg") == 1:
            # inside a foreground call window?
            open_fg = None
            for j in range(i - 1, -1, -1):
                x = out[j]
                if x.get("e") == "Reset":
                    break
                if x.get("bg") == 0 and x.get("e") == "sret":
                    break
                if x.get("bg") == 0 and x.get("e") == "scall":
                    open_fg = j
                    break
            if open_fg is not None:
                for j in range(i + 1, len(out)):
                    if out[j].get("e") == "sret" and out[j].get("bg") == 0:
                        out.insert(j, out.pop(i))      # now directly behind the foreground return (indices shift by one)
                        moved += 1
                        i -= 1
                        break
        i += 1
    return out, moved


def validate_sock(ctx, cfg, tp):
    """validate one socket trace; a rejection is re-examined under the alternative linearization of concurrent returns"""
    ok, matched = ctx.validate("net/SockTrace.tla", cfg, tp)
    if ok:
        return ok, matched
    evs = [json.loads(x) for x in open(tp)]
    alt, moved = relinearize(evs)
    if not moved:
        return ok, matched
    ap = traces.write(alt, tp + ".alt.ndjson")
    ok2, matched2 = ctx.validate("net/SockTrace.tla", cfg, ap)
    if ok2:
        ctx.notes.append("%s accepted under the alternative order of %d concurrent background return(s)" % (os.path.basename(tp), moved))
        return True, matched2
    return ok, matched


def run(ctx):
    mode = MODE[ctx.pid]
    rng = ctx.rng
    plans, nst, ned = plan_scenarios(ctx)
    scen = [(l, info) for l, info in plans]
    for s in life_scenarios(rng):
        scen.append((s, None))
    for _ in range(25 if ctx.quick else 300):
        scen.append((random_history(rng), None))
    ctx.extra["fault_plans"] = {"sockloop_states": nst, "sockloop_edges": ned, "plans": len(plans)}
    exe = build.driver("drv_sock", ["drv_sock.c"], variant="default", wraps=WRAPS)
    exe_asan = build.driver("drv_sock", ["drv_sock.c"], variant="asan", wraps=WRAPS)
    # group scenarios into driver runs (one trace each); a failing scenario is re-validated alone
    groups = [scen[i:i + 30] for i in range(0, len(scen), 30)]
    files = []
    sysdrift = 0
    hung = False
    for gi, grp in enumerate(groups):
        sp, tp = ctx.path("k%d.script" % gi), ctx.path("k%d.ndjson" % gi)
        open(sp, "w").write("\n".join("\n".join(l) for l, _ in grp) + "\n")
        ex = exe_asan if gi % 3 == 2 else exe
        # (a driver that hangs is given up after 150 s, twice; once a hang is established the remaining groups get 45 s and one attempt)
        rc, out, to = run_driver([ex, sp, tp], timeout=150 if not hung else 45)
        if rc != 0 or to:
            if not hung:
                rc, out, to = run_driver([ex, sp, tp], timeout=150)
            if rc != 0 or to:
                hung = hung or to
                kind = "hang" if to else ("killed-by-signal" if rc < 0 else "memory-error" if "Sanitizer" in out else "crash")
                ctx.violation("%s:%s" % (mode, kind), "socket scenarios: driver %s (rc=%s): %s" % (kind, rc, out[-400:]), [sp])
                continue
        evs = [json.loads(x) for x in open(tp)]
        ctx.events += len(evs)
        files.append((sp, tp, grp))
        # I-level: system-call sequence of the planned calls vs SockLoop (DRIFT only)
        k = -1
        infos = [info for _, info in grp]
        seen_plan = False
        for e in evs:
            if e["e"] == "Reset":
                k += 1
                seen_plan = False
            elif e["e"] == "sret" and 0 <= k < len(infos) and infos[k] and e["op"] == infos[k]["call"] and not seen_plan and ("!" in e["sys"] or not infos[k]["plan"]):
                if infos[k]["plan"] and "!" not in e["sys"]:
                    continue
                seen_plan = True
                calls = [x for x in e["sys"].split() if not x.startswith("!")]
                want = infos[k]["sysseq"]
                if calls[: len(want)] != want:
                    sysdrift += 1
                    if len(ctx.drift) < 5:
                        ctx.drift.append({"call": infos[k]["call"], "plan": infos[k]["plan"], "observed": calls, "model": want})
    ctx.extra["syscall_sequence_mismatches"] = sysdrift
    cfg = "SockTrace_%s.cfg" % mode
    from concurrent.futures import ThreadPoolExecutor
    with ThreadPoolExecutor(8) as ex:
        res = list(ex.map(lambda t: (t,) + validate_sock(ctx, cfg, t), [t for _, t, _ in files]))
    for (sp, tp, grp), (_, ok, matched) in zip(files, res):
        if ok:
            ctx.behaviours += len(grp)
            continue
        evs = [json.loads(x) for x in open(tp)]
        ev = evs[matched[0]] if matched[0] is not None and matched[0] < len(evs) else None
        # scenario context
        start = max([i for i in range(matched[0] + 1) if evs[i]["e"] == "Reset"] or [0])
        ops = ["%s %s" % (e["op"], e["h"]) for e in evs[start:matched[0] + 1] if e["e"] == "scall"][-8:]
        sig = "%s:%s" % (mode, ev["op"] if ev and "op" in ev else "?")
        if ev and ev.get("e") == "sret":
            if ev["ok"] == 0:
                sig += ":err%d" % ev["err"]
            elif ev.get("dataok") == 0:
                sig += ":corrupt"
        ctx.violation(sig, "socket history rejected by SockTrace[%s] at event %s: %s; preceding calls: %s" % (mode, matched[0], json.dumps(ev)[:400], ops), [sp, tp])
    if files:
        for i, line in enumerate(open(files[0][1])):
            if i in (2, 3, 12, 13):
                ctx.sample(json.loads(line))
        evs = [json.loads(x) for x in open(files[0][1])]
        for i, e in enumerate(evs):
            if mode == "io" and e["e"] == "sret" and e["op"] == "recv" and e["ok"] == 1 and e["res"] > 0:
                e["off"] += 1
                break
            if mode == "life" and e["e"] == "sret" and e["op"] == "new":
                e["cloexec"] = 0
                break
        p = traces.write(evs[: i + 2], ctx.path("selftest.ndjson"))
        ok, matched, r = tlc.validate_trace("net/SockTrace.tla", p, cfg=cfg)
        if ok:
            raise Machinery("self-test: corrupted socket trace accepted")
        ctx.extra["selftest"] = "corrupted %s rejected" % ("stream offset" if mode == "io" else "close-on-exec flag")
    ctx.assumptions += ["loopback interface (IPv4 and IPv6), one process; a timed-out connect cannot be produced on loopback and is not covered",
                        "faults are injected by link-time wrappers around poll/send/recv/sendto/recvfrom/accept; short transfers are real transfers of fewer bytes",
                        "timeouts are lower bounds measured with CLOCK_MONOTONIC around the call"]
    ctx.exhaustive = False
