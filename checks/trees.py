"""C12 / C13 / C14: PTree as sorted map, balance, ownership.  One pipeline, three verdict modes."""
import json, os
import build, tlc, behaviours
from core import Machinery, run_driver

KINDS = [("bst", 0), ("rb", 1), ("avl", 2)]
MODE = {"C12": "map", "C13": "bal", "C14": "own"}
MAXEV = 12000


def strip_shape(x):
    return [] if not x else [strip_shape(x[0]), x[1], strip_shape(x[2])]


def gen_walk_scripts(ctx, kind, ty, n, rng):
    """TLC BFS of TreeShape for `kind` over n keys -> edge-cover walks -> driver scripts with expected shapes."""
    dump = ctx.path("g_%s_%d" % (kind, n))
    cfg = ctx.path("TreeShape_%s_%d.cfg" % (kind, n))
    with open(cfg, "w") as fh:
        fh.write('SPECIFICATION Spec\nCONSTANTS Keys = {%s}\n          Kind = "%s"\nINVARIANTS ShapeRefinesMap Balanced\n'
                 % (",".join(str(i) for i in range(1, n + 1)), kind))
    r = ctx.design_must_hold("data/TreeShape.tla", cfg=cfg, coverage=False, dump=dump)
    g = behaviours.parse_dot(dump + ".dot")
    os.unlink(dump + ".dot")
    ac = behaviours.action_counts(g)
    for a in ("SInsert", "SRemove"):
        if ac.get(a, 0) == 0:
            raise Machinery("vacuous: no %s edge in TreeShape graph for %s" % (a, kind))
    ctx.design[-1]["edges_by_action"] = ac
    shapes = {}
    for nid, lab in g.labels.items():
        shapes[nid] = strip_shape(behaviours.parse_state(lab)["t"])
    walks = behaviours.cover_walks(g, max_walk=1500, rng=rng)
    scripts = []
    # every walk is run with every notifier configuration (both, key only, value only, none): which notifiers exist changes the code paths
    for wi, (w, nf) in enumerate([(w_, nf_) for w_ in walks for nf_ in (1, 2, 3, 0)]):
        wd = (wi // 4 + nf) % 2
        lines = ["reset", "univ %d" % n, "new %d %d %d" % (ty, nf, wd)]
        expect = []
        for si, (lab, dst) in enumerate(w):
            name, args = behaviours.parse_label(lab)
            # an insert is made with fresh key and value objects, or (every third one) with the value object that is stored under the key already
            lines.append(("insv %d" if name == "SInsert" and (si + wi) % 3 == 0 else "ins %d" if name == "SInsert" else "rem %d") % args[0])
            lines.append("obs")
            expect.append(shapes[dst])
            if si % 3 == 0:
                lines.append("fst %d" % (1 + (si // 3) % (n + 1)))
        lines.append("fre")
        scripts.append((lines, expect))
    return scripts, g.nedges, len(g.labels), sum(len(w) for w in walks)


def gen_random_script(rng, ty, nkeys, nops, full_obs):
    lines = ["reset", "univ %d" % (nkeys if full_obs else 8), "new %d %d %d" % (ty, rng.randint(0, 3), rng.randint(0, 1))]
    phase = 0
    i = 0
    cnt = 0
    while cnt < nops:
        phase = rng.randint(0, 5)
        ln = rng.randint(5, max(6, nkeys))
        if phase == 0:      # ascending inserts
            seq = [("ins", k) for k in range(1, min(nkeys, ln) + 1)]
        elif phase == 1:    # descending inserts
            seq = [("ins", k) for k in range(nkeys, max(0, nkeys - ln), -1)]
        elif phase == 2:    # zig-zag
            seq = []
            lo, hi = 1, nkeys
            while lo <= hi and len(seq) < ln:
                seq.append(("ins", lo)); seq.append(("ins", hi)); lo += 1; hi -= 1
        elif phase == 3:    # remove from one side
            seq = [("rem", k) for k in range(1, min(nkeys, ln) + 1)]
        elif phase == 4:    # random removes
            seq = [("rem", rng.randint(1, nkeys)) for _ in range(ln)]
        else:
            seq = [(rng.choice(["ins", "ins", "rem"]), rng.randint(1, nkeys)) for _ in range(ln)]
        for op, k in seq:
            if op == "ins" and rng.random() < 0.04:
                lines.append("insfail %d" % k)      # memory runs out for the node (only carried out when the key is not stored)
            lines.append("%s %d" % (op, k))
            cnt += 1
            if full_obs:
                lines.append("obs")
                if cnt % 4 == 0:
                    lines.append("fst %d" % rng.randint(1, nkeys + 1))
            elif cnt % 150 == 0:
                lines.append("obsS 6 %d" % nkeys)
        if rng.random() < 0.05:
            lines.append("clr")
            lines.append("obs" if full_obs else "obsS 6 %d" % nkeys)
    lines.append("obs" if full_obs else "obsS 6 %d" % nkeys)
    lines.append("fre")
    return lines


def pack(ctx, scripts, prefix):
    """group scripts into files of <= MAXEV lines; returns list of (script_path, [scripts...])"""
    files = []
    cur, curlen, group = [], 0, []
    for s in scripts:
        lines = s[0]
        if cur and curlen + len(lines) > MAXEV:
            files.append((cur, group))
            cur, curlen, group = [], 0, []
        cur = cur + lines
        curlen += len(lines)
        group.append(s)
    if cur:
        files.append((cur, group))
    out = []
    for i, (lines, group) in enumerate(files):
        p = ctx.path("%s_%d.script" % (prefix, i))
        with open(p, "w") as fh:
            fh.write("\n".join(lines) + "\n")
        out.append((p, group))
    return out


def first_bad_event(trace, matched):
    try:
        with open(trace) as fh:
            lines = fh.readlines()
        return json.loads(lines[matched]) if matched is not None and matched < len(lines) else None
    except Exception:
        return None


def run(ctx):
    mode = MODE[ctx.pid]
    rng = ctx.rng
    n = 6 if ctx.quick else 7
    exe = build.driver("drv_tree", ["drv_tree.c"], variant="default")
    exe_asan = build.driver("drv_tree", ["drv_tree.c"], variant="asan")
    # ---- M1: P-spec
    ctx.design_must_hold("data/TreeMap.tla", expect_actions=["DoNew", "DoInsert", "DoRemove", "DoClear", "DoFree"])
    # ---- M2: behaviours per kind
    jobs = []   # (kindname, script_path, group, exe)
    for kind, ty in KINDS:
        scripts, nedges, nstates, steps = gen_walk_scripts(ctx, kind, ty, n, rng)
        ctx.extra.setdefault("edge_cover", {})[kind] = {"keys": n, "graph_states": nstates, "graph_edges": nedges, "ops_walked": steps, "walks": len(scripts)}
        for p, group in pack(ctx, scripts, "walk_" + kind):
            jobs.append((kind, p, group, exe if len(jobs) % 2 == 0 else exe_asan))
        # random histories: small universe with full observation, large universe sparse
        rs = [(gen_random_script(rng, ty, 12, 600 if ctx.quick else 4000, True), None)]
        rs.append((gen_random_script(rng, ty, 300 if ctx.quick else 1500, 3000 if ctx.quick else 12000, False), None))
        for p, group in pack(ctx, rs, "rand_" + kind):
            jobs.append((kind, p, group, exe_asan if ctx.quick else exe))
    # a worst-case AVL tree of height 35 (24 million pairs): the deepest leaf is removed, then the shape is rebuilt from lookup paths (C13 in
    # both tiers - 10 s, 1.5 GB; the other two properties in the thorough tier)
    if mode == "bal" or not ctx.quick:
        for p, group in pack(ctx, [(["reset", "univ 6", "deep 35"], None)], "deep_avl"):
            jobs.append(("avl", p, group, exe))
    # ---- M3: run on the real code
    traces = []
    hung = False
    for kind, sp, group, ex in jobs:
        tp = sp[:-7] + ".ndjson"
        # (a driver that hangs is given up after 120 s, twice; once a hang is established the remaining files get 30 s and one attempt)
        rc, out, to = run_driver([ex, sp, tp], timeout=120 if not hung else 30)
        if to or rc != 0:
            rc2, out2, to2 = (rc, out, to) if hung else run_driver([ex, sp, tp], timeout=120)
            hung = hung or bool(to2)
            if to2 or rc2 != 0:
                what = "driver %s on a legal operation sequence (%s): %s" % (
                    "did not terminate" if to2 else "crashed rc=%d" % rc2, kind, (out2 or "")[-1500:])
                # a crash / sanitizer report / hang is a violation of the map property; for the other two
                # properties it only makes this run inconclusive for that file
                if mode == "map":
                    ctx.violation("map:%s:%s" % (kind, "hang" if to2 else "crash"), what, [sp])
                    continue
                # the other two properties are judged on the prefix recorded before the crash (a truncated last line is dropped)
                ctx.notes.append("driver died on this file (reported by C12); validating the recorded prefix: " + what[:200])
                try:
                    good = [ln for ln in open(tp).read().split("\n") if ln.endswith("}")]
                    open(tp, "w").write("\n".join(good) + "\n")
                except OSError:
                    continue
        traces.append((kind, sp, tp, group))
    # I-level shape comparison (DRIFT only)
    nobs = 0
    for kind, sp, tp, group in traces:
        exp = []
        for s in group:
            if s[1] is not None:
                exp.append(s[1])
        if not exp:
            continue
        gi, oi = 0, 0
        expect = None
        with open(tp) as fh:
            for line in fh:
                ev = json.loads(line)
                ctx.events += 1
                if ev["e"] == "new":
                    expect = exp[gi] if gi < len(exp) else None
                    gi += 1
                    oi = 0
                elif ev["e"] == "obs" and expect is not None and oi < len(expect):
                    want = expect[oi]
                    oi += 1
                    nobs += 1
                    if want is not None and ev["shape"] != want and len(ctx.drift) < 5:
                        ctx.drift.append({"kind": kind, "file": os.path.basename(tp), "observed": ev["shape"], "model": want})
    ctx.behaviours += sum(len(g) for _, _, _, g in traces)
    ctx.extra["shape_observations_compared_with_ispec"] = nobs
    # ---- M4: validate against the P-spec
    res = ctx.validate_many("data/TreeTrace.tla", "TreeTrace_%s.cfg" % mode, [t[2] for t in traces])
    for (kind, sp, tp, group), (f, ok, matched) in zip(traces, res):
        if ok:
            continue
        ev = first_bad_event(tp, matched[0])
        ctx.violation("%s:%s:%s" % (mode, kind, ev["e"] if ev else "?"),
                      "PTree (%s) trace rejected by TreeTrace[%s] after %s of %s events; first unexplained event: %s"
                      % (kind, mode, matched[0], matched[1], json.dumps(ev)[:600]), [sp, tp])
    if traces:
        with open(traces[0][2]) as fh:
            for i, line in enumerate(fh):
                if i in (3, 4, 5):
                    ctx.sample(json.loads(line))
    # ---- binding self-test: a corrupted trace must be rejected
    selftest(ctx, mode, traces)
    ctx.assumptions += [
        "key identity = distinct heap block per inserted key/value; comparator is a total order on an int field",
        "shape is reconstructed from the (searched key, node key) pairs the user comparator sees during p_tree_lookup",
        "exhaustive part: every edge of the TreeShape graph over %d keys per tree type; random part is sampled" % n,
    ]
    ctx.exhaustive = False


def selftest(ctx, mode, traces):
    """corrupt one field that the mode under test must notice"""
    src = None
    for kind, sp, tp, group in traces:
        if "walk_" in tp and not (mode == "bal" and kind == "bst"):
            src = tp
            break
    if src is None:
        return
    lines = open(src).read().split("\n")
    done = False
    for i, line in enumerate(lines[:4000]):
        if not line:
            continue
        ev = json.loads(line)
        if mode == "map" and ev["e"] == "obs" and ev["n"] >= 2:
            ev["seq"] = ev["seq"][1:] + ev["seq"][:1]
        elif mode == "own" and ev["e"] == "rem" and ev["res"] == 1 and ev["d"]:
            ev["d"] = ev["d"][:1]
        elif mode == "bal" and ev["e"] == "obs" and ev["n"] >= 3:
            # degenerate the shape into a right spine
            ks = [p[0] for p in ev["seq"]]
            sh = []
            for k in reversed(ks):
                sh = [[], k, sh]
            ev["shape"] = sh
        else:
            continue
        lines[i] = json.dumps(ev)
        done = True
        break
    if not done:
        return
    p = ctx.path("selftest.ndjson")
    with open(p, "w") as fh:
        fh.write("\n".join(lines[:i + 50]) + "\n")
    ok, matched, r = tlc.validate_trace("data/TreeTrace.tla", p, cfg="TreeTrace_%s.cfg" % mode)
    if ok:
        raise Machinery("self-test: corrupted trace accepted by TreeTrace[%s]" % mode)
    ctx.extra["selftest"] = "corrupted event %d rejected (matched %s)" % (i + 1, matched[0])
