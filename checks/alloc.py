"""C18: allocation failure at any point - clean failure, no crash, leak or damage."""
import json, os, re, subprocess
import build, tlc, traces, ipcnames
from core import Machinery, run_driver


def entry_points():
    """public functions of /repo/src whose body (or a static helper in the same file) allocates: used to detect uncovered ones"""
    src = os.path.join(build.REPO, "src")
    return src


def _validate_group(ctx, evs, path, label, gi):
    """children are independent (the child event resets the ledger): after a rejection continue behind the rejected child"""
    start, part, found = 0, 0, []
    while start < len(evs):
        chunk = evs[start:]
        p = traces.write(chunk, "%s.g%d_%d" % (path, gi, part))
        part += 1
        ok, matched = ctx.validate("sys/AllocTrace.tla", "AllocTrace.cfg", p)
        if ok:
            break
        i = matched[0]
        ev = chunk[i]
        j = i
        while chunk[j]["e"] != "child":
            j += 1
        child = chunk[j]
        f = "?"
        for e in reversed(chunk[:i + 1]):
            if e["e"] == "begin":
                f = e["f"]
                break
        if ev["e"] == "child":
            kind = "crash" if ev["status"] != "ok" else "?"
        elif ev["e"] == "quiesce" and ev.get("live", 0) == 0 and (ev.get("maps", 0) != 0 or ev.get("fds", 0) != 0):
            kind = "libc-leak"      # (same attribution: the call in which the refusal happened) - renamed below
        elif ev["e"] == "quiesce":
            kind = "leak"
        elif ev["e"] == "lsan":
            kind = "libc-leak"
        elif ev["e"] == "free":
            kind = "bad-free"
        elif ev["e"] == "end":
            kind = "inconsistent" if (ev["consistent"] != 1 or ev["preserved"] != 1) else "fails-without-refusal"
        else:
            kind = ev["e"]
        if kind == "libc-leak":
            # the call in which the refusal happened is the one that left memory of the C library behind
            s0 = max([x for x in range(i) if chunk[x]["e"] == "child"] or [-1]) + 1
            cur = "?"
            for e in chunk[s0:i]:
                if e["e"] == "begin":
                    cur = e["f"]
                elif e["e"] in ("alloc", "realloc") and e["ok"] == 0:
                    f = cur
                    break
        if kind == "libc-leak" and ev["e"] == "quiesce":
            kind = "mapping-or-descriptor-leak"
        if kind == "leak":
            livef, cur = {}, "?"
            s0 = max([x for x in range(i) if chunk[x]["e"] == "child"] or [-1]) + 1
            for e in chunk[s0:i]:
                if e["e"] == "begin":
                    cur = e["f"]
                elif e["e"] in ("alloc", "realloc") and e["ok"] == 1:
                    livef[e["id"]] = cur
                    if e["e"] == "realloc":
                        livef.pop(e["old"], None)
                elif e["e"] in ("free", "residue"):
                    livef.pop(e["id"], None)
            f = sorted(set(livef.values()))[0] if livef else f
        # the signature names the call and the kind of failure, not the build it was seen on (the same defect shows on every build)
        found.append(("default:%s:%s" % (f, kind), "%s: program %s, allocation #%d refused (%s): %s in/after %s: %s" % (
            label, child["prog"], child["k"], {0: "none", 1: "once", 2: "this and all later"}[child["mode"]], kind, f, json.dumps(ev)[:200]), p))
        start += j + 1
    return found


def validate_all(ctx, path, label):
    from concurrent.futures import ThreadPoolExecutor
    evs = [json.loads(x) for x in open(path)]
    ctx.events += len(evs)
    # split into groups of whole children
    children, cur = [], []
    for e in evs:
        cur.append(e)
        if e["e"] == "child":
            children.append(cur)
            cur = []
    ng = max(1, min(8, len(children) // 6))
    groups = [[] for _ in range(ng)]
    per = (len(children) + ng - 1) // ng
    for i, c in enumerate(children):
        groups[i // per].extend(c)
    with ThreadPoolExecutor(8) as ex:
        res = list(ex.map(lambda a: _validate_group(ctx, a[1], path, label, a[0]), list(enumerate(groups))))
    for found in res:
        for sig, what, p in found:
            ctx.violation(sig, what, [p])
    return len(children)


def run(ctx):
    prefix = "vf%d" % os.getpid()
    ctx.design_must_hold("sys/AllocLedgerDesign.tla", cfg="AllocLedgerDesign.cfg", expect_actions=["InsertOK", "InsertFail2", "RemoveAll"])
    r = ctx.design_check("sys/AllocLedgerDesign.tla", cfg="AllocLedgerDesign_leaky.cfg")
    if r.ok:
        raise Machinery("non-vacuity: the leaking variant was not rejected by NoLeakAtEnd")
    total = 0
    cover = {}
    try:
        variants = (("asan", None), ("asan+general", ["sync"]), ("asan+sim", ["sync", "thread"])) if ctx.quick else \
            (("asan", None), ("asan+general", None), ("asan+sim", None), ("asan+sync", None), ("default", None))
        for variant, progs in variants:
            exe = build.driver("drv_alloc", ["drv_alloc.c"], variant=variant)
            rc, out, to = run_driver([exe, "list"])
            names = out.split()
            for prog in names:
                if progs is not None and prog not in progs:
                    continue
                tdir = ctx.path("tmp_%s_%s" % (variant.replace("+", "_"), prog))
                os.makedirs(tdir, exist_ok=True)
                tp = ctx.path("a_%s_%s.ndjson" % (variant.replace("+", "_"), prog))
                rc, out, to = run_driver([exe, "run", prog, tp, tdir, prefix], timeout=600,
                                         env={"ASAN_OPTIONS": "detect_leaks=1:leak_check_at_exit=0:abort_on_error=1:handle_abort=0:handle_segv=0"})
                if rc != 0 or to:
                    raise Machinery("drv_alloc %s failed rc=%s %s" % (prog, rc, out[-300:]))
                m = re.search(r"allocations=(\d+)", out)
                cover["%s/%s" % (variant, prog)] = int(m.group(1)) if m else -1
                total += validate_all(ctx, tp, variant if variant != "asan" else "default")
                ipcnames.cleanup([prefix + "_al"])
    finally:
        ipcnames.cleanup([prefix + "_al"])
    ctx.behaviours += total
    # which public entry points do the programs reach? (informational: an allocating function without a program is not covered)
    pub = set()
    for h in os.listdir(os.path.join(build.REPO, "src")):
        if h.endswith(".h"):
            pub |= set(re.findall(r"P_LIB_API[^;(]*?\b(p_[a-z0-9_]+)\s*\(", open(os.path.join(build.REPO, "src", h)).read(), re.S))
    used = set(re.findall(r"\b(p_[a-z0-9_]+)\s*\(", open(os.path.join(build.HARNESS, "drv_alloc.c")).read()))
    ctx.extra["public_entry_points"] = len(pub)
    ctx.extra["entry_points_in_programs"] = len(pub & used)
    ctx.extra["entry_points_not_in_programs"] = sorted(pub - used)
    ctx.extra["programs_and_allocations"] = cover
    ctx.extra["fault_positions_run"] = total
    if any(v == 0 for v in cover.values()):
        ctx.notes.append("programs that made no allocation through the table: %s" % [k for k, v in cover.items() if v == 0])
    ctx.sample({"program": "tree_avl", "meaning": "each allocation k of the program is refused once, and from k onwards; every run is a child process whose ledger trace TLC validates"})
    ctx.assumptions += ["programs are representative call sequences per module (harness/drv_alloc.c); an entry point without a program is not covered",
                        "the library's own start-up and shutdown allocations are outside the ledger (the table is installed after p_libsys_init)",
                        "memory errors are observed through the ASan+UBSan build: a report aborts the child, which the spec rejects"]
    ctx.exhaustive = True
