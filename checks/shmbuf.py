"""C08: PShmBuffer is one bounded FIFO byte queue for all handles of a name."""
import json, os
import build, tlc, behaviours, ipcnames, traces
from core import Machinery, run_driver


def concurrent_part(ctx, prefix, names):
    """atomicity: producers / consumers as threads and as processes; TLC searches a linearization"""
    rng = ctx.rng
    exe = build.driver("drv_shmbuf_conc", ["drv_shmbuf_conc.c"], variant="default")
    cfgs = [(1, 1, 1, 0), (3, 2, 2, 0), (8, 2, 2, 1), (16, 3, 3, 0), (5, 4, 1, 1), (2, 1, 3, 1)]
    if not ctx.quick:
        cfgs = cfgs + [(c, p_, k, pr) for c in (1, 4, 13, 32) for (p_, k) in ((1, 1), (2, 3), (4, 4)) for pr in (0, 1)]
    eps, ops = (4, 120) if ctx.quick else (10, 250)
    jobs = []
    for i, (cap, np_, nc, procs) in enumerate(cfgs):
        nm = "%s_c%d" % (prefix, i)
        names.append(nm)
        base = ctx.path("conc%d" % i)
        rc, out, to = run_driver([exe, base, nm, str(cap), str(np_), str(nc), str(eps), str(ops), str(procs), str(rng.randint(1, 10 ** 6))], timeout=120)
        if to or rc != 0:
            rc2, out2, to2 = run_driver([exe, base, nm, str(cap), str(np_), str(nc), str(eps), str(ops), str(procs), str(rng.randint(1, 10 ** 6))], timeout=120)
            if to2 or rc2 != 0:
                ctx.violation("conc:%s" % ("hang" if to2 else "crash"), "concurrent producers/consumers (cap=%d %dx%d procs=%d): %s %s" % (cap, np_, nc, procs, "hang" if to2 else "rc=%d" % rc2, out2[-500:]), [])
                continue
        p, evs = traces.merge(base, annotate={"res": "xres", "data": "xdata"})
        ctx.events += len(evs)
        jobs.append((p, cap, (cap, np_, nc, procs), evs))
    from concurrent.futures import ThreadPoolExecutor
    def val(j):
        return ctx.validate("ipc/ShmBufLin.tla", "ShmBufLin.cfg", j[0], env={"CAP_": str(j[1])}, timeout=600 if ctx.quick else 3000)
    with ThreadPoolExecutor(6) as ex:
        res = list(ex.map(val, jobs))
    for j, (ok, matched) in zip(jobs, res):
        if not ok:
            ev = j[3][matched[0]] if matched[0] is not None and matched[0] < len(j[3]) else None
            ctx.violation("conc:not-linearizable", "concurrent history (cap,prod,cons,procs)=%s has no linearization as one FIFO; stuck at event %s: %s" % (j[2], matched[0], json.dumps(ev)[:300]), [j[0]])
    ctx.extra["concurrent_histories"] = [{"cap,prod,cons,procs": j[2], "events": len(j[3])} for j in jobs]
    # binding self-test: corrupt one byte returned by a read
    if jobs:
        evs = [dict(e) for e in jobs[0][3]]
        for i, e in enumerate(evs):
            if e["e"] == "ret" and e["data"]:
                e["data"] = [(e["data"][0] + 1) % 256] + e["data"][1:]
                break
        p = traces.write(evs[:i + 40], ctx.path("selftest_conc.ndjson"))
        ok, matched, r = tlc.validate_trace("ipc/ShmBufLin.tla", p, cfg="ShmBufLin.cfg", env={"CAP_": str(jobs[0][1])})
        if ok:
            raise Machinery("self-test: corrupted concurrent history accepted")
        ctx.extra["selftest_conc"] = "corrupted ret event %d rejected" % (i + 1)


def walks_to_scripts(ctx, cap, g, rng, name_no):
    pos = {}
    for nid, lab in g.labels.items():
        st = behaviours.parse_state(lab)
        pos[nid] = (st["rpos"], st["wpos"])
    walks = behaviours.cover_walks(g, max_walk=1200, rng=rng)
    scripts = []
    for wi, w in enumerate(walks):
        name_no[0] += 1
        # handle 1 creates; extra handles with equal / larger / zero size arguments must see the same queue
        extra = [(2, cap), (3, cap + 7), (4, 0)][: wi % 4]
        lines = ["reset", "name %d" % name_no[0], "bnew 1 %d" % cap] + ["bnew %d %d" % (h, s) for h, s in extra]
        hs = [1] + [h for h, s in extra]
        expect = []
        for si, (lab, dst) in enumerate(w):
            name, args = behaviours.parse_label(lab)
            h = hs[si % len(hs)]
            if name == "RWrite":
                lines.append("bw %d %s" % (h, " ".join(str(b) for b in args[0])))
            elif name == "RRead":
                lines.append("br %d %d" % (h, args[0]))
            else:
                lines.append("bclr %d" % h)
            expect.append(pos[dst])
            lines.append("bsp %d" % hs[(si + 1) % len(hs)])
            expect.append(pos[dst])
        for h in reversed(hs):
            lines.append("bfree %d" % h)
        scripts.append((lines, expect, cap))
    return scripts, sum(len(w) for w in walks)


def page_script(rng, name_no, pages):
    """a segment that ends exactly at a page boundary (capacity + 17 header bytes = whole pages): nothing may be touched behind it"""
    cap = 4096 * pages - 17
    name_no[0] += 1
    lines = ["reset", "name %d" % name_no[0], "bnew 1 %d" % cap, "bnew 2 0", "bsp 1"]
    used = 0
    for i in range(40):
        h = rng.choice([1, 2])
        r = rng.random()
        if r < 0.4:
            ln = rng.choice([1, 7, 100, 700])
            if ln <= cap - used:
                lines.append("bw %d %s" % (h, " ".join(str(rng.randint(0, 255)) for _ in range(ln))))
                used += ln
        elif r < 0.7:
            ln = rng.choice([0, 1, 50, 800])
            lines.append("br %d %d" % (h, ln))
            used -= min(ln, used)
        else:
            lines.append("bclr %d" % h)
            used = 0
        lines.append("bsp %d" % rng.choice([1, 2]))
    lines += ["bfree 2", "bfree 1"]
    return lines


def random_script(rng, name_no, nops, smaller=False):
    cap = rng.choice([1, 2, 3, 7, 8, 9, 15, 16, 17, 63, 64, 100, 255, 256, 300])
    name_no[0] += 1
    lines = ["reset", "name %d" % name_no[0], "bnew 1 %d" % cap]
    hs = [1]
    if smaller:
        lines.append("bnew 2 %d" % max(1, cap // 2))
        hs.append(2)
        lines.append("bsp 2")
    else:
        for h, s in ((2, cap), (3, cap * 2 + 1), (4, 0)):
            if rng.random() < 0.6:
                lines.append("bnew %d %d" % (h, s))
                hs.append(h)
    used = 0
    late = [5, 6, 7]
    for i in range(nops):
        if not smaller and late and rng.random() < 0.06:
            # one more handle in the middle of the history, opened with an equal / larger / zero size argument: it joins the queue as it is
            h = late.pop(0)
            lines.append("bnew %d %d" % (h, rng.choice([cap, cap * 2 + 1, 0, cap + 1])))
            hs.append(h)
            lines.append("bsp %d" % h)
        elif not smaller and rng.random() < 0.04 and [x for x in hs if x >= 5]:
            # ... and a handle that only opened the buffer goes away again while the creator keeps it: the queue stays, later handles join it
            h = rng.choice([x for x in hs if x >= 5])
            hs.remove(h)
            late.append(h)
            lines.append("bfree %d" % h)
            lines.append("bsp %d" % rng.choice(hs))
        h = rng.choice(hs)
        r = rng.random()
        if r < 0.45:
            free = cap - used
            ln = rng.choice([0, 1, free, free + 1, max(0, free - 1), cap, cap + 1, rng.randint(0, cap + 1)])
            lines.append("bw %d %s" % (h, " ".join(str(rng.randint(0, 255)) for _ in range(ln))))
            if 0 < ln <= free:
                used += ln
        elif r < 0.9:
            ln = rng.choice([0, 1, used, used + 1, cap, cap + 1, rng.randint(0, cap + 1)])
            lines.append("br %d %d" % (h, ln))
            used -= min(ln, used)
        elif r < 0.95:
            lines.append("bclr %d" % h)
            used = 0
        elif r < 0.98:
            # a length at the top of the psize range: whatever the queue holds, it cannot fit
            lines.append("bwhuge %d %d" % (h, rng.choice([1, 2, 3, max(1, used), used + 1, cap, cap + 1, 4096])))
        lines.append("bsp %d" % rng.choice(hs))
    for h in reversed(hs):
        lines.append("bfree %d" % h)
    return lines


def run(ctx):
    rng = ctx.rng
    prefix = "vf%d_names_that_share_a_long_common_prefix" % os.getpid()      # names differ only in their last characters
    name_no = [0]
    caps = [1, 2] if ctx.quick else [1, 2, 3, 4]
    ctx.design_must_hold("ipc/ShmBufAbs.tla", expect_actions=["AWrite", "ARead", "AClear"])
    scripts = []
    for cap in caps:
        dump = ctx.path("g_ring_%d" % cap)
        ctx.design_must_hold("ipc/ShmBufRing.tla", cfg="ShmBufRing_%d.cfg" % cap, dump=dump)
        g = behaviours.parse_dot(dump + ".dot")
        os.unlink(dump + ".dot")
        ac = behaviours.action_counts(g)
        for a in ("RWrite", "RRead", "RClear"):
            if not ac.get(a):
                raise Machinery("vacuous: no %s edge in ring graph" % a)
        sc, steps = walks_to_scripts(ctx, cap, g, rng, name_no)
        ctx.extra.setdefault("edge_cover", {})["cap%d" % cap] = {"states": len(g.labels), "edges": g.nedges, "ops_walked": steps, "walks": len(sc)}
        scripts += [("walk", s) for s in sc]
    if ctx.quick:
        # the capacity-3 graph is covered by simulation-like sampling in quick mode: a prefix of its cover
        dump = ctx.path("g_ring_3")
        ctx.design_must_hold("ipc/ShmBufRing.tla", cfg="ShmBufRing_3.cfg", dump=dump)
        g = behaviours.parse_dot(dump + ".dot")
        os.unlink(dump + ".dot")
        sc, steps = walks_to_scripts(ctx, 3, g, rng, name_no)
        rng.shuffle(sc)
        scripts += [("walk", s) for s in sc[:6]]
    for i in range(6 if ctx.quick else 40):
        scripts.append(("rand", (random_script(rng, name_no, 250 if ctx.quick else 1500), None, None)))
    for pages in ((1, 2) if ctx.quick else (1, 2, 3, 4)):
        scripts.append(("page", (page_script(rng, name_no, pages), None, None)))
    finding_scripts = [("smaller", (random_script(rng, name_no, 30, smaller=True), None, None)) for _ in range(2)]
    exe = build.driver("drv_shmbuf", ["drv_shmbuf.c"], variant="asan", wraps=["mmap", "munmap"])
    names = ["%s_%d" % (prefix, i) for i in range(1, name_no[0] + 1)]
    try:
        traces = []
        for i, (kind, (lines, expect, cap)) in enumerate(scripts + finding_scripts):
            sp, tp = ctx.path("b%d.script" % i), ctx.path("b%d.ndjson" % i)
            open(sp, "w").write("\n".join(lines) + "\n")
            rc, out, to = run_driver([exe, sp, tp, prefix], timeout=300)
            if to or rc != 0:
                ipcnames.cleanup(names)        # a killed run leaves its segment behind with the lock taken: the repetition starts from nothing
                rc, out, to = run_driver([exe, sp, tp, prefix], timeout=120)
                ipcnames.cleanup(names)
            if to or rc != 0:
                ctx.violation("%s:%s" % ("hang" if to else "crash", kind), "drv_shmbuf %s: %s" % ("hang" if to else "rc=%d" % rc, out[-1200:]), [sp])
                continue
            traces.append((kind, sp, tp, expect, cap))
        # I-level: ring positions vs ShmBufRing (DRIFT only)
        ncmp = 0
        for kind, sp, tp, expect, cap in traces:
            if not expect:
                continue
            j = 0
            for line in open(tp):
                ev = json.loads(line)
                if ev["e"] in ("bw", "br", "bclr", "bsp") and j < len(expect):
                    ncmp += 1
                    if (ev["rp"], ev["wp"]) != tuple(expect[j]) and len(ctx.drift) < 5:
                        ctx.drift.append({"file": os.path.basename(tp), "event": ev["e"], "observed": [ev["rp"], ev["wp"]], "model": list(expect[j])})
                    if ev["seg"] != cap + 2 * 8 + 1 and len(ctx.drift) < 5:
                        ctx.drift.append({"file": os.path.basename(tp), "segment_size": ev["seg"], "model": cap + 17})
                    j += 1
        ctx.extra["ring_positions_compared_with_ispec"] = ncmp
        # P-level
        good = [t for t in traces if t[0] != "smaller"]
        # concatenate
        groups, cur, cnt = [], [], 0
        for t in good:
            data = open(t[2]).read()
            n = data.count("\n")
            ctx.events += n
            if cur and cnt + n > 12000:
                groups.append(cur); cur, cnt = [], 0
            cur.append((t, data)); cnt += n
        if cur:
            groups.append(cur)
        paths = []
        for i, grp in enumerate(groups):
            p = ctx.path("v%d.ndjson" % i)
            with open(p, "w") as fh:
                for t, data in grp:
                    fh.write(data)
            paths.append(p)
        res = ctx.validate_many("ipc/ShmBufTrace.tla", "ShmBufTrace.cfg", paths)
        for (f, ok, matched), grp in zip(res, groups):
            if ok:
                continue
            ev = None
            try:
                ev = json.loads(open(f).read().split("\n")[matched[0]])
            except Exception:
                pass
            ctx.violation("fifo:%s" % (ev["e"] if ev else "?"),
                          "PShmBuffer trace rejected by ShmBufTrace after %s of %s events; first unexplained event: %s" % (matched[0], matched[1], json.dumps(ev)[:500]), [f])
        ctx.behaviours += len(good)
        if paths:
            for i, line in enumerate(open(paths[0])):
                if i in (2, 3, 4, 5):
                    ctx.sample(json.loads(line))
        # known-finding probe: a handle opened with a smaller non-zero size argument
        for t in [t for t in traces if t[0] == "smaller"]:
            ok, matched = ctx.validate("ipc/ShmBufTrace.tla", "ShmBufTrace.cfg", t[2])
            if not ok:
                ev = json.loads(open(t[2]).read().split("\n")[matched[0]])
                ctx.violation("multihandle:smaller-size-arg",
                              "second handle opened with a smaller non-zero size sees a different queue: %s" % json.dumps(ev)[:300], [t[1], t[2]])
            else:
                ctx.notes.append("probe with smaller size argument accepted (finding multihandle:smaller-size-arg does not reproduce)")
        # binding self-test
        if paths:
            lines = open(paths[0]).read().split("\n")
            for i, line in enumerate(lines):
                if '"br"' in line:
                    ev = json.loads(line)
                    if len(ev["data"]) >= 1:
                        ev["data"][0] = (ev["data"][0] + 1) % 256
                        lines[i] = json.dumps(ev)
                        p = ctx.path("selftest.ndjson")
                        open(p, "w").write("\n".join(lines[:i + 10]) + "\n")
                        ok, matched, r = tlc.validate_trace("ipc/ShmBufTrace.tla", p, cfg="ShmBufTrace.cfg")
                        if ok:
                            raise Machinery("self-test: corrupted read accepted")
                        ctx.extra["selftest"] = "corrupted br event %d rejected" % (i + 1)
                        break
        concurrent_part(ctx, prefix, names)
    finally:
        left = ipcnames.leftovers(names)
        ipcnames.cleanup(names)
        if left:
            ctx.notes.append("IPC names left behind by drivers and removed by the check: %d" % len(left))
    ctx.assumptions += ["capacities 1..%d exhaustively (every ring-graph edge), larger capacities by seeded random histories" % caps[-1],
                        "concurrent atomicity is decided by the linearizability part (ShmBufLin) of this check"]
    ctx.exhaustive = False
