"""C20: resource neutrality - create-then-free leaves no memory, descriptor, mapping or IPC name."""
import json, os
import build, tlc, behaviours, traces, ipcnames
from core import Machinery, run_driver

WRAPS = ["socket", "accept", "close", "fopen", "fclose", "opendir", "closedir", "mmap", "munmap", "sem_open", "sem_close", "sem_unlink",
         "shm_open", "shm_unlink", "dlopen", "dlclose", "poll", "getsockname", "getaddrinfo", "freeaddrinfo", "bind", "listen", "connect", "setsockopt", "getsockopt", "getpeername", "ftruncate", "fcntl", "pthread_create"]
# kind -> can the creation fail in a controlled way
KINDS = {"tree": False, "hashtable": False, "list": False, "ini": True, "hash": True, "error": False, "dir": True, "sockaddr": True, "tcp": True,
         "tcp_timeout": False, "sock_intr": False, "from_fd": True, "accept_fail": False, "shm_close_intr": False, "sock_close_intr": False, "bind_used": False, "udp": False, "sem": True, "sem2": False, "shm": True, "shm_same": False, "shm_adopt": False, "shm_smaller": False,
         "shmbuf": True, "shmbuf_small": False, "thread": False, "thread_named": False, "thread_detached": False, "thread_foreign": False, "tlskey_race": False, "locks": False, "loader": True, "profiler": False, "string": False}


def run(ctx):
    rng = ctx.rng
    prefix = "vf%d_names_that_share_a_long_common_prefix" % os.getpid()      # names differ only in their last characters
    ctx.design_must_hold("sys/ResLedgerMC.tla", expect_actions=["CreateOK", "CreateFail"])
    # behaviours: the design-level graph over the concrete kinds, two objects at a time (all ordered pairs, ok / failing, both release orders)
    cfg = ctx.path("ResLedgerPairs.cfg")
    open(cfg, "w").write("SPECIFICATION RSpec\nCONSTANTS Kinds = {%s}\n MaxObjs = 2\n Footprint <- FP\nCONSTRAINT IdBound2\nINVARIANT Neutral\nCHECK_DEADLOCK FALSE\n"
                         % ", ".join('"%s"' % k for k in sorted(KINDS)))
    mc = ctx.path("ResLedgerPairs.tla")
    open(mc, "w").write("---- MODULE ResLedgerPairs ----\nEXTENDS ResLedger\nFP(k) == {\"mem\"}\nIdBound2 == nextid <= 3\n====\n")
    import shutil
    shutil.copy(os.path.join(tlc.SPECS, "sys", "ResLedger.tla"), ctx.path("ResLedger.tla"))
    dump = ctx.path("g_res")
    ctx.design_must_hold(mc, cfg=cfg, coverage=False, dump=dump)
    g = behaviours.parse_dot(dump + ".dot")
    os.unlink(dump + ".dot")

    def feasible(src, edge):
        name, args = behaviours.parse_label(edge[0])
        return not (name == "CreateFail" and not KINDS[args[0]])
    walks = behaviours.cover_walks_dag(g, edge_filter=feasible)
    if ctx.quick:
        rng.shuffle(walks)
        walks = walks[:400]
    lines = []
    for w in walks:
        lines.append("scenario")
        ids = {}
        n = 0
        for lab, dst in w:
            name, args = behaviours.parse_label(lab)
            if name == "CreateOK":
                lines.append("acq %s ok" % args[0]); ids[len(ids) + 1] = n; n += 1
            elif name == "CreateFail":
                lines.append("acq %s fail" % args[0]); ids[len(ids) + 1] = None
            elif name == "Release":
                slot = ids.get(args[0][0])
                if slot is not None:
                    lines.append("rel %d" % slot)
        lines += ["relall", "quiesce"]
    # fault enumeration over system calls: the K-th system call inside a creation fails; whatever came into being is freed; nothing may remain
    SYSKINDS = ["tcp", "udp", "tcp_timeout", "bind_used", "from_fd", "shm", "shm_same", "shm_smaller", "shmbuf", "sem", "sem2", "dir", "ini", "loader",
                "thread", "thread_named", "thread_detached", "sockaddr"]
    for k in SYSKINDS:
        for n in range(1, 15 if ctx.quick else 31):
            lines += ["scenario", "failsys %d" % n, "acq %s ok" % k, "relall", "quiesce"]
    # longer random programs
    for _ in range(10 if ctx.quick else 1500):
        lines.append("scenario")
        live = 0
        for _ in range(rng.randint(3, 10) if ctx.quick else rng.randint(3, 25)):
            k = rng.choice(sorted(KINDS))
            if live < 6 and rng.random() < 0.7:
                ok = not (KINDS[k] and rng.random() < 0.4)
                lines.append("acq %s %s" % (k, "ok" if ok else "fail"))
                live += 1 if ok else 0
            elif live:
                lines.append("rel %d" % rng.randint(0, live - 1))
        lines += ["relall", "quiesce"]
    ctx.extra["scenarios"] = sum(1 for x in lines if x == "scenario")
    ctx.extra["pair_graph"] = {"states": len(g.labels), "edges": g.nedges, "walks_run": len(walks)}
    exe = build.driver("drv_res", ["drv_res.c"], variant="default", wraps=WRAPS)
    sp, tp = ctx.path("res.script"), ctx.path("res.ndjson")
    open(sp, "w").write("\n".join(lines) + "\n")
    tdir = ctx.path("tmp")
    os.makedirs(tdir, exist_ok=True)
    for i in range(3):
        open(os.path.join(tdir, "f%d" % i), "w").close()
    # entries whose stat() fails (dangling links, a link loop), a sub-directory, a link to a file: the listing still releases everything
    for nm, tgt in (("dangling1", "/no/such/target"), ("dangling2", "f-gone"), ("loop", "loop"), ("goodlink", "f0")):
        if not os.path.lexists(os.path.join(tdir, nm)):
            os.symlink(tgt, os.path.join(tdir, nm))
    os.makedirs(os.path.join(tdir, "sub"), exist_ok=True)
    names = ["%s_r%d" % (prefix, i) for i in range(1, 5000)]
    try:
        rc, out, to = run_driver([exe, sp, tp, tdir, prefix], timeout=600)
        if rc != 0 or to:
            ctx.violation("driver:%s" % ("hang" if to else "crash"), "drv_res rc=%s: %s" % (rc, out[-500:]), [sp])
            return
        evs = [json.loads(x) for x in open(tp)]
        ctx.events += len(evs)
        # requested outcome not obtained = the scenario did not run as intended (machinery), not a verdict
        bad = [e for e in evs if e["e"] == "acq" and e["want_ok"] != e["got_ok"]]
        if bad:
            ctx.notes.append("creations that did not behave as requested: %s" % bad[:3])
        base = evs[0]
        chunks = traces.split_at(evs[1:], "Reset", 8000)
        jobs = []
        for ci, ch in enumerate(chunks):
            jobs.append(traces.write([base] + ch, ctx.path("res_c%d.ndjson" % ci)))

        def val(path):
            out = []
            evl = [json.loads(x) for x in open(path)]
            start = 1
            part = 0
            while start < len(evl):
                p = traces.write([evl[0]] + evl[start:], "%s.p%d" % (path, part))
                part += 1
                ok, matched = ctx.validate("sys/ResTrace.tla", "ResTrace.cfg", p)
                if ok:
                    break
                cur = [evl[0]] + evl[start:]
                i = matched[0]
                ev = cur[i]
                # scenario context: kinds acquired since the last Reset
                s0 = max([x for x in range(i + 1) if cur[x]["e"] == "Reset"] or [0])
                kinds = [e["kind"] + ("" if e["want_ok"] else "(fail)") for e in cur[s0:i + 1] if e["e"] == "acq"]
                if ev["e"] == "munmap":
                    sig = "munmap:length-mismatch"
                elif ev["e"] == "quiesce":
                    sig = "leak:%s" % "+".join(sorted(set(kinds)))
                else:
                    sig = "%s:%s" % (ev["e"], "+".join(sorted(set(kinds))))
                out.append((sig, "resource ledger rejected event %s in a scenario with %s: %s" % (i, kinds, json.dumps(ev)[:300]), p))
                # continue behind this scenario
                nxt = [x for x in range(i + 1, len(cur)) if cur[x]["e"] == "Reset"]
                if not nxt:
                    break
                start = start + nxt[0] - 1
            return out
        from concurrent.futures import ThreadPoolExecutor
        with ThreadPoolExecutor(8) as ex:
            res = list(ex.map(val, jobs))
        for found in res:
            for sig, what, p in found:
                ctx.violation(sig, what, [p, sp])
        ctx.behaviours += ctx.extra["scenarios"]
        for e in evs[1:6]:
            ctx.sample(e)
        # binding self-test: a descriptor that is never closed
        cut = [e for e in evs[: 400]]
        for i, e in enumerate(cut):
            if e["e"] == "fd_close":
                del cut[i]
                break
        else:
            cut = None
        if cut:
            # keep up to the next quiesce
            j = next((x for x in range(i, len(cut)) if cut[x]["e"] == "quiesce"), len(cut) - 1)
            p = traces.write(cut[: j + 1], ctx.path("selftest.ndjson"))
            ok, matched, r = tlc.validate_trace("sys/ResTrace.tla", p, cfg="ResTrace.cfg")
            if ok:
                raise Machinery("self-test: a missing close was accepted")
            ctx.extra["selftest"] = "missing close rejected"
    finally:
        ipcnames.cleanup(names[:600])
    ctx.assumptions += ["only resources obtained through library calls enter the ledger (link-time wrappers, user allocator table); libc's lazily initialised state is created in a warm-up pass before the baseline snapshot",
                        "independent snapshot: /proc/self/fd, /proc/self/maps (shared-memory mappings), /proc/self/task, /dev/shm entries for the keys seen"]
    ctx.exhaustive = False
