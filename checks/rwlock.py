"""C02: PRWLock - writers exclusive, readers shared, no lost wake-up or deadlock; both models."""
import json, os
import build, tlc, behaviours, traces
from core import Machinery, run_driver

CS_ACTIONS = {"RL_Enter", "RL_Try", "WL_Enter", "WL_Try", "RU", "WU"}


def expected_view(st):
    n = len(st["pc"])
    cvR = sum(1 << t for t in st["cvR"]["__set__"])
    cvW = sum(1 << t for t in st["cvW"]["__set__"])
    ths = []
    for i in range(n):
        pc = st["pc"][i]
        t = i + 1
        if pc in ("idle", "hold_r", "hold_w"):
            ths.append(("idle", "", {"idle": "-", "hold_r": "r", "hold_w": "w"}[pc], 0))
        elif pc in ("rl_wait", "wl_wait"):
            ths.append(("wait", "rlock" if pc == "rl_wait" else "wlock", "-", 1 if (t in st["cvR"]["__set__"] or t in st["cvW"]["__set__"]) else 0))
        elif pc.startswith("ret_"):
            ths.append(("unlocked", None, None, 0))
        else:
            ths.append(("want", pc, None, 0))
    return {"aR": st["activeR"], "aW": st["activeW"], "wR": st["waitR"], "wW": st["waitW"], "cvR": cvR, "cvW": cvW, "th": ths}


def same(view, obs):
    for k in ("aR", "aW", "wR", "wW", "cvR", "cvW"):
        if obs[k] != -1 and obs[k] != view[k]:
            return False
    if obs.get("div"):
        return False
    for (st, op, hold, blocked), o in zip(view["th"], obs["th"]):
        if o["st"] != st or o["blocked"] != blocked:
            return False
        if op is not None and st != "idle" and o["op"] != op:
            return False
        if hold is not None and o["hold"] != hold:
            return False
    return True


def replay_general(ctx, cfgname, exe):
    """M2+M3: every edge of the bounded RWLockGeneral graph on the real prwlock-general.c under vsched"""
    dump = ctx.path("g_rw_" + cfgname)
    ctx.design_must_hold("sync/RWLockGeneral.tla", cfg="RWLockGeneral_%s.cfg" % cfgname, dump=dump, xmx="8g",
                         expect_actions=["RL_Enter", "RL_Recheck", "RL_Try", "WL_Enter", "WL_Recheck", "WL_Try", "RU", "WU", "Spurious", "Return"])
    g = behaviours.parse_dot(dump + ".dot")
    os.unlink(dump + ".dot")
    states = {nid: behaviours.parse_state(lab) for nid, lab in g.labels.items()}
    views = {nid: expected_view(st) for nid, st in states.items()}
    nthreads = len(states[g.init]["pc"])
    walks = behaviours.cover_walks_dag(g, edge_filter=lambda a, e: not e[0].startswith("Next"))
    bpath = ctx.path("rwbeh_%s.txt" % cfgname)
    expect = []
    with open(bpath, "w") as fh:
        for w in walks:
            fh.write("threads %d\n" % nthreads)
            expect.append(views[g.init])
            src = g.init
            for lab, dst in w:
                name, args = behaviours.parse_label(lab)
                t = args[0]
                a, b = states[src], states[dst]
                if name == "Begin":
                    fh.write("begin %d %s\n" % (t, args[1]))
                elif name == "BeginUnlock":
                    fh.write("begin %d %s\n" % (t, "runlock" if a["pc"][t - 1] == "hold_r" else "wunlock"))
                elif name in CS_ACTIONS:
                    gone = set(a["cvW"]["__set__"]) - set(b["cvW"]["__set__"])
                    if name in ("RU", "WU"):
                        fh.write("cs %d wake %d\n" % (t, list(gone)[0] if gone else -1))
                    else:
                        fh.write("cs %d\n" % t)
                elif name in ("RL_Recheck", "WL_Recheck"):
                    fh.write("recheck %d\n" % t)
                elif name == "Return":
                    fh.write("return %d\n" % t)
                elif name == "Spurious":
                    fh.write("spurious %d\n" % t)
                else:
                    raise Machinery("unknown action label " + lab)
                expect.append(views[dst])
                src = dst
            fh.write("end\n")
            expect.append(None)
    opath = ctx.path("rwobs_%s.ndjson" % cfgname)
    rc, out, to = run_driver([exe, "replay", bpath, opath], timeout=600)
    if rc != 0 or to:
        ctx.drift.append({"cfg": cfgname, "replay": "vsched replay failed rc=%s timeout=%s: %s" % (rc, to, out[-300:])})
        return len(walks), 0, g
    n = 0
    bad = 0
    with open(opath) as fh:
        for line, want in zip(fh, expect):
            if want is None:
                continue
            n += 1
            obs = json.loads(line)
            if not same(want, obs):
                bad += 1
                if len(ctx.drift) < 5:
                    ctx.drift.append({"cfg": cfgname, "step": n, "observed": obs, "model": {k: v for k, v in want.items() if k != "th"}, "model_threads": want["th"]})
    ctx.extra.setdefault("general_replay", {})[cfgname] = {"graph_states": len(g.labels), "graph_edges": g.nedges, "walks": len(walks),
                                                            "steps_compared": n, "mismatches": bad}
    ctx.behaviours += len(walks)
    return len(walks), bad, g


def run(ctx):
    rng = ctx.rng
    # ---- M1: P-level and I-level design
    for cfgname in (["3x2"] if ctx.quick else ["3x2", "4x2"]):
        ctx.design_must_hold("sync/RWLockGeneral.tla", cfg="RWLockGeneral_%s_live.cfg" % cfgname, xmx="12g", timeout=3000, workers=16, coverage=False)
    if ctx.quick:
        ctx.design_must_hold("sync/RWLockGeneral.tla", cfg="RWLockGeneral_3x2.cfg", coverage=False)
    # ---- general model under the virtual scheduler: replay of every spec edge (I-level) ...
    vs = build.driver("vsched", ["vsched.c"], variant="default")
    total_bad = 0
    for cfgname in (["2x2", "3x1"] if ctx.quick else ["2x2", "3x1", "2x3", "3x2"]):
        nw, bad, g = replay_general(ctx, cfgname, vs)
        total_bad += bad
    if total_bad:
        ctx.notes.append("DRIFT: prwlock-general.c no longer matches RWLockGeneral step by step; verdict comes from the P-level parts only")
    # ---- ... and seeded random schedules judged at P level (deadlock = lost wake-up; LockLin on the history)
    files = []
    for (n, rounds, runs) in ([(3, 2, 1500), (4, 2, 1500), (5, 1, 800)] if ctx.quick else [(2, 3, 5000), (3, 2, 20000), (4, 2, 20000), (4, 3, 10000), (6, 2, 10000), (7, 1, 5000)]):
        base = ctx.path("vs_%d_%d" % (n, rounds))
        seed = rng.randint(1, 10 ** 6)
        rc, out, to = run_driver([vs, "explore", str(n), str(rounds), str(runs), str(seed), base + ".0"], timeout=600)
        if rc == 5:
            rc2, out2, to2 = run_driver([vs, "explore", str(n), str(rounds), str(runs), str(seed), base + ".0"], timeout=600)
            if rc2 == 5:
                ctx.violation("general:deadlock", "general-model rwlock: %d virtual threads x %d rounds reach a state where every unfinished thread is blocked and nobody can signal (lost wake-up / deadlock), schedule seed %d: %s" % (n, rounds, seed, out2[-600:]), [base + ".0"])
                continue
        elif rc != 0 or to:
            raise Machinery("vsched explore failed rc=%s %s" % (rc, out[-500:]))
        p, evs = traces.merge(base, annotate={"res": "xres"})
        ctx.events += len(evs)
        chunks = traces.split_at(evs, "Epoch", 30000)
        for ci, ch in enumerate(chunks[: (3 if ctx.quick else 40)]):
            files.append(("general-vsched", traces.write(ch + [{"e": "Epoch"}], ctx.path("vs_%d_%d_c%d.ndjson" % (n, rounds, ci)))))
    # ---- real threads, both models
    for variant, label in (("general", "general-pthreads"), ("default", "native-pthreads")):
        exe = build.driver("drv_lock", ["drv_lock.c"], variant=variant)
        for (nth, nobj, cores) in ([(6, 2, "0-2"), (3, 1, "0")] if ctx.quick else [(2, 1, "0"), (4, 1, "0-1"), (6, 2, "0-2"), (8, 3, "0-7"), (8, 1, "0-1")]):
            base = ctx.path("rw_%s_%d_%d" % (variant, nth, nobj))
            cmd = ["taskset", "-c", cores, exe, base, "rw", str(nth), str(nobj), str(6 if ctx.quick else 20), str(120 if ctx.quick else 200), str(rng.randint(1, 10 ** 6))]
            rc, out, to = run_driver(cmd, timeout=60)
            if to:
                rc, out, to = run_driver(cmd, timeout=60)
                if to:
                    ctx.violation("%s:stuck" % label, "rwlock rounds of %d real threads did not complete within 60 s twice (%s model)" % (nth, variant), [])
                    continue
            if rc != 0:
                ctx.violation("%s:crash" % label, "drv_lock rc=%d: %s" % (rc, out[-500:]), [])
                continue
            p, evs = traces.merge(base, annotate={"res": "xres"})
            ctx.events += len(evs)
            for ci, ch in enumerate(traces.split_at(evs, "Epoch", 25000)):
                files.append((label, traces.write(ch + [{"e": "Epoch"}], base + "_c%d.ndjson" % ci)))
    res = ctx.validate_many("sync/LockLin.tla", "LockLin_rw.cfg", [f for _, f in files], par=6, timeout=900)
    shared_seen = False
    for (label, f), (_, ok, matched) in zip(files, res):
        if not ok:
            ev = None
            try:
                ev = json.loads(open(f).read().split("\n")[matched[0]])
            except Exception:
                pass
            if ev and ev.get("e") == "ReadBlocked":
                ctx.violation("%s:readers-not-shared" % label, "a second reader (%s) could not enter within 3 s while only a reader held the lock: readers must be able to hold the lock together" % label, [f])
                continue
            if ev and ev.get("e") == "TryRefused":
                ctx.violation("%s:trylock-refused" % label, "lock (%s): trylock on a free, uncontended lock kept returning FALSE (21 attempts) after a round in which trylock calls met the end of another thread's critical section" % label, [f])
                continue
            if ev and ev.get("e") == "Overlap":
                ctx.violation("%s:overlap" % label, "lock (%s): two threads were inside the same critical section at once (six threads taking two lock objects through lock and trylock, not logged)" % label, [f])
                continue
            if ev and ev.get("e") == "LockDead":
                ctx.violation("%s:lock-dead" % label, "lock (%s): a thread that only locks and unlocks, next to one that only calls trylock, did not finish within 15 s: the lock was lost (held by nobody)" % label, [f])
                continue
            if ev and ev.get("e") == "TryBlocked":
                ctx.violation("%s:trylock-blocked" % label, "trylock (%s) did not return within 3 s while another thread held the lock all the time: trylock must never block" % label, [f])
                continue
            ctx.violation("%s:not-linearizable" % label, "rwlock history (%s) has no linearization with writers exclusive / readers shared; stuck at event %s: %s" % (label, matched[0], json.dumps(ev)[:300]), [f])
    # witness for "several readers can hold the lock at the same time": two reader critical sections overlap in a history
    for label, f in files:
        holders = set()
        for line in open(f):
            e = json.loads(line)
            if e["e"] == "ret" and e.get("res") == 1:
                pass
            if e["e"] == "cs" and e["wr"] < 0:
                holders.add(e["t"])
            elif e["e"] == "call" and e["op"] == "runlock":
                if len(holders) >= 2:
                    shared_seen = True
                    break
                holders.discard(e["t"])
        if shared_seen:
            break
    ctx.extra["shared_readers_witnessed"] = shared_seen
    if not shared_seen:
        ctx.notes.append("no history of this run showed two simultaneous readers (witness only, not a verdict)")
    if files:
        for i, line in enumerate(open(files[0][1])):
            if i in (1, 2, 3, 4):
                ctx.sample(json.loads(line))
    # ---- binding self-test: move a writer's critical section into another writer's
    if files:
        # in a file that starts at a quiescent point (the data cells are known from there on): the second writer's read is made stale
        src = [f for f in files if json.loads(open(f[1]).readline()).get("e") == "Epoch"] or files
        evs = [json.loads(x) for x in open(src[0][1])]
        nw = 0
        for i, e in enumerate(evs):
            if e["e"] == "cs" and e["wr"] >= 0:
                nw += 1
                if nw == 2:
                    e["rd"] += 1
                    break
        p = traces.write(evs[: i + 30], ctx.path("selftest.ndjson"))
        ok, matched, r = tlc.validate_trace("sync/LockLin.tla", p, cfg="LockLin_rw.cfg")
        if ok:
            raise Machinery("self-test: stale critical-section read accepted")
        ctx.extra["selftest"] = "stale read at event %d rejected" % (i + 1)
    ctx.assumptions += ["general model: exhaustive for the bounded virtual-thread configurations listed under general_replay; real-thread histories are samples",
                        "native model = pthread_rwlock; checked only through real-thread histories (LockLin)",
                        "virtual mutex/condvar follow CondVar semantics: signal wakes exactly one chosen waiter, spurious wake-ups are scheduler moves"]
    ctx.exhaustive = False
