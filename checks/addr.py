"""C17: PSocketAddress conversions are exact inverses and agree with the platform."""
import json, os, socket, struct
import build, tlc, behaviours, traces
from core import Machinery, run_driver

AFI = {4: socket.AF_INET, 6: socket.AF_INET6}
SIZE = {4: 16, 6: 28}
TEXTS = {
    "v4": ["0.0.0.0", "127.0.0.1", "127.255.255.255", "126.255.255.255", "128.0.0.0", "255.255.255.255", "1.2.3.4", "10.0.0.1", "192.168.1.1", "224.0.0.1",
           "0.0.0.1", "127.0.0.0", "1.0.0.127", "100.64.0.1", "169.254.1.1", "240.0.0.0"],
    "v4bad": ["256.1.1.1", "1.2.3", "1.2.3.4.5", "01.2.3.4", " 1.2.3.4", "1.2.3.4 ", "1..2.3", "", "a.b.c.d", "1.2.3.-4", "0x7f.0.0.1", "1.2.3.4/8", "127.1", "2130706433", "1.2.3.4\t",
              "999.999.999.999", "1.2.3.256", "١.٢.٣.٤".encode("utf-8").decode("latin-1")],
    "v6": ["::", "::1", "1::", "2001:db8::1", "fe80::1", "ff02::1", "1:2:3:4:5:6:7:8", "::ffff:0:0", "2001:DB8::A", "0:0:0:0:0:0:0:1", "0:0:0:0:0:0:0:0", "::2", "::1:0", "1::1",
           "2001:0db8:0000:0000:0000:0000:0000:0001", "ffff:ffff:ffff:ffff:ffff:ffff:ffff:ffff", "fe80::", "0:0:0:0:0:0:0:2", "100::", "::ffff:ffff"],
    "v6mapped": ["::ffff:1.2.3.4", "::1.2.3.4", "64:ff9b::192.0.2.33", "::ffff:127.0.0.1", "::ffff:0.0.0.0", "::127.0.0.1", "::0.0.0.1", "1:2:3:4:5:6:1.2.3.4"],
    "v6scoped": ["fe80::1%lo", "fe80::1%1", "ff02::1%lo", "fe80::2%0", "fe80::1%4294967295", "::1%lo", "fe80::abcd%1",
                 # long forms: an uncompressed address with a scope suffix is longer than any text inet_ntop produces (45 characters)
                 "fe80:0000:0000:0000:0202:b3ff:fe1e:8329%lo", "fe80:0000:0000:0000:0202:b3ff:fe1e:8329%12345", "fe80:0000:0000:0000:0202:b3ff:fe1e:8329%123456",
                 "0000:0000:0000:0000:0000:ffff:192.168.100.200%7", "2001:0db8:0000:0000:0000:0000:0000:0001%4294967295", "fe80:0000:0000:0000:0000:0000:0000:0001%000000001"],
    "v6bad": [":::", "1::2::3", "12345::", "1:2:3:4:5:6:7:8:9", "::g", "fe80::1%nosuchif0", "[::1]", "::1 ", "1:2:3:4:5:6:7", "::ffff:256.1.1.1", ":", "1:", ":1", "::1%", "1.2.3.4:80",
              " ::1", "::1/128", "fe80::1%lo%lo", "2001:db8:::1"],
    "garbage": ["localhost", "example.com", "hello", "-1", "a" * 300, "%", "0", "::" + "0" * 70, "1." * 200, "\x01\x02", "12345678901234567890"],
}
V4_FIRST = [0, 1, 9, 10, 126, 127, 128, 172, 191, 192, 223, 224, 239, 240, 254, 255]


def le32(v):
    return list(struct.pack("<I", v & 0xffffffff))


def oracle_parse(text):
    """what the platform makes of the text, following the documented algorithm: strings with ':' through getaddrinfo(AI_NUMERICHOST)
    (IPv6 results only), the others through inet_pton (IPv4, then IPv6)"""
    bad = {"ok": 0, "fam": 0, "a": [], "scope": [0, 0, 0, 0]}
    raw = text.encode("latin-1")
    if b"\x00" in raw:
        return bad
    if ":" in text:
        try:
            res = socket.getaddrinfo(raw, None, socket.AF_UNSPEC, socket.SOCK_STREAM, 0, socket.AI_NUMERICHOST)
        except (socket.gaierror, UnicodeError, ValueError, OSError):
            return bad
        fam, _, _, _, sa = res[0]
        if fam != socket.AF_INET6:
            return bad
        host = sa[0].split("%")[0]
        return {"ok": 1, "fam": 6, "a": list(socket.inet_pton(socket.AF_INET6, host)), "scope": le32(sa[3])}
    for fam, af in ((4, socket.AF_INET), (6, socket.AF_INET6)):
        try:
            return {"ok": 1, "fam": fam, "a": list(socket.inet_pton(af, text)), "scope": [0, 0, 0, 0]}
        except (OSError, ValueError, UnicodeError):
            pass
    return bad


def hexs(s):
    b = s.encode("latin-1")
    return b.hex() if b else "-"


class Gen:
    def __init__(self, rng):
        self.rng = rng
        self.lines = []
        self.texts = set()
        self.cursor = {k: 0 for k in TEXTS}

    def port(self):
        return self.rng.choice([0, 1, 80, 255, 256, 32767, 32768, 65535, self.rng.randint(0, 65535)])

    def rand_addr(self, fam):
        rng = self.rng
        if fam == 4:
            return bytes([rng.choice(V4_FIRST), rng.choice([0, 1, 255, rng.randint(0, 255)]), rng.choice([0, 255, rng.randint(0, 255)]), rng.choice([0, 1, 127, 255, rng.randint(0, 255)])])
        r = rng.random()
        if r < 0.25:       # neighbours of :: and ::1
            b = bytearray(16)
            if rng.random() < 0.7:
                b[rng.randint(0, 15)] = rng.choice([1, 2, 128, 255])
            if rng.random() < 0.5:
                b[15] = rng.choice([0, 1, 2])
            return bytes(b)
        if r < 0.4:        # mapped / compatible
            return bytes(10) + rng.choice([b"\xff\xff", b"\x00\x00"]) + self.rand_addr(4)
        if r < 0.55:       # runs of zeros in different places (compression choices of the text form)
            b = bytearray(rng.getrandbits(8) for _ in range(16))
            i = rng.randrange(0, 8)
            for j in range(i * 2, min(16, i * 2 + 2 * rng.randint(1, 6))):
                b[j] = 0
            return bytes(b)
        return bytes(rng.getrandbits(8) for _ in range(16))

    def text(self, kind):
        rng = self.rng
        pool = TEXTS[kind]
        if kind in ("v4", "v6") and rng.random() < 0.5:
            fam = 4 if kind == "v4" else 6
            t = socket.inet_ntop(AFI[fam], self.rand_addr(fam))
            if fam == 6 and rng.random() < 0.3:
                t = t.upper()
            return t
        i = self.cursor[kind]
        self.cursor[kind] = (i + 1) % len(pool)
        return pool[i]

    def native(self, fam, lc):
        rng = self.rng
        a = self.rand_addr(fam)
        if fam == 4:
            full = struct.pack("<H", socket.AF_INET) + struct.pack(">H", self.port()) + a + bytes(rng.getrandbits(8) for _ in range(8))
        else:
            full = struct.pack("<H", socket.AF_INET6) + struct.pack(">H", self.port()) + bytes(le32(rng.choice([0, 1, 0xffffffff, rng.getrandbits(32)]))) + a + \
                bytes(le32(rng.choice([0, 1, 2, 0xffffffff, rng.getrandbits(32)])))
        n = {"zero": 0, "one": 1, "short": rng.randint(2, SIZE[fam] - 2), "exactm1": SIZE[fam] - 1, "exact": SIZE[fam], "long": SIZE[fam] + rng.randint(1, 40)}[lc]
        buf = (full + bytes(rng.getrandbits(8) for _ in range(64)))[:n]
        return n, buf

    def edge(self, name, args):
        rng = self.rng
        L = self.lines
        if name == "NewText":
            t = self.text(args[0])
            self.texts.add(t)
            L.append("new %s %d" % (hexs(t), self.port()))
            L.append("obs")
        elif name == "NewFromNative":
            n, buf = self.native(4 if args[0] == "v4" else 6, args[1])
            L.append("nat %d %s" % (n, buf.hex() if n else "-"))
            L.append("obs")
        elif name == "NewFromNativeBadFamily":
            fam = rng.choice([0, 1, 3, 9, 11, 0xffff, 0x0200, 0x0a00, 17])
            n = rng.choice([2, 16, 28, 40, 128])
            buf = (struct.pack("<H", fam) + bytes(rng.getrandbits(8) for _ in range(126)))[:n]
            L.append("nat %d %s" % (n, buf.hex()))
        elif name in ("NewAny", "NewLoopback"):
            L.append("%s %d %d" % ("any" if name == "NewAny" else "loop", 4 if args[0] == "v4" else 6, self.port()))
            L.append("obs")
        elif name in ("DoSetFlow", "DoSetScope"):
            L.append("%s %08x" % ("flow" if name == "DoSetFlow" else "scope", rng.choice([0, 1, 0xffffffff, 0x80000000, 0x00ff00ff, rng.getrandbits(32)])))
            L.append("obs")
            if rng.random() < 0.5:
                L.append("tonat %d" % rng.choice([28, 64]))
        elif name == "DoToNative":
            lc = args[0]
            n = {"zero": 0, "one": 1, "short": rng.randint(2, 14), "exactm1": rng.choice([15, 27]), "exact": rng.choice([16, 28]), "long": rng.choice([17, 29, 64, 128])}[lc]
            L.append("tonat %d" % n)
        elif name == "Free":
            L.append("free")


def run(ctx):
    rng = ctx.rng
    dump = ctx.path("g_addr")
    ctx.design_must_hold("net/SockAddrLife.tla", dump=dump, expect_actions=["NewText", "NewFromNative", "NewFromNativeBadFamily", "NewAny", "NewLoopback", "DoSetFlow", "DoSetScope", "DoToNative", "Free"])
    g = behaviours.parse_dot(dump + ".dot")
    os.unlink(dump + ".dot")
    rounds = 30 if ctx.quick else 400
    exe = build.driver("drv_addr", ["drv_addr.c"], variant="asan")
    exe_plain = build.driver("drv_addr", ["drv_addr.c"], variant="default")
    files = []
    nwalks = 0
    for rd in range(rounds):
        gen = Gen(rng)
        walks = behaviours.cover_walks(g, max_walk=60, rng=rng)
        nwalks += len(walks)
        for w in walks:
            gen.lines.append("scenario")
            for lab, dst in w:
                name, args = behaviours.parse_label(lab)
                gen.edge(name, args)
        if rd == 0:
            # every listed text once, whatever the walks picked
            for kind, pool in TEXTS.items():
                for t in pool:
                    gen.texts.add(t)
                    gen.lines += ["scenario", "new %s %d" % (hexs(t), gen.port()), "obs", "tonat 28", "free"]
            # the IPv4 classification boundary: every first octet
            for o in range(256):
                t = "%d.%d.%d.%d" % (o, rng.choice([0, 255]), rng.choice([0, 255]), rng.choice([0, 1, 255]))
                gen.texts.add(t)
                gen.lines += ["scenario", "new %s %d" % (hexs(t), o * 257), "obs", "free"]
        sp, tp = ctx.path("a%d.script" % rd), ctx.path("a%d.ndjson" % rd)
        open(sp, "w").write("\n".join(gen.lines) + "\n")
        ex = exe if rd % 4 != 3 else exe_plain
        rc, out, to = run_driver([ex, sp, tp], timeout=120)
        evs = [json.loads(x) for x in open(tp) if x.strip().endswith("}")] if os.path.exists(tp) else []
        if rc != 0 or to:
            rc2, out2, to2 = run_driver([ex, sp, tp + ".2"], timeout=120)
            if rc2 != 0 or to2:
                last = [e for e in evs if e.get("e") == "begin"]
                last = last[-1] if last else {}
                what = "%s:len%s" % (last.get("op", "?"), last.get("len", "")) if last.get("op") != "new" else "new"
                kind = "hang" if to2 else ("memory" if "Sanitizer" in out2 else "crash")
                where = ""
                for ln in out2.split("\n"):
                    if "ERROR: AddressSanitizer" in ln or "runtime error" in ln or "#1 " in ln or "#2 " in ln:
                        where += ln.strip() + " | "
                ctx.violation("%s:%s" % (kind, what), "conversion given %s: driver %s; %s" % (json.dumps(last), kind, where[:600] or out2[-400:]), [sp])
                # the prefix up to the crash is still judged
        evs = [e for e in evs if e.get("e") != "begin"]
        if not evs:
            continue
        # ---- oracle table and text ids for this file
        ids = {}

        def tid(s):
            if s not in ids:
                ids[s] = len(ids) + 1
            return ids[s]
        table = []
        addrs = set()
        for e in evs:
            if e["e"] == "new":
                h = e.pop("text")
                t = "" if h == "-" else bytes.fromhex(h).decode("latin-1")
                e["t"] = tid(t)
                p = oracle_parse(t)
                table.append(dict(k="parse", t=e["t"], **p))
                if p["ok"]:
                    addrs.add((p["fam"], bytes(p["a"])))
            elif e["e"] == "nat" and e["len"] >= 16:
                b = bytes(e["b"])
                addrs.add((4, b[4:8]))
                if e["len"] >= 28:
                    addrs.add((6, b[8:24]))
            elif e["e"] == "any":
                addrs.add((e["fam"], bytes(4 if e["fam"] == 4 else 16)))
            elif e["e"] == "loop":
                addrs.add((e["fam"], bytes(e["a"])))
        for fam, a in sorted(addrs):
            table.append({"k": "ntop", "t": tid(socket.inet_ntop(AFI[fam], a)), "ok": 1, "fam": fam, "a": list(a), "scope": [0, 0, 0, 0]})
        for e in evs:
            if e["e"] == "obs":
                h = e["text"]
                e["text"] = -2 if h == "NULL" else ids.get(bytes.fromhex(h).decode("latin-1"), -2)
        p = traces.write(evs, ctx.path("a%d.v.ndjson" % rd))
        tb = ctx.path("a%d.table" % rd)
        with open(tb, "w") as fh:
            for r in table:
                fh.write(json.dumps(r) + "\n")
        ctx.events += len(evs)
        files.append((p, tb, sp))
    from concurrent.futures import ThreadPoolExecutor
    with ThreadPoolExecutor(8) as ex:
        res = list(ex.map(lambda f: ctx.validate("net/SockAddrTrace.tla", "SockAddrTrace.cfg", f[0], env={"TABLE": f[1]}), files))
    for (p, tb, sp), (ok, matched) in zip(files, res):
        if ok:
            continue
        evs = [json.loads(x) for x in open(p)]
        ev = evs[matched[0]] if matched[0] is not None and matched[0] < len(evs) else None
        prev = [e for e in evs[max(0, matched[0] - 6):matched[0]] if e["e"] in ("new", "nat", "any", "loop", "flow", "scope")][-2:]
        sig = "model:%s" % (ev["e"] if ev else "?")
        if ev and ev["e"] in ("nat", "tonat"):
            sig += ":len%d" % ev["len"]
        ctx.violation(sig, "address conversion not explained by SockAddr at event %s: %s; after %s" % (matched[0], json.dumps(ev)[:400], json.dumps(prev)[:400]), [p, tb, sp])
    ctx.behaviours += nwalks
    ctx.extra["edge_cover"] = {"states": len(g.labels), "edges": g.nedges, "walk_rounds": rounds}
    ctx.extra["texts"] = sum(len(v) for v in TEXTS.values())
    if files:
        for i, line in enumerate(open(files[0][0])):
            if i in (1, 2, 3):
                ctx.sample(json.loads(line))
        # binding self-test: a getter that reports the port with its bytes swapped
        evs = [json.loads(x) for x in open(files[0][0])]
        done = False
        for i, e in enumerate(evs):
            if e["e"] == "obs" and (e["port"] >> 8) != (e["port"] & 255):
                e["port"] = ((e["port"] & 255) << 8) | (e["port"] >> 8)
                done = True
                break
        if done:
            p = traces.write(evs[: i + 2], ctx.path("selftest.ndjson"))
            ok, matched, r = tlc.validate_trace("net/SockAddrTrace.tla", p, cfg="SockAddrTrace.cfg", env={"TABLE": files[0][1]})
            if ok:
                raise Machinery("self-test: byte-swapped port accepted")
            ctx.extra["selftest"] = "byte-swapped port in obs event %d rejected" % (i + 1)
    ctx.assumptions += ["text forms and acceptance of strings come from this platform's getaddrinfo / inet_pton / inet_ntop (Python socket module) as an oracle table; "
                        "the native layout, length rules, getters and classification are decided by the TLA+ operators of SockAddr",
                        "buffers handed to the library are exact-size heap blocks; accesses behind them are seen by the ASan+UBSan build (3 of 4 runs)",
                        "family constants and structure layout are those of Linux/x86-64 (AF_INET = 2, AF_INET6 = 10, 16 and 28 bytes)"]
    ctx.exhaustive = False
