---- MODULE HashTrace ----
(* Trace validator for PCryptoHash histories (harness/drv_hash.c), C11. The oracle table (env TABLE) *)
(* lists, for every chunk-id sequence that can be asked for, the standard digest as lower-case hex. *)
EXTENDS HashCtx, VTrace
Table == ndJsonDeserialize(IOEnv.TABLE)
Std(a, ch) == Table[CHOOSE i \in 1..Len(Table) : Table[i].alg = a /\ Table[i].ch = ch].hex
HexLen(a) == CASE a = 0 -> 32 [] a = 1 -> 40 [] a = 2 -> 56 [] a = 3 -> 64 [] a = 4 -> 96 [] a = 5 -> 128
               [] a = 6 -> 56 [] a = 7 -> 64 [] a = 8 -> 96 [] a = 9 -> 128 [] a = 10 -> 64
tv == <<hvars, l>>
TInit == HInit /\ CursorInit
TrNew == IsEvent("hnew") /\ Consume /\ Ev.ok = 1 /\ HNew(Ev.alg)
TrUpd == IsEvent("upd") /\ Consume /\ HUpdate(Ev.c, Ev.len)
(* hex string: the digest of exactly the accepted chunks; raw digest: same bytes, algorithm's length *)
TrGetS == IsEvent("gets") /\ Consume /\ HGet /\ Ev.hex = Std(halg, chunks)
(* a read whose result string could not be allocated returns nothing; the context is read (closed) all the same and keeps its digest *)
TrGetSFail == IsEvent("getsfail") /\ Consume /\ HGet /\ Ev.null = 1
TrGetD == IsEvent("getd") /\ Consume /\ HGet /\ Ev.hex = Std(halg, chunks) /\ Ev.n * 2 = HexLen(halg)
TrLen == IsEvent("len") /\ Consume /\ halg # -1 /\ Ev.v * 2 = HexLen(halg) /\ UNCHANGED hvars
TrReset == IsEvent("reset") /\ Consume /\ HReset
TrFree == IsEvent("free") /\ Consume /\ HFree
TrEpoch == IsEvent("Reset") /\ Consume /\ halg' = -1 /\ chunks' = <<>> /\ closed' = FALSE
TNext == TrNew \/ TrUpd \/ TrGetS \/ TrGetSFail \/ TrGetD \/ TrLen \/ TrReset \/ TrFree \/ TrEpoch
TSpec == TInit /\ [][TNext]_tv
====
