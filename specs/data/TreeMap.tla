---- MODULE TreeMap ----
(* P-spec of PTree (C12, C14): a map sorted by key whose keys and values are owned objects.  *)
(* Object identities (kid, vid) stand for the user's key / value blocks; `dead' collects      *)
(* everything handed to a destroy notifier.  The same actions are reused by TreeTrace.        *)
EXTENDS Integers, Sequences, FiniteSets, SequencesExt
CONSTANTS Keys, MaxId
VARIABLES m,       \* function: DOMAIN m \subseteq Keys ;  m[k] = <<kid, vid>>
          alive,   \* tree object exists
          dead,    \* set of <<"K"|"V", id>> destroyed so far
          lastD,   \* what the last action had to destroy (exactly)
          lastR,   \* boolean result of the last action (remove: pair existed)
          nextId   \* design-level only: fresh identity source
vars == <<m, alive, dead, lastD, lastR, nextId>>

PairObjs(p) == {<<"K", p[1]>>, <<"V", p[2]>>}
Stored == UNION {PairObjs(m[k]) : k \in DOMAIN m}
Size == Cardinality(DOMAIN m)
SortedKeys == SetToSortSeq(DOMAIN m, <)
SortedPairs == [i \in 1..Size |-> <<SortedKeys[i], m[SortedKeys[i]][1], m[SortedKeys[i]][2]>>]
Lookup(k) == IF k \in DOMAIN m THEN m[k][2] ELSE 0          \* 0 = NULL

Init == m = <<>> /\ alive = FALSE /\ dead = {} /\ lastD = {} /\ lastR = FALSE /\ nextId = 1

TNew == /\ ~alive
       /\ alive' = TRUE /\ m' = <<>> /\ lastD' = {} /\ lastR' = TRUE
       /\ UNCHANGED <<dead, nextId>>

TInsert(k, kid, vid) ==
    /\ alive
    /\ m' = [x \in (DOMAIN m) \cup {k} |-> IF x = k THEN <<kid, vid>> ELSE m[x]]
    /\ lastD' = IF k \in DOMAIN m THEN PairObjs(m[k]) ELSE {}
    /\ lastR' = (k \notin DOMAIN m)
    /\ dead' = dead \cup lastD'
    /\ UNCHANGED alive

TRemove(k) ==
    /\ alive
    /\ m' = [x \in (DOMAIN m) \ {k} |-> m[x]]
    /\ lastD' = IF k \in DOMAIN m THEN PairObjs(m[k]) ELSE {}
    /\ lastR' = (k \in DOMAIN m)
    /\ dead' = dead \cup lastD'
    /\ UNCHANGED alive

TClear ==
    /\ alive
    /\ m' = <<>> /\ lastD' = Stored /\ lastR' = TRUE /\ dead' = dead \cup Stored
    /\ UNCHANGED alive

TFree ==
    /\ alive
    /\ m' = <<>> /\ lastD' = Stored /\ lastR' = TRUE /\ dead' = dead \cup Stored
    /\ alive' = FALSE

DoNew == TNew /\ UNCHANGED nextId
DoInsert == \E k \in Keys : TInsert(k, nextId, nextId + 1) /\ nextId' = nextId + 2
DoRemove == \E k \in Keys : TRemove(k) /\ UNCHANGED nextId
DoClear == TClear /\ UNCHANGED nextId
DoFree == TFree /\ UNCHANGED nextId
Next == DoNew \/ DoInsert \/ DoRemove \/ DoClear \/ DoFree
Spec == Init /\ [][Next]_vars
IdBound == nextId <= MaxId

(* Ownership (C14): nothing stored is dead; each action destroys only objects that were live; *)
(* once the tree is freed everything ever inserted is dead.                                   *)
OwnedAlive == Stored \cap dead = {}
DestroyOnce == [][lastD' \cap dead = {}]_vars
AllDeadAtFree == ~alive => \A i \in 1..(nextId - 1) : <<"K", i>> \in dead \/ <<"V", i>> \in dead
SortedOK == \A i \in 1..(Size - 1) : SortedKeys[i] < SortedKeys[i + 1]
====
