SPECIFICATION TSpec
CONSTANTS Secs = {}
          Keys = {}
          Texts = {}
CONSTRAINT HighWater
POSTCONDITION Accepted
INVARIANT Consistent
CHECK_DEADLOCK FALSE
