---- MODULE StrOpsMC ----
(* loads StrOps so that TLC evaluates its ASSUMEs (the tokenizer agrees with the maximal-runs characterisation) *)
EXTENDS StrOps
VARIABLE x
MSpec == x = 0 /\ [][x' = x]_x
====
