SPECIFICATION CSpec
CONSTANTS HKeys = {}
          HVals = {}
          LElems = {}
          LMax = 0
CONSTRAINT HighWater
POSTCONDITION Accepted
CHECK_DEADLOCK FALSE
