---- MODULE StrOpsTrace ----
(* Trace validator for the PString helpers (harness/drv_str.c): every recorded call is judged by the operators of StrOps. *)
EXTENDS StrOps, VTrace
VARIABLE n                  \* number of calls judged (only to have a state)
tv == <<n, l>>
TInit == n = 0 /\ CursorInit
TrDup == IsEvent("dup") /\ Consume /\ Ev.r = Ev.s /\ n' = n + 1
TrChomp == IsEvent("chomp") /\ Consume /\ Ev.r = Chomp(Ev.s) /\ n' = n + 1
TrTok == IsEvent("tok") /\ Consume /\ TokRun(Ev.s, Ev.calls, 1) /\ n' = n + 1
(* NULL arguments: NULL string -> NULL for dup / chomp (1 = returned NULL); NULL delimiters or NULL save pointer -> the string itself *)
TrNull == IsEvent("null") /\ Consume /\ Ev.r = <<1, 1, 1, 1>> /\ n' = n + 1
TNext == TrDup \/ TrChomp \/ TrTok \/ TrNull
TSpec == TInit /\ [][TNext]_tv
====
