---- MODULE PList ----
(* P-spec of PList (C15): the operations are the corresponding operations on a sequence. *)
EXTENDS Integers, Sequences, FiniteSets, SequencesExt
CONSTANTS LElems, LMax
VARIABLES ls
LInit == ls = <<>>
LAppend(x) == ls' = Append(ls, x)
LPrepend(x) == ls' = <<x>> \o ls
FirstIdx(s, x) == CHOOSE i \in 1..Len(s) : s[i] = x /\ \A j \in 1..(i - 1) : s[j] # x
LRemove(x) == ls' = IF \E i \in 1..Len(ls) : ls[i] = x
                     THEN LET i == FirstIdx(ls, x) IN SubSeq(ls, 1, i - 1) \o SubSeq(ls, i + 1, Len(ls))
                     ELSE ls
LReverse == ls' = Reverse(ls)
LFree == ls' = <<>>
LLast == IF ls = <<>> THEN 0 ELSE ls[Len(ls)]

DoAppend == \E x \in LElems : LAppend(x)
DoPrepend == \E x \in LElems : LPrepend(x)
DoLRemove == \E x \in LElems : LRemove(x)
DoReverse == LReverse
DoLFree == LFree
LNext == DoAppend \/ DoPrepend \/ DoLRemove \/ DoReverse \/ DoLFree
LSpec == LInit /\ [][LNext]_ls
LBound == Len(ls) <= LMax
LTypeOK == \A i \in 1..Len(ls) : ls[i] \in LElems
====
