SPECIFICATION TSpec
CONSTANTS Algs = {}
          ChunkIds = {}
          MaxLen = 0
CONSTRAINT HighWater
POSTCONDITION Accepted
CHECK_DEADLOCK FALSE
