SPECIFICATION HSpec
CONSTANTS HKeys = {1,2,3,4,5}
          HVals = {1,2}
INVARIANT HTypeOK
PROPERTY OnlyThatKey
