SPECIFICATION Spec
CONSTANTS Keys = {1,2,3,4,5}
          Kind = "rb"
INVARIANTS ShapeRefinesMap Balanced
