---- MODULE IniRobust ----
(* Consistency of whatever PIniFile reports for arbitrary bytes (C16, robustness part): every listed *)
(* section has at least one key, every listed key exists and has a retrievable value.                *)
EXTENDS VTrace
TInit == CursorInit
TrFile == IsEvent("rfile") /\ Consume /\ Ev.returned = 1
TrSec == IsEvent("rsec") /\ Consume /\ Ev.nkeys >= 1
TrKey == IsEvent("rkey") /\ Consume /\ Ev.exists = 1 /\ Ev.retrievable = 1
TNext == TrFile \/ TrSec \/ TrKey
TSpec == TInit /\ [][TNext]_l
====
