SPECIFICATION Spec
CONSTANTS Keys = {1,2,3,4,5}
          Kind = "bst"
INVARIANTS ShapeRefinesMap Balanced
