SPECIFICATION LSpec
CONSTANTS LElems = {1,2,3}
          LMax = 4
CONSTRAINT LBound
INVARIANT LTypeOK
