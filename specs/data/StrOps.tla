---- MODULE StrOps ----
(* PString helpers as functions on character sequences (pstring.c): p_strdup, p_strchomp and the re-entrant tokenizer p_strtok.  *)
(* Not one of the listed properties (DESIGN.md, "Beyond the listed properties").  Characters are numbers; NoTok stands for NULL. *)
EXTENDS Integers, Sequences, FiniteSets
Space == {32, 9, 10, 11, 12, 13}                       \* isspace in the C locale
NoTok == <<-1>>
Min(S) == CHOOSE x \in S : \A y \in S : x <= y
Max(S) == CHOOSE x \in S : \A y \in S : x >= y
(* p_strchomp: the string without leading and trailing white space *)
Chomp(s) == LET ns == {i \in 1..Len(s) : s[i] \notin Space} IN IF ns = {} THEN <<>> ELSE SubSeq(s, Min(ns), Max(ns))
(* ---- tokenizer: one call with delimiter set D on the rest of the string *)
RECURSIVE SkipDelims(_, _), TakeTok(_, _)
SkipDelims(s, D) == IF s # <<>> /\ Head(s) \in D THEN SkipDelims(Tail(s), D) ELSE s
TakeTok(s, D) == IF s = <<>> \/ Head(s) \in D THEN <<>> ELSE <<Head(s)>> \o TakeTok(Tail(s), D)
TokStep(rest, D) == LET t == SkipDelims(rest, D) IN
                    IF t = <<>> THEN [tok |-> NoTok, rest |-> <<>>]
                    ELSE LET w == TakeTok(t, D)  after == SubSeq(t, Len(w) + 1, Len(t)) IN
                         [tok |-> w, rest |-> IF after = <<>> THEN <<>> ELSE Tail(after)]      \* the delimiter that ends the token is consumed
(* a session: the first call is given the string, later calls continue from the saved position; every call has its own delimiters *)
RECURSIVE TokRun(_, _, _)
TokRun(rest, calls, i) == IF i > Len(calls) THEN TRUE
                          ELSE LET r == TokStep(rest, {calls[i].d[j] : j \in 1..Len(calls[i].d)}) IN
                               calls[i].r = r.tok /\ TokRun(r.rest, calls, i + 1)
(* ---- an independent characterisation for a fixed delimiter set: the tokens are the maximal runs of non-delimiters, in order *)
RunStarts(s, D) == {i \in 1..Len(s) : s[i] \notin D /\ (i = 1 \/ s[i - 1] \in D)}
RunEnd(s, D, i) == Min({j \in i..Len(s) : j = Len(s) \/ s[j + 1] \in D})
RECURSIVE RunsFrom(_, _, _)
RunsFrom(s, D, S) == IF S = {} THEN <<>> ELSE LET i == Min(S) IN <<SubSeq(s, i, RunEnd(s, D, i))>> \o RunsFrom(s, D, S \ {i})
Runs(s, D) == RunsFrom(s, D, RunStarts(s, D))
RECURSIVE AllToks(_, _, _)
AllToks(rest, D, fuel) == LET r == TokStep(rest, D) IN IF r.tok = NoTok \/ fuel = 0 THEN <<>> ELSE <<r.tok>> \o AllToks(r.rest, D, fuel - 1)
RECURSIVE Strings(_, _)
Strings(A, n) == IF n = 0 THEN {<<>>} ELSE LET S == Strings(A, n - 1) IN S \cup {<<a>> \o s : a \in A, s \in {x \in S : Len(x) = n - 1}}
(* checked by TLC when the module is loaded: every string of up to 5 characters over a 3-letter alphabet, every delimiter set *)
ASSUME TokensAreRuns == \A s \in Strings(1..3, 5), D \in SUBSET (1..3) : AllToks(s, D, 10) = Runs(s, D)
ASSUME ExhaustedStaysExhausted == \A s \in Strings(1..3, 4), D \in SUBSET (1..3) : TokStep(<<>>, D).tok = NoTok
ASSUME ChompIdempotent == \A s \in Strings({32, 9, 65}, 5) : Chomp(Chomp(s)) = Chomp(s) /\ (Chomp(s) # <<>> => Head(Chomp(s)) = 65 /\ Chomp(s)[Len(Chomp(s))] = 65)
====
