---- MODULE IniStore ----
(* P-spec of PIniFile (C16): what a file written in the documented format means. A file is a sequence *)
(* of abstract lines; concrete spellings (blanks, quoting style, comment markers, BOM, CRLF, '=' inside *)
(* values ...) are chosen by the driver and do not change the meaning.                                *)
EXTENDS Integers, Sequences, FiniteSets
CONSTANTS Secs, Keys, Texts
VARIABLES cur,     \* current section (0 = none yet)
          store    \* store[s]: function key -> text, for sections that received at least one assignment
ivars == <<cur, store>>
IInit == cur = 0 /\ store = <<>>
(* blank lines, comment lines and unparsable lines contribute nothing *)
ILineNoise == UNCHANGED ivars
ILineSection(s) == cur' = s /\ UNCHANGED store
(* an assignment before the first section is dropped; the last assignment of a key wins *)
ILineKV(k, t) == /\ UNCHANGED cur
                 /\ IF cur = 0 THEN UNCHANGED store
                    ELSE LET old == IF cur \in DOMAIN store THEN store[cur] ELSE <<>> IN
                         store' = [s \in (DOMAIN store) \cup {cur} |->
                                     IF s = cur THEN [x \in (DOMAIN old) \cup {k} |-> IF x = k THEN t ELSE old[x]] ELSE store[s]]
ListedSections == DOMAIN store
ListedKeys(s) == IF s \in DOMAIN store THEN DOMAIN store[s] ELSE {}
HasKey(s, k) == k \in ListedKeys(s)
ValueOf(s, k) == IF HasKey(s, k) THEN store[s][k] ELSE -1          \* -1: the getter's default applies
DoNoise == ILineNoise
DoSection == \E s \in Secs : ILineSection(s)
DoKV == \E k \in Keys, t \in Texts : ILineKV(k, t)
INext == DoSection \/ DoKV
ISpec == IInit /\ [][INext]_ivars
(* every listed section has at least one key; sections without keys are not listed *)
Consistent == \A s \in ListedSections : ListedKeys(s) # {}
====
