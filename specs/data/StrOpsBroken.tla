---- MODULE StrOpsBroken ----
(* non-vacuity of StrOps!TokensAreRuns: a tokenizer that does not skip the delimiters in front of a token must be told apart *)
EXTENDS StrOps
VARIABLE x
BadStep(rest, D) == IF rest = <<>> THEN [tok |-> NoTok, rest |-> <<>>]
                    ELSE LET w == TakeTok(rest, D)  after == SubSeq(rest, Len(w) + 1, Len(rest)) IN
                         [tok |-> w, rest |-> IF after = <<>> THEN <<>> ELSE Tail(after)]
RECURSIVE BadToks(_, _, _)
BadToks(rest, D, fuel) == LET r == BadStep(rest, D) IN IF r.tok = NoTok \/ fuel = 0 THEN <<>> ELSE <<r.tok>> \o BadToks(r.rest, D, fuel - 1)
ASSUME BadTokensAreRuns == \A s \in Strings(1..3, 5), D \in SUBSET (1..3) : BadToks(s, D, 10) = Runs(s, D)
MSpec == x = 0 /\ [][x' = x]_x
====
