---- MODULE TreeShape ----
(* I-spec of the three PTree algorithms at the level of tree shapes.                          *)
(*   bst : p_tree_bst_insert / _remove (predecessor replacement)                              *)
(*   avl : height-based functional AVL with one operator per rotation; produces the shapes of *)
(*         ptree-avl.c (balance-factor bookkeeping there is an encoding of the heights)       *)
(*   rb  : literal transcription of ptree-rb.c: a heap of nodes with parent pointers, the     *)
(*         iterative balance_insert / balance_remove loops as recursive operators, one named  *)
(*         branch per case of the C code                                                      *)
(* A shape is <<>> or <<left, key, right, colour>> (colour "N" when not red-black).           *)
(* Ghost variable ks is the P-level key set (TreeMap!DOMAIN m); ShapeRefinesMap ties them.    *)
EXTENDS Integers, Sequences, FiniteSets, SequencesExt, TLC
CONSTANTS Keys, Kind
VARIABLES t, ks
vars == <<t, ks>>

Max2(a, b) == IF a > b THEN a ELSE b
RECURSIVE H(_), InOrder(_), Strip(_), MaxKey(_), AVLOk(_), RBSet(_), RBValidBH(_)
H(x) == IF x = <<>> THEN 0 ELSE 1 + Max2(H(x[1]), H(x[3]))
InOrder(x) == IF x = <<>> THEN <<>> ELSE InOrder(x[1]) \o <<x[2]>> \o InOrder(x[3])
Strip(x) == IF x = <<>> THEN <<>> ELSE <<Strip(x[1]), x[2], Strip(x[3])>>
MaxKey(x) == IF x[3] = <<>> THEN x[2] ELSE MaxKey(x[3])
N(l, k, r) == <<l, k, r, "N">>

(* ------------------------------ BST ------------------------------ *)
RECURSIVE BstIns(_, _), BstRem(_, _)
BstIns(x, k) == IF x = <<>> THEN N(<<>>, k, <<>>)
                ELSE IF k < x[2] THEN N(BstIns(x[1], k), x[2], x[3])
                ELSE IF k > x[2] THEN N(x[1], x[2], BstIns(x[3], k))
                ELSE x
BstRem(x, k) == IF x = <<>> THEN x
                ELSE IF k < x[2] THEN N(BstRem(x[1], k), x[2], x[3])
                ELSE IF k > x[2] THEN N(x[1], x[2], BstRem(x[3], k))
                ELSE IF x[1] # <<>> /\ x[3] # <<>>
                     THEN LET p == MaxKey(x[1]) IN N(BstRem(x[1], p), p, x[3])
                     ELSE IF x[1] = <<>> THEN x[3] ELSE x[1]

(* ------------------------------ AVL ------------------------------ *)
RotRight(x) == LET a == x[1] IN N(a[1], a[2], N(a[3], x[2], x[3]))
RotLeft(x)  == LET b == x[3] IN N(N(x[1], x[2], b[1]), b[2], b[3])
RotLeftRight(x) == RotRight(N(RotLeft(x[1]), x[2], x[3]))
RotRightLeft(x) == RotLeft(N(x[1], x[2], RotRight(x[3])))
Bal(x) == LET d == H(x[1]) - H(x[3]) IN
          IF d = 2 THEN (IF H(x[1][1]) >= H(x[1][3]) THEN RotRight(x) ELSE RotLeftRight(x))
          ELSE IF d = -2 THEN (IF H(x[3][3]) >= H(x[3][1]) THEN RotLeft(x) ELSE RotRightLeft(x))
          ELSE x
RECURSIVE AvlIns(_, _), AvlRem(_, _)
AvlIns(x, k) == IF x = <<>> THEN N(<<>>, k, <<>>)
                ELSE IF k < x[2] THEN Bal(N(AvlIns(x[1], k), x[2], x[3]))
                ELSE IF k > x[2] THEN Bal(N(x[1], x[2], AvlIns(x[3], k)))
                ELSE x
AvlRem(x, k) == IF x = <<>> THEN x
                ELSE IF k < x[2] THEN Bal(N(AvlRem(x[1], k), x[2], x[3]))
                ELSE IF k > x[2] THEN Bal(N(x[1], x[2], AvlRem(x[3], k)))
                ELSE IF x[1] # <<>> /\ x[3] # <<>>
                     THEN LET p == MaxKey(x[1]) IN Bal(N(AvlRem(x[1], p), p, x[3]))
                     ELSE IF x[1] = <<>> THEN x[3] ELSE x[1]

(* ------------------------------ RB (heap transcription) ------------------------------ *)
(* heap: [Keys -> [k, l, r, p, c]] with 0 = NULL / unused; a node's id is the key it was      *)
(* created for (ids are re-derived from the canonical shape before every operation).          *)
NullNode == [k |-> 0, l |-> 0, r |-> 0, p |-> 0, c |-> "N"]
RootKey(x) == IF x = <<>> THEN 0 ELSE x[2]
RECURSIVE NodeSet(_, _), FromHeap(_, _)
NodeSet(x, par) == IF x = <<>> THEN {}
                   ELSE {<<x[2], [k |-> x[2], l |-> RootKey(x[1]), r |-> RootKey(x[3]), p |-> par, c |-> x[4]]>>}
                        \cup NodeSet(x[1], x[2]) \cup NodeSet(x[3], x[2])
ToHeap(x) == LET ns == NodeSet(x, 0) IN
             [h |-> [i \in Keys |-> IF \E n \in ns : n[1] = i THEN (CHOOSE n \in ns : n[1] = i)[2] ELSE NullNode],
              root |-> RootKey(x)]
FromHeap(h, id) == IF id = 0 THEN <<>> ELSE <<FromHeap(h, h[id].l), h[id].k, FromHeap(h, h[id].r), h[id].c>>

IsBlack(h, n) == n = 0 \/ h[n].c = "B"
IsRed(h, n) == h[n].c = "R"
Sibling(h, n) == IF h[h[n].p].l = n THEN h[h[n].p].r ELSE h[h[n].p].l

RbRotL(S, n) ==
  LET h == S.h  tmp == h[n].r  par == h[n].p
      h1 == IF par # 0 THEN (IF h[par].l = n THEN [h EXCEPT ![par].l = tmp] ELSE [h EXCEPT ![par].r = tmp]) ELSE h
      tl == h1[tmp].l
      h2 == [h1 EXCEPT ![n].r = tl]
      h3 == IF tl # 0 THEN [h2 EXCEPT ![tl].p = n] ELSE h2
      h4 == [h3 EXCEPT ![tmp].l = n, ![tmp].p = par, ![n].p = tmp]
  IN [h |-> h4, root |-> IF par = 0 THEN tmp ELSE S.root]
RbRotR(S, n) ==
  LET h == S.h  tmp == h[n].l  par == h[n].p
      h1 == IF par # 0 THEN (IF h[par].l = n THEN [h EXCEPT ![par].l = tmp] ELSE [h EXCEPT ![par].r = tmp]) ELSE h
      tr == h1[tmp].r
      h2 == [h1 EXCEPT ![n].l = tr]
      h3 == IF tr # 0 THEN [h2 EXCEPT ![tr].p = n] ELSE h2
      h4 == [h3 EXCEPT ![tmp].r = n, ![tmp].p = par, ![n].p = tmp]
  IN [h |-> h4, root |-> IF par = 0 THEN tmp ELSE S.root]

InsCase1(S, n) == [S EXCEPT !.h[n].c = "B"]
InsCase3(S, par, u, g) == [S EXCEPT !.h[par].c = "B", !.h[u].c = "B", !.h[g].c = "R"]
InsCase45a(S, n, par, g) ==
  LET S1 == IF n = S.h[par].r THEN RbRotL(S, par) ELSE S
      n1 == IF n = S.h[par].r THEN S1.h[n].l ELSE n
      S2 == [S1 EXCEPT !.h[g].c = "R", !.h[S1.h[n1].p].c = "B"]
  IN RbRotR(S2, g)
InsCase45b(S, n, par, g) ==
  LET S1 == IF n = S.h[par].l THEN RbRotR(S, par) ELSE S
      n1 == IF n = S.h[par].l THEN S1.h[n].r ELSE n
      S2 == [S1 EXCEPT !.h[g].c = "R", !.h[S1.h[n1].p].c = "B"]
  IN RbRotL(S2, g)
RECURSIVE RbBalIns(_, _)
RbBalIns(S, n) ==
  LET h == S.h IN
  IF h[n].p = 0 THEN InsCase1(S, n)
  ELSE IF IsBlack(h, h[n].p) THEN S
  ELSE LET par == h[n].p
           g == h[par].p
           u == IF h[g].l = par THEN h[g].r ELSE h[g].l
       IN IF u # 0 /\ IsRed(h, u) THEN RbBalIns(InsCase3(S, par, u, g), g)
          ELSE IF par = h[g].l THEN InsCase45a(S, n, par, g)
          ELSE InsCase45b(S, n, par, g)

RECURSIVE RbFind(_, _, _)
RbFind(h, cur, k) == IF cur = 0 THEN 0 ELSE IF k < h[cur].k THEN RbFind(h, h[cur].l, k)
                     ELSE IF k > h[cur].k THEN RbFind(h, h[cur].r, k) ELSE cur
RECURSIVE RbFindParent(_, _, _, _)
RbFindParent(h, cur, par, k) == IF cur = 0 THEN par ELSE IF k < h[cur].k THEN RbFindParent(h, h[cur].l, cur, k)
                                ELSE RbFindParent(h, h[cur].r, cur, k)
RbIns(x, k) ==
  LET S == ToHeap(x) IN
  IF RbFind(S.h, S.root, k) # 0 THEN x
  ELSE LET par == RbFindParent(S.h, S.root, 0, k)
           h1 == [S.h EXCEPT ![k] = [k |-> k, l |-> 0, r |-> 0, p |-> par, c |-> "R"]]
           h2 == IF par = 0 THEN h1 ELSE IF k < h1[par].k THEN [h1 EXCEPT ![par].l = k] ELSE [h1 EXCEPT ![par].r = k]
           S1 == [h |-> h2, root |-> IF par = 0 THEN k ELSE S.root]
           S2 == RbBalIns(S1, k)
       IN FromHeap(S2.h, S2.root)

RemCase2(S, n) ==
  LET par == S.h[n].p  sib == Sibling(S.h, n)
      S1 == [S EXCEPT !.h[par].c = "R", !.h[sib].c = "B"]
  IN IF S.h[par].l = n THEN RbRotL(S1, par) ELSE RbRotR(S1, par)
RemCase4L(S, sib) == RbRotR([S EXCEPT !.h[sib].c = "R", !.h[S.h[sib].l].c = "B"], sib)
RemCase4R(S, sib) == RbRotL([S EXCEPT !.h[sib].c = "R", !.h[S.h[sib].r].c = "B"], sib)
RemCase5(S, n) ==
  LET par == S.h[n].p  sib == Sibling(S.h, n)
      S1 == [S EXCEPT !.h[sib].c = S.h[par].c, !.h[par].c = "B"]
  IN IF S.h[par].l = n
     THEN RbRotL([S1 EXCEPT !.h[S1.h[sib].r].c = "B"], par)
     ELSE RbRotR([S1 EXCEPT !.h[S1.h[sib].l].c = "B"], par)
RECURSIVE RbBalRem(_, _)
RbBalRem(S, n) ==
  IF S.h[n].p = 0 THEN S
  ELSE LET S1 == IF IsRed(S.h, Sibling(S.h, n)) THEN RemCase2(S, n) ELSE S
           sib == Sibling(S1.h, n)
           par == S1.h[n].p
       IN IF IsBlack(S1.h, S1.h[sib].l) /\ IsBlack(S1.h, S1.h[sib].r)
          THEN LET S2 == [S1 EXCEPT !.h[sib].c = "R"] IN
               IF IsBlack(S2.h, par) THEN RbBalRem(S2, par)
               ELSE [S2 EXCEPT !.h[par].c = "B"]
          ELSE LET S3 == IF S1.h[par].l = n /\ IsBlack(S1.h, S1.h[sib].r) THEN RemCase4L(S1, sib)
                         ELSE IF S1.h[par].r = n /\ IsBlack(S1.h, S1.h[sib].l) THEN RemCase4R(S1, sib)
                         ELSE S1
               IN RemCase5(S3, n)
RECURSIVE RbMaxNode(_, _)
RbMaxNode(h, n) == IF h[n].r = 0 THEN n ELSE RbMaxNode(h, h[n].r)
RbRem(x, k) ==
  LET S == ToHeap(x)
      f == RbFind(S.h, S.root, k)
  IN IF f = 0 THEN x
     ELSE LET two == S.h[f].l # 0 /\ S.h[f].r # 0
              prev == IF two THEN RbMaxNode(S.h, S.h[f].l) ELSE f
              Sa == IF two THEN [S EXCEPT !.h[f].k = S.h[prev].k] ELSE S
              cur == prev
              child == IF Sa.h[cur].l = 0 THEN Sa.h[cur].r ELSE Sa.h[cur].l
              Sb == IF child = 0 /\ IsBlack(Sa.h, cur) THEN RbBalRem(Sa, cur) ELSE Sa
              cpar == IF cur = Sb.root THEN 0 ELSE Sb.h[cur].p
              h1 == IF cur = Sb.root THEN Sb.h
                    ELSE IF Sb.h[cpar].l = cur THEN [Sb.h EXCEPT ![cpar].l = child] ELSE [Sb.h EXCEPT ![cpar].r = child]
              root1 == IF cur = Sb.root THEN child ELSE Sb.root
              h2 == IF child # 0
                    THEN [h1 EXCEPT ![child].p = cpar, ![child].c = IF IsBlack(Sb.h, cur) THEN "B" ELSE h1[child].c]
                    ELSE h1
          IN FromHeap(h2, root1)

(* ------------------------------ transitions ------------------------------ *)
Ins(x, k) == CASE Kind = "bst" -> BstIns(x, k) [] Kind = "avl" -> AvlIns(x, k) [] Kind = "rb" -> RbIns(x, k)
Rem(x, k) == CASE Kind = "bst" -> BstRem(x, k) [] Kind = "avl" -> AvlRem(x, k) [] Kind = "rb" -> RbRem(x, k)

Init == t = <<>> /\ ks = {}
SInsert(k) == t' = Ins(t, k) /\ ks' = ks \cup {k}
SRemove(k) == t' = Rem(t, k) /\ ks' = ks \ {k}
DoInsert == \E k \in Keys : SInsert(k)
DoRemove == \E k \in Keys : SRemove(k)
Next == DoInsert \/ DoRemove
Spec == Init /\ [][Next]_vars

(* ------------------------------ properties ------------------------------ *)
ShapeRefinesMap == InOrder(t) = SetToSortSeq(ks, <)            \* refinement of TreeMap's key set (C12)
AVLOk(x) == IF x = <<>> THEN TRUE
            ELSE LET d == H(x[1]) - H(x[3]) IN d >= -1 /\ d <= 1 /\ AVLOk(x[1]) /\ AVLOk(x[3])
RBSet(x) == IF x = <<>> THEN {<<"B", 0>>}
            ELSE LET L == RBSet(x[1])  R == RBSet(x[3]) IN
                 {<<"B", y[2] + 1>> : y \in {z \in L : \E w \in R : w[2] = z[2]}} \cup
                 {<<"R", y[2]>> : y \in {z \in L : z[1] = "B" /\ \E w \in R : w[2] = z[2] /\ w[1] = "B"}}
RBColourable(x) == \E y \in RBSet(x) : y[1] = "B"
(* black height under the model's own colours, -1 if the colouring is invalid *)
RBValidBH(x) == IF x = <<>> THEN 0
                ELSE LET a == RBValidBH(x[1])  b == RBValidBH(x[3])
                         redred == x[4] = "R" /\ ((x[1] # <<>> /\ x[1][4] = "R") \/ (x[3] # <<>> /\ x[3][4] = "R"))
                     IN IF a < 0 \/ b < 0 \/ a # b \/ redred THEN -1 ELSE a + (IF x[4] = "B" THEN 1 ELSE 0)
Balanced == /\ Kind = "avl" => AVLOk(t)                          \* C13
            /\ Kind = "rb" => (RBColourable(t) /\ RBValidBH(t) >= 0 /\ (t # <<>> => t[4] = "B"))
====
