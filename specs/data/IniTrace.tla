---- MODULE IniTrace ----
(* Trace validator for PIniFile (C16). "line" events are the abstract lines of the generated file,   *)
(* the remaining events are what the real parser reported for the concrete rendering. Env TABLE maps  *)
(* each text id to the documented conversions (int / boolean / list items), computed by the oracle.   *)
EXTENDS IniStore, VTrace
ToSetS(s) == {s[i] : i \in 1..Len(s)}
Table == ndJsonDeserialize(IOEnv.TABLE)
Info(t) == Table[CHOOSE i \in 1..Len(Table) : Table[i].t = t]
tv == <<ivars, l>>
TInit == IInit /\ CursorInit
TrFile == IsEvent("file") /\ Consume /\ cur' = 0 /\ store' = <<>>
TrLine == /\ IsEvent("line") /\ Consume
          /\ CASE Ev.kind = "section" -> ILineSection(Ev.s)
               [] Ev.kind = "kv" -> ILineKV(Ev.k, Ev.t)
               [] OTHER -> ILineNoise
TrParsed == IsEvent("parsed") /\ Consume /\ Ev.ok = 1 /\ UNCHANGED ivars
TrSections == IsEvent("sections") /\ Consume /\ ToSetS(Ev.names) = ListedSections /\ Len(Ev.names) = Cardinality(ListedSections) /\ UNCHANGED ivars
(* a key assigned several times may be listed several times: the listing is compared as a set *)
TrKeys == IsEvent("keys") /\ Consume /\ ToSetS(Ev.keys) = ListedKeys(Ev.s) /\ UNCHANGED ivars
(* getters: str is the id of the returned text, or -1 when the default came back *)
TrGet == /\ IsEvent("get") /\ Consume
         /\ (Ev.exists = 1) = HasKey(Ev.s, Ev.k)
         /\ Ev.str = ValueOf(Ev.s, Ev.k)
         /\ IF HasKey(Ev.s, Ev.k)
            THEN LET i == Info(store[Ev.s][Ev.k]) IN Ev.int = i.int /\ Ev.bool = i.bool /\ Ev.list = i.list /\ Ev.dbl = 1
            ELSE Ev.int = -77 /\ Ev.bool = 1 /\ Ev.list = <<>> /\ Ev.dbl = 1            \* the defaults the driver passes
         /\ UNCHANGED ivars
TNext == TrFile \/ TrLine \/ TrParsed \/ TrSections \/ TrKeys \/ TrGet
TSpec == TInit /\ [][TNext]_tv
====
