---- MODULE HashCtx ----
(* P-spec of PCryptoHash (C11): which message a digest belongs to. The digest function itself is the *)
(* uninterpreted operator Std(alg, chunks) whose interpretation comes from an independent oracle.    *)
EXTENDS Integers, Sequences, FiniteSets
CONSTANTS Algs, ChunkIds, MaxLen
VARIABLES halg,     \* algorithm of the live context, -1 = none
          chunks,   \* ids of the non-empty chunks accepted since creation / last reset while open
          closed    \* digest has been read
hvars == <<halg, chunks, closed>>
HInit == halg = -1 /\ chunks = <<>> /\ closed = FALSE
HNew(a) == halg = -1 /\ halg' = a /\ chunks' = <<>> /\ closed' = FALSE
(* an update is accepted iff the context is open and the chunk is non-empty *)
HUpdate(c, len) == /\ halg # -1
                   /\ chunks' = IF ~closed /\ len > 0 THEN Append(chunks, c) ELSE chunks
                   /\ UNCHANGED <<halg, closed>>
(* reading the digest (either form) closes the context; reading is repeatable *)
HGet == halg # -1 /\ closed' = TRUE /\ UNCHANGED <<halg, chunks>>
HReset == halg # -1 /\ chunks' = <<>> /\ closed' = FALSE /\ UNCHANGED halg
HFree == halg # -1 /\ halg' = -1 /\ chunks' = <<>> /\ closed' = FALSE
DoNew == \E a \in Algs : HNew(a)
DoUpdate == \E c \in ChunkIds : HUpdate(c, 1)
DoUpdateEmpty == \E c \in ChunkIds : HUpdate(c, 0)
DoGet == HGet
DoReset == HReset
DoFree == HFree
HNext == DoNew \/ DoUpdate \/ DoUpdateEmpty \/ DoGet \/ DoReset \/ DoFree
HSpec == HInit /\ [][HNext]_hvars
LenBound == Len(chunks) <= MaxLen
ClosedIgnoresUpdates == [][closed /\ closed' => chunks' = chunks]_hvars
====
