SPECIFICATION Spec
CONSTANTS Keys = {1,2,3}
          MaxId = 9
CONSTRAINT IdBound
INVARIANTS OwnedAlive AllDeadAtFree SortedOK
PROPERTY DestroyOnce
