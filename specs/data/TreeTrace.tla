---- MODULE TreeTrace ----
(* Trace validator for PTree histories recorded by harness/drv_tree.c.                      *)
(* Mode selects which property is decided:  "map" = C12, "bal" = C13, "own" = C14.          *)
EXTENDS TreeMap, VTrace
CONSTANT Mode
VARIABLES ty, nf          \* tree type (0 BST, 1 RB, 2 AVL) and whether notifiers were given
tvars == <<vars, ty, nf, l>>

Max2(a, b) == IF a > b THEN a ELSE b
Min2(a, b) == IF a < b THEN a ELSE b

(* ---- shape predicates: a shape is <<>> or <<left, key, right>> ---- *)
RECURSIVE Height(_), AVLOk(_), InOrder(_), RBSet(_), MinAVL(_), Pow2(_)
Height(t) == IF t = <<>> THEN 0 ELSE 1 + Max2(Height(t[1]), Height(t[3]))
InOrder(t) == IF t = <<>> THEN <<>> ELSE InOrder(t[1]) \o <<t[2]>> \o InOrder(t[3])
AVLOk(t) == IF t = <<>> THEN TRUE
            ELSE LET d == Height(t[1]) - Height(t[3]) IN d >= -1 /\ d <= 1 /\ AVLOk(t[1]) /\ AVLOk(t[3])
(* achievable <<colour, black height>> pairs of a subtree under the red-black rules *)
RBSet(t) == IF t = <<>> THEN {<<"B", 0>>}
            ELSE LET L == RBSet(t[1])  R == RBSet(t[3]) IN
                 {<<"B", x[2] + 1>> : x \in {y \in L : \E z \in R : z[2] = y[2]}} \cup
                 {<<"R", x[2]>> : x \in {y \in L : y[1] = "B" /\ \E z \in R : z[2] = y[2] /\ z[1] = "B"}}
RBColourable(t) == \E x \in RBSet(t) : x[1] = "B"
MinAVL(h) == IF h <= 0 THEN 0 ELSE IF h = 1 THEN 1 ELSE MinAVL(h - 1) + MinAVL(h - 2) + 1
Pow2(h) == IF h <= 0 THEN 1 ELSE 2 * Pow2(h - 1)
(* depth bounds of the property in exact integer form: AVL n >= minimal size of height h;     *)
(* RB h <= 2*log2(n+1)  <=>  2^h <= (n+1)^2  (h <= 30 so that 2^h fits TLC's integers)        *)
DepthOK(h, n) == CASE ty = 2 -> n >= MinAVL(h)
                   [] ty = 1 -> h <= 30 /\ Pow2(h) <= (n + 1) * (n + 1)
                   [] OTHER -> TRUE
ShapeOK(t) == /\ InOrder(t) = SortedKeys
              /\ ty = 2 => AVLOk(t)
              /\ ty = 1 => RBColourable(t)
              /\ DepthOK(Height(t), Size)

(* nf: 0 no notifiers, 1 both, 2 key notifier only, 3 value notifier only *)
Notified(S) == CASE nf = 1 -> S [] nf = 2 -> {x \in S : x[1] = "K"} [] nf = 3 -> {x \in S : x[1] = "V"} [] OTHER -> {}
DOK(d) == Mode = "own" => (Len(d) = Cardinality(ToSet(d)) /\ ToSet(d) = Notified(lastD'))

TInit == Init /\ ty = 0 /\ nf = 0 /\ CursorInit

TrNew == /\ IsEvent("new") /\ Consume
         /\ TNew /\ ty' = Ev.ty /\ nf' = Ev.nf /\ nextId' = 1
TrIns == /\ IsEvent("ins") /\ Consume
         /\ TInsert(Ev.k, Ev.kid, Ev.vid)
         /\ DOK(Ev.d)
         /\ Mode = "map" => Ev.n = Size'
         /\ nextId' = Max2(nextId, Max2(Ev.kid, Ev.vid) + 1)
         /\ UNCHANGED <<ty, nf>>
(* an insert of a new key for whose node no memory could be had: nothing is stored, nothing is destroyed (the pair stays the caller's) *)
TrInsFail == /\ IsEvent("insfail") /\ Consume /\ alive /\ Ev.k \notin DOMAIN m
             /\ (Mode = "own" => Ev.d = <<>>)
             /\ (Mode = "map" => Ev.n = Size /\ Ev.found = 0)
             /\ nextId' = Max2(nextId, Max2(Ev.kid, Ev.vid) + 1)
             /\ dead' = dead \cup {<<"K", Ev.kid>>, <<"V", Ev.vid>>}          \* accounted for: the caller threw the pair away itself
             /\ UNCHANGED <<m, alive, lastD, lastR, ty, nf>>
TrRem == /\ IsEvent("rem") /\ Consume
         /\ TRemove(Ev.k)
         /\ DOK(Ev.d)
         /\ Mode = "map" => (Ev.n = Size' /\ (Ev.res = 1) = lastR')
         /\ UNCHANGED <<ty, nf, nextId>>
TrClr == /\ IsEvent("clr") /\ Consume
         /\ TClear
         /\ DOK(Ev.d)
         /\ Mode = "map" => Ev.n = 0
         /\ UNCHANGED <<ty, nf, nextId>>
TrFre == /\ IsEvent("fre") /\ Consume
         /\ TFree
         /\ DOK(Ev.d)
         /\ (Mode = "own" /\ nf = 1) =>
               \A i \in 1..(nextId - 1) : <<"K", i>> \in dead' \/ <<"V", i>> \in dead'
         /\ UNCHANGED <<ty, nf, nextId>>
(* full observation over the small key universe *)
TrObs == /\ IsEvent("obs") /\ Consume
         /\ alive
         /\ Mode = "map" =>
              /\ Ev.n = Size
              /\ \A i \in 1..Len(Ev.look) : Ev.look[i][2] = Lookup(Ev.look[i][1])
              /\ Ev.seq = SortedPairs
         /\ Mode = "own" => Ev.intact = 1
         /\ Mode = "bal" => ShapeOK(Ev.shape)
         /\ UNCHANGED <<vars, ty, nf>>
(* sparse observation for large key universes: sampled lookups, node count, max lookup depth *)
TrObsS == /\ IsEvent("obsS") /\ Consume
          /\ alive
          /\ Mode = "map" =>
               /\ Ev.n = Size
               /\ \A i \in 1..Len(Ev.look) : Ev.look[i][2] = Lookup(Ev.look[i][1])
               /\ Ev.nvis = Size /\ Ev.sorted = 1
          /\ Mode = "bal" => DepthOK(Ev.maxd, Ev.n)
          /\ UNCHANGED <<vars, ty, nf>>
(* deep AVL scenario (harness: deep_scenario): after the removal of the deepest leaf of a worst-case tree of Ev.n pairs every key but the *)
(* removed one is found, and no node has subtrees whose heights differ by more than one (the AVL rule of TreeShape, at a size no graph reaches) *)
TrDeep == /\ IsEvent("deep") /\ Consume
          /\ (Ev.skipped = 0 => /\ (Mode = "map" => Ev.after = Ev.n - 1 /\ Ev.lookups_ok = 1)
                                /\ (Mode = "bal" => Ev.lookups_ok = 1 /\ Ev.maxdiff <= 1))
          /\ UNCHANGED <<vars, ty, nf>>
(* traversal stopped at the at-th callback, followed by what a second, full traversal saw *)
TrFst == /\ IsEvent("fst") /\ Consume
         /\ alive
         /\ Mode = "map" =>
              /\ Ev.seq = SubSeq(SortedPairs, 1, Min2(Ev.at, Size))
              /\ Ev.after = SortedPairs
         /\ UNCHANGED <<vars, ty, nf>>
TrReset == /\ IsEvent("Reset") /\ Consume
           /\ m' = <<>> /\ alive' = FALSE /\ dead' = {} /\ lastD' = {} /\ lastR' = FALSE
           /\ nextId' = 1 /\ ty' = 0 /\ nf' = 0

TNext == TrDeep \/ TrNew \/ TrInsFail \/ TrIns \/ TrRem \/ TrClr \/ TrFre \/ TrObs \/ TrObsS \/ TrFst \/ TrReset
TSpec == TInit /\ [][TNext]_tvars
====
