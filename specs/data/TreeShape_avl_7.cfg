SPECIFICATION Spec
CONSTANTS Keys = {1,2,3,4,5,6,7}
          Kind = "avl"
INVARIANTS ShapeRefinesMap Balanced
