SPECIFICATION ISpec
CONSTANTS Secs = {1,2}
          Keys = {1,2}
          Texts = {1,2}
INVARIANT Consistent
