---- MODULE ContTrace ----
(* Trace validator for PHashTable and PList histories recorded by harness/drv_cont.c (C15). *)
EXTENDS HashTable, PList, VTrace
cvars == <<hm, halive, ls, l>>
CInit == HInit /\ LInit /\ CursorInit
CountIn(s, v) == Cardinality({i \in 1..Len(s) : s[i] = v})
(* model value 9 is mapped to the all-ones pointer by the driver: the library hands it back like any value, which the *)
(* observer cannot tell from the documented not-found marker (-1)                                                 *)
AllOnes == 9
Norm(v) == IF v = AllOnes THEN -1 ELSE v

TrHNew == IsEvent("hnew") /\ Consume /\ HNew /\ UNCHANGED ls
TrHIns == IsEvent("hins") /\ Consume /\ HInsert(Ev.k, Ev.v) /\ UNCHANGED ls
TrHRem == IsEvent("hrem") /\ Consume /\ HRemove(Ev.k) /\ UNCHANGED ls
TrHFree == IsEvent("hfree") /\ Consume /\ HFree /\ UNCHANGED ls
TrHObs == /\ IsEvent("hobs") /\ Consume /\ halive
          /\ \A i \in 1..Len(Ev.look) : Ev.look[i][2] = Norm(HLookup(Ev.look[i][1]))
          /\ ToSet(Ev.keys) = HKeysOf /\ Len(Ev.keys) = Cardinality(HKeysOf)
          /\ Len(Ev.vals) = Cardinality(HKeysOf)
          /\ \A v \in {hm[k] : k \in DOMAIN hm} : CountIn(Ev.vals, Norm(v)) = HCount(v)
          /\ \A x \in ToSet(Ev.vals) : \E k \in DOMAIN hm : Norm(hm[k]) = x
          /\ \A i \in 1..Len(Ev.lbv) :
                /\ ToSet(Ev.lbv[i][2]) = HByValue(Ev.lbv[i][1]) /\ Len(Ev.lbv[i][2]) = Cardinality(HByValue(Ev.lbv[i][1]))
                /\ ToSet(Ev.lbv[i][3]) = HByValue(Ev.lbv[i][1]) /\ Len(Ev.lbv[i][3]) = Cardinality(HByValue(Ev.lbv[i][1]))
                (* the comparator alone decides: one that accepts nothing yields nothing (even for an identical pointer), one that accepts all yields every key *)
                /\ (Len(Ev.lbv[i]) >= 5 => /\ Ev.lbv[i][4] = <<>>
                                           /\ ToSet(Ev.lbv[i][5]) = DOMAIN hm /\ Len(Ev.lbv[i][5]) = Cardinality(DOMAIN hm))
          /\ UNCHANGED <<hm, halive, ls>>
(* an append for whose node no memory could be had returns the list it was given; a key listing that loses one node this way still lists the others *)
TrLAppFail == IsEvent("lappfail") /\ Consume /\ Ev.same = 1 /\ UNCHANGED <<hm, halive, ls>>
TrHKeysFail == /\ IsEvent("hkeysfail") /\ Consume /\ halive
               /\ ToSet(Ev.keys) \subseteq HKeysOf /\ Len(Ev.keys) = Cardinality(ToSet(Ev.keys))
               /\ Ev.len = Cardinality(HKeysOf) - (IF Ev.n <= Cardinality(HKeysOf) THEN 1 ELSE 0)
               /\ UNCHANGED <<hm, halive, ls>>
TrLApp == IsEvent("lapp") /\ Consume /\ LAppend(Ev.x) /\ UNCHANGED <<hm, halive>>
TrLPre == IsEvent("lpre") /\ Consume /\ LPrepend(Ev.x) /\ UNCHANGED <<hm, halive>>
TrLRem == IsEvent("lrem") /\ Consume /\ LRemove(Ev.x) /\ UNCHANGED <<hm, halive>>
TrLRev == IsEvent("lrev") /\ Consume /\ LReverse /\ UNCHANGED <<hm, halive>>
TrLFree == IsEvent("lfree") /\ Consume /\ LFree /\ UNCHANGED <<hm, halive>>
TrLObs == /\ IsEvent("lobs") /\ Consume
          /\ Ev.seq = ls /\ Ev.len = Len(ls) /\ Ev.last = LLast
          /\ UNCHANGED <<hm, halive, ls>>
TrReset == IsEvent("Reset") /\ Consume /\ hm' = <<>> /\ halive' = FALSE /\ ls' = <<>>
CNext == TrLAppFail \/ TrHKeysFail \/ TrHNew \/ TrHIns \/ TrHRem \/ TrHFree \/ TrHObs \/ TrLApp \/ TrLPre \/ TrLRem \/ TrLRev \/ TrLFree \/ TrLObs \/ TrReset
CSpec == CInit /\ [][CNext]_cvars
====
