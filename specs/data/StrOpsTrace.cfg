SPECIFICATION TSpec
CONSTRAINT HighWater
POSTCONDITION Accepted
CHECK_DEADLOCK FALSE
