---- MODULE HashTable ----
(* P-spec of PHashTable (C15): a map keyed by pointer identity. Model keys / values are small *)
(* integers; the driver maps them to concrete pointer bit patterns (NULL, all-ones, colliding *)
(* buckets, INT_MAX-adjacent low words ...). NotFound is the documented (ppointer) -1 marker.  *)
EXTENDS Integers, Sequences, FiniteSets
CONSTANTS HKeys, HVals
VARIABLES hm, halive
hvars == <<hm, halive>>
NotFound == -1
HLookup(k) == IF k \in DOMAIN hm THEN hm[k] ELSE NotFound
HKeysOf == DOMAIN hm
HCount(v) == Cardinality({k \in DOMAIN hm : hm[k] = v})
HByValue(v) == {k \in DOMAIN hm : hm[k] = v}

HInit == hm = <<>> /\ halive = FALSE
HNew == ~halive /\ halive' = TRUE /\ hm' = <<>>
HInsert(k, v) == halive /\ hm' = [x \in (DOMAIN hm) \cup {k} |-> IF x = k THEN v ELSE hm[x]] /\ UNCHANGED halive
HRemove(k) == halive /\ hm' = [x \in (DOMAIN hm) \ {k} |-> hm[x]] /\ UNCHANGED halive
HFree == halive /\ halive' = FALSE /\ hm' = <<>>

DoHNew == HNew
DoHInsert == \E k \in HKeys, v \in HVals : HInsert(k, v)
DoHRemove == \E k \in HKeys : HRemove(k)
DoHFree == HFree
HNext == DoHNew \/ DoHInsert \/ DoHRemove \/ DoHFree
HSpec == HInit /\ [][HNext]_hvars
(* sanity of the model itself *)
HTypeOK == DOMAIN hm \subseteq HKeys /\ \A k \in DOMAIN hm : hm[k] \in HVals
OnlyThatKey == [][\A k \in HKeys : (\E j \in HKeys : j # k /\ HLookup(j)' # HLookup(j)) => HLookup(k)' = HLookup(k) \/ ~halive' \/ ~halive]_hvars
====
