SPECIFICATION HSpec
CONSTANTS Algs = {0}
          ChunkIds = {1,2}
          MaxLen = 3
CONSTRAINT LenBound
PROPERTY ClosedIgnoresUpdates
