SPECIFICATION MSpec
CHECK_DEADLOCK FALSE
