SPECIFICATION TSpec
CONSTANTS Keys = {}
          MaxId = 0
          Mode = "own"
CONSTRAINT HighWater
POSTCONDITION Accepted
INVARIANT OwnedAlive
CHECK_DEADLOCK FALSE
