---- MODULE VTrace ----
(* Trace cursor shared by every *Trace validator.  The trace is an ndjson file named by the  *)
(* environment variable TRACE; acceptance is decided with a high-water register so that TLC *)
(* never has to print a multi-thousand-state behaviour.                                      *)
EXTENDS Integers, Sequences, TLC, Json, IOUtils
Tr == ndJsonDeserialize(IOEnv.TRACE)
VARIABLE l                                   \* 1-based position of the next unread line
Ev == Tr[l]
More == l <= Len(Tr)
IsEvent(name) == More /\ Ev.e = name
Consume == l' = l + 1
CursorInit == TLCSet(1, 0) /\ l = 1          \* register 1 = longest matched prefix (+1)
HighWater == TLCSet(1, IF TLCGet(1) < l THEN l ELSE TLCGet(1))     \* cfg: CONSTRAINT
Accepted == /\ PrintT(<<"VT_MATCHED", TLCGet(1) - 1, Len(Tr)>>)
            /\ TLCGet(1) = Len(Tr) + 1                              \* cfg: POSTCONDITION
HasField(r, f) == f \in DOMAIN r
====
