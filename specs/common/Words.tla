---- MODULE Words ----
(* Fixed-width machine words for TLC, whose integers are 32-bit: a word is a sequence of limbs,   *)
(* least significant first, each limb in 0..Base-1 (Base = 2^16 for recorded traces, smaller for  *)
(* exhaustive design checks). Arithmetic wraps like C unsigned / two's-complement arithmetic.     *)
EXTENDS Integers, Sequences, Bitwise
CONSTANT Base
IsWord(x, n) == Len(x) = n /\ \A i \in 1..n : x[i] \in 0..(Base - 1)
WZero(n) == [i \in 1..n |-> 0]
WOne(n) == [i \in 1..n |-> IF i = 1 THEN 1 ELSE 0]
WAllOnes(n) == [i \in 1..n |-> Base - 1]
RECURSIVE CarryInto(_, _, _)
(* carry into limb i of a + b *)
CarryInto(a, b, i) == IF i = 1 THEN 0 ELSE (a[i - 1] + b[i - 1] + CarryInto(a, b, i - 1)) \div Base
WAdd(a, b) == [i \in 1..Len(a) |-> (a[i] + b[i] + CarryInto(a, b, i)) % Base]
WNot(a) == [i \in 1..Len(a) |-> Base - 1 - a[i]]
WNeg(a) == WAdd(WNot(a), WOne(Len(a)))
WSub(a, b) == WAdd(a, WNeg(b))
WAnd(a, b) == [i \in 1..Len(a) |-> a[i] & b[i]]
WOr(a, b) == [i \in 1..Len(a) |-> a[i] | b[i]]
WXor(a, b) == [i \in 1..Len(a) |-> a[i] ^^ b[i]]
====
