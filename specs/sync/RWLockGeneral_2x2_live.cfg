SPECIFICATION FairSpec
CONSTANTS Threads = {1,2}
          Rounds = 2
PROPERTY Terminates
