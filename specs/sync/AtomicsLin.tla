---- MODULE AtomicsLin ----
(* Linearizability validator for p_atomic_* histories (harness/drv_atomic.c). Words are logged as *)
(* 16-bit limbs, least significant first (2 limbs for the int, 4 for the pointer-sized word).     *)
EXTENDS Atomics, VTrace
tv == <<avars, l>>
TInit == /\ val = [c \in Cells |-> <<>>] /\ pend = [t \in Threads |-> IdleP] /\ CursorInit
(* quiescent point: the harness logs both words; after a harness reset (or at the start of a file) they are
   adopted, otherwise they must equal the model's values *)
TrEpoch == /\ IsEvent("Epoch") /\ Consume /\ \A t \in Threads : pend[t].st = "idle"
           /\ IF l = 1 \/ val["i"] = <<>> \/ Ev.reset = 1 THEN val' = [c \in Cells |-> IF c = "i" THEN Ev.i ELSE Ev.p]
              ELSE val' = val /\ val["i"] = Ev.i /\ val["p"] = Ev.p
           /\ UNCHANGED pend
TrCall == /\ IsEvent("call") /\ Consume /\ ACallX(Ev.t, Ev.c, Ev.op, Ev.a, Ev.b, Ev.xres, Ev.xok)
(* pruning: the call event carries the call's own results (copied from its ret by the merger) *)
DoLin == \E t \in Threads : /\ pend[t].st = "called" /\ ALin(t)
                            /\ UNCHANGED l
TrRet == /\ IsEvent("ret") /\ Consume /\ ARet(Ev.t, Ev.res, Ev.ok)
(* message-passing litmus observation: the reader saw flag = 1, so it must see the data written before the flag *)
TrMp == /\ IsEvent("mp") /\ Consume /\ (Ev.flag = 1 => Ev.data = Ev.expect) /\ UNCHANGED avars
(* store-buffering litmus: thread 1 runs set(x,1); r1 = get(y), thread 2 runs set(y,1); r2 = get(x), both words 0 before, nothing
   between the two calls of a thread (no event numbers are taken inside a round, they would act as fences).  The outcomes the
   P-spec admits are those of the interleavings of the four indivisible steps that keep each thread's program order. *)
SBProg == << << [c |-> "x", op |-> "set", a |-> <<1>>], [c |-> "y", op |-> "get", a |-> <<>>] >>,
             << [c |-> "y", op |-> "set", a |-> <<1>>], [c |-> "x", op |-> "get", a |-> <<>>] >> >>
SBOrders == { <<1,1,2,2>>, <<1,2,1,2>>, <<1,2,2,1>>, <<2,1,1,2>>, <<2,1,2,1>>, <<2,2,1,1>> }
RECURSIVE SBRun(_, _, _, _, _)
SBRun(order, i, mem, pc, r) ==
  IF i > Len(order) THEN r
  ELSE LET t == order[i]  ins == SBProg[t][pc[t]]  e == Effect(mem[ins.c], ins.op, ins.a, <<>>) IN
       SBRun(order, i + 1, [mem EXCEPT ![ins.c] = e.nv], [pc EXCEPT ![t] = @ + 1], IF ins.op = "get" THEN [r EXCEPT ![t] = e.res[1]] ELSE r)
SBOutcomes == { SBRun(o, 1, [x |-> <<0>>, y |-> <<0>>], <<1, 1>>, <<-1, -1>>) : o \in SBOrders }
TrSb == /\ IsEvent("sb") /\ Consume /\ <<Ev.r1, Ev.r2>> \in SBOutcomes /\ UNCHANGED avars
(* read-modify-write litmus: 2-4 threads each made ONE call on the same fresh word at (nearly) the same moment, nothing was logged in
   between.  The recorded results and the final word must be those of some order of the indivisible effects. *)
Perms(n) == { p \in [1..n -> 1..n] : \A i, j \in 1..n : i # j => p[i] # p[j] }
RECURSIVE RmwRun(_, _, _, _)
RmwRun(p, i, v, ev) == IF i > Len(p) THEN v = ev.final
                       ELSE LET o == ev.ops[p[i]]  e == Effect(v, o.op, o.a, o.b) IN e.res = o.res /\ e.ok = o.ok /\ RmwRun(p, i + 1, e.nv, ev)
TrRmw == /\ IsEvent("rmw") /\ Consume /\ (\E p \in Perms(Len(Ev.ops)) : RmwRun(p, 1, Ev.init, Ev)) /\ UNCHANGED avars
(* compare-and-exchange flow litmus: between init and final the word was changed by successful compare-and-exchange calls only, and
   Ev.moves counts them per (from, to).  A compare-and-exchange succeeds exactly when the word equals its expected value, so the values
   the word went through form a walk from init to final whose steps are exactly the successful moves: for every value, arrivals minus
   departures is 1 for final, -1 for init (0 if they coincide) and 0 otherwise.  (Cancelling a move against its opposite keeps that.) *)
RECURSIVE NetFlow(_, _, _)
NetFlow(ms, i, v) == IF i > Len(ms) THEN 0 ELSE (IF ms[i].t = v THEN ms[i].n ELSE 0) - (IF ms[i].f = v THEN ms[i].n ELSE 0) + NetFlow(ms, i + 1, v)
FlowBalanced(ev) == \A v \in {ev.init, ev.final} \cup {ev.moves[i].f : i \in 1..Len(ev.moves)} \cup {ev.moves[i].t : i \in 1..Len(ev.moves)} :
                       NetFlow(ev.moves, 1, v) = (IF v = ev.final THEN 1 ELSE 0) - (IF v = ev.init THEN 1 ELSE 0)
TrFlow == /\ IsEvent("casflow") /\ Consume /\ FlowBalanced(Ev) /\ UNCHANGED avars
TNext == TrEpoch \/ TrCall \/ DoLin \/ TrRet \/ TrMp \/ TrSb \/ TrRmw \/ TrFlow
TSpec == TInit /\ [][TNext]_tv
====
