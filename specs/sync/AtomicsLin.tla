---- MODULE AtomicsLin ----
(* Linearizability validator for p_atomic_* histories (harness/drv_atomic.c). Words are logged as *)
(* 16-bit limbs, least significant first (2 limbs for the int, 4 for the pointer-sized word).     *)
EXTENDS Atomics, VTrace
tv == <<avars, l>>
TInit == /\ val = [c \in Cells |-> <<>>] /\ pend = [t \in Threads |-> IdleP] /\ CursorInit
(* quiescent point: the harness logs both words; after a harness reset (or at the start of a file) they are
   adopted, otherwise they must equal the model's values *)
TrEpoch == /\ IsEvent("Epoch") /\ Consume /\ \A t \in Threads : pend[t].st = "idle"
           /\ IF l = 1 \/ val["i"] = <<>> \/ Ev.reset = 1 THEN val' = [c \in Cells |-> IF c = "i" THEN Ev.i ELSE Ev.p]
              ELSE val' = val /\ val["i"] = Ev.i /\ val["p"] = Ev.p
           /\ UNCHANGED pend
TrCall == /\ IsEvent("call") /\ Consume /\ ACallX(Ev.t, Ev.c, Ev.op, Ev.a, Ev.b, Ev.xres, Ev.xok)
(* pruning: the call event carries the call's own results (copied from its ret by the merger) *)
DoLin == \E t \in Threads : /\ pend[t].st = "called" /\ ALin(t)
                            /\ UNCHANGED l
TrRet == /\ IsEvent("ret") /\ Consume /\ ARet(Ev.t, Ev.res, Ev.ok)
(* message-passing litmus observation: the reader saw flag = 1, so it must see the data written before the flag *)
TrMp == /\ IsEvent("mp") /\ Consume /\ (Ev.flag = 1 => Ev.data = Ev.expect) /\ UNCHANGED avars
TNext == TrEpoch \/ TrCall \/ DoLin \/ TrRet \/ TrMp
TSpec == TInit /\ [][TNext]_tv
====
