---- MODULE AtomicsLin ----
(* Linearizability validator for p_atomic_* histories (harness/drv_atomic.c). Words are logged as *)
(* 16-bit limbs, least significant first (2 limbs for the int, 4 for the pointer-sized word).     *)
EXTENDS Atomics, VTrace
tv == <<avars, l>>
TInit == /\ val = [c \in Cells |-> <<>>] /\ pend = [t \in Threads |-> IdleP] /\ CursorInit
(* quiescent point: the harness logs both words; after a harness reset (or at the start of a file) they are
   adopted, otherwise they must equal the model's values *)
TrEpoch == /\ IsEvent("Epoch") /\ Consume /\ \A t \in Threads : pend[t].st = "idle"
           /\ IF l = 1 \/ val["i"] = <<>> \/ Ev.reset = 1 THEN val' = [c \in Cells |-> IF c = "i" THEN Ev.i ELSE Ev.p]
              ELSE val' = val /\ val["i"] = Ev.i /\ val["p"] = Ev.p
           /\ UNCHANGED pend
TrCall == /\ IsEvent("call") /\ Consume /\ ACallX(Ev.t, Ev.c, Ev.op, Ev.a, Ev.b, Ev.xres, Ev.xok)
(* pruning: the call event carries the call's own results (copied from its ret by the merger) *)
DoLin == \E t \in Threads : /\ pend[t].st = "called" /\ ALin(t)
                            /\ UNCHANGED l
TrRet == /\ IsEvent("ret") /\ Consume /\ ARet(Ev.t, Ev.res, Ev.ok)
(* message-passing litmus observation: the reader saw flag = 1, so it must see the data written before the flag *)
TrMp == /\ IsEvent("mp") /\ Consume /\ (Ev.flag = 1 => Ev.data = Ev.expect) /\ UNCHANGED avars
(* store-buffering litmus: thread 1 runs set(x,1); r1 = get(y), thread 2 runs set(y,1); r2 = get(x), both words 0 before, nothing
   between the two calls of a thread (no event numbers are taken inside a round, they would act as fences).  The outcomes the
   P-spec admits are those of the interleavings of the four indivisible steps that keep each thread's program order. *)
SBProg == << << [c |-> "x", op |-> "set", a |-> <<1>>], [c |-> "y", op |-> "get", a |-> <<>>] >>,
             << [c |-> "y", op |-> "set", a |-> <<1>>], [c |-> "x", op |-> "get", a |-> <<>>] >> >>
SBOrders == { <<1,1,2,2>>, <<1,2,1,2>>, <<1,2,2,1>>, <<2,1,1,2>>, <<2,1,2,1>>, <<2,2,1,1>> }
RECURSIVE SBRun(_, _, _, _, _)
SBRun(order, i, mem, pc, r) ==
  IF i > Len(order) THEN r
  ELSE LET t == order[i]  ins == SBProg[t][pc[t]]  e == Effect(mem[ins.c], ins.op, ins.a, <<>>) IN
       SBRun(order, i + 1, [mem EXCEPT ![ins.c] = e.nv], [pc EXCEPT ![t] = @ + 1], IF ins.op = "get" THEN [r EXCEPT ![t] = e.res[1]] ELSE r)
SBOutcomes == { SBRun(o, 1, [x |-> <<0>>, y |-> <<0>>], <<1, 1>>, <<-1, -1>>) : o \in SBOrders }
TrSb == /\ IsEvent("sb") /\ Consume /\ <<Ev.r1, Ev.r2>> \in SBOutcomes /\ UNCHANGED avars
TNext == TrEpoch \/ TrCall \/ DoLin \/ TrRet \/ TrMp \/ TrSb
TSpec == TInit /\ [][TNext]_tv
====
