SPECIFICATION FairSpec
CONSTANTS Threads = {1,2,3,4}
          Rounds = 2
PROPERTY Terminates
