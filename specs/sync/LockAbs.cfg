SPECIFICATION LSpec
CONSTANTS Threads = {1,2,3}
          Objs = {1}
          StrictTry = TRUE
INVARIANT Excl
