---- MODULE RWLockGeneral ----
(* I-spec of prwlock-general.c: one action per critical section (the code between p_mutex_lock and *)
(* the next p_mutex_unlock / p_cond_variable_wait), the two counters active/waiting split into     *)
(* reader and writer parts, two condition variables as sets of blocked threads. Signal chooses     *)
(* which waiter wakes; Spurious wakes any waiter. Each thread runs Rounds rounds of                *)
(* {rlock, rtry, wlock, wtry} followed by the matching unlock when the lock was obtained.          *)
(* Refines LockAbs (one object); additionally deadlock-free and terminating under weak fairness.   *)
EXTENDS Integers, Sequences, FiniteSets, TLC
CONSTANTS Threads, Rounds
VARIABLES activeR, activeW, waitR, waitW,   \* the four counters of the C code
          cvR, cvW,                         \* threads blocked in p_cond_variable_wait
          pc, rounds,                       \* per-thread control state, rounds left
          holdR, holdW,                     \* ghost: who holds (for the refinement mapping)
          apend                             \* ghost: abstract pend record
vars == <<activeR, activeW, waitR, waitW, cvR, cvW, pc, rounds, holdR, holdW, apend>>
IdleP == [st |-> "idle", op |-> "", o |-> 0, res |-> 0, x |-> -1]
Init == /\ activeR = 0 /\ activeW = 0 /\ waitR = 0 /\ waitW = 0 /\ cvR = {} /\ cvW = {}
        /\ pc = [t \in Threads |-> "idle"] /\ rounds = [t \in Threads |-> Rounds]
        /\ holdR = {} /\ holdW = 0 /\ apend = [t \in Threads |-> IdleP]
ACall(t, op) == apend' = [apend EXCEPT ![t] = [st |-> "called", op |-> op, o |-> 1, res |-> 0, x |-> -1]]
ADone(t, res) == apend' = [apend EXCEPT ![t].st = "done", ![t].res = res]
(* ---- API call begins: the thread now competes for the internal mutex ---- *)
Begin(t, op) == /\ pc[t] = "idle" /\ rounds[t] > 0
                /\ pc' = [pc EXCEPT ![t] = op] /\ ACall(t, op)
                /\ UNCHANGED <<activeR, activeW, waitR, waitW, cvR, cvW, rounds, holdR, holdW>>
BeginUnlock(t) == /\ pc[t] \in {"hold_r", "hold_w"}
                  /\ pc' = [pc EXCEPT ![t] = IF pc[t] = "hold_r" THEN "runlock" ELSE "wunlock"]
                  /\ ACall(t, IF pc[t] = "hold_r" THEN "runlock" ELSE "wunlock")
                  /\ UNCHANGED <<activeR, activeW, waitR, waitW, cvR, cvW, rounds, holdR, holdW>>
(* ---- reader lock ---- *)
RL_Enter(t) == /\ pc[t] = "rlock"
               /\ IF activeW > 0
                  THEN /\ waitR' = waitR + 1 /\ cvR' = cvR \cup {t} /\ pc' = [pc EXCEPT ![t] = "rl_wait"]
                       /\ UNCHANGED <<activeR, holdR, apend>>
                  ELSE /\ activeR' = activeR + 1 /\ holdR' = holdR \cup {t} /\ pc' = [pc EXCEPT ![t] = "ret_r"]
                       /\ ADone(t, 1) /\ UNCHANGED <<waitR, cvR>>
               /\ UNCHANGED <<activeW, waitW, cvW, rounds, holdW>>
RL_Recheck(t) == /\ pc[t] = "rl_wait" /\ t \notin cvR
                 /\ IF activeW > 0
                    THEN cvR' = cvR \cup {t} /\ UNCHANGED <<activeR, waitR, holdR, apend, pc>>
                    ELSE /\ waitR' = waitR - 1 /\ activeR' = activeR + 1 /\ holdR' = holdR \cup {t}
                         /\ pc' = [pc EXCEPT ![t] = "ret_r"] /\ ADone(t, 1) /\ UNCHANGED cvR
                 /\ UNCHANGED <<activeW, waitW, cvW, rounds, holdW>>
RL_Try(t) == /\ pc[t] = "rtry"
             /\ IF activeW > 0
                THEN pc' = [pc EXCEPT ![t] = "ret_fail"] /\ ADone(t, 0) /\ UNCHANGED <<activeR, holdR>>
                ELSE activeR' = activeR + 1 /\ holdR' = holdR \cup {t} /\ pc' = [pc EXCEPT ![t] = "ret_r"] /\ ADone(t, 1)
             /\ UNCHANGED <<activeW, waitR, waitW, cvR, cvW, rounds, holdW>>
(* ---- writer lock ---- *)
WL_Enter(t) == /\ pc[t] = "wlock"
               /\ IF activeR > 0 \/ activeW > 0
                  THEN /\ waitW' = waitW + 1 /\ cvW' = cvW \cup {t} /\ pc' = [pc EXCEPT ![t] = "wl_wait"]
                       /\ UNCHANGED <<activeW, holdW, apend>>
                  ELSE /\ activeW' = 1 /\ holdW' = t /\ pc' = [pc EXCEPT ![t] = "ret_w"]
                       /\ ADone(t, 1) /\ UNCHANGED <<waitW, cvW>>
               /\ UNCHANGED <<activeR, waitR, cvR, rounds, holdR>>
WL_Recheck(t) == /\ pc[t] = "wl_wait" /\ t \notin cvW
                 /\ IF activeR > 0 \/ activeW > 0
                    THEN cvW' = cvW \cup {t} /\ UNCHANGED <<activeW, waitW, holdW, apend, pc>>
                    ELSE /\ waitW' = waitW - 1 /\ activeW' = 1 /\ holdW' = t
                         /\ pc' = [pc EXCEPT ![t] = "ret_w"] /\ ADone(t, 1) /\ UNCHANGED cvW
                 /\ UNCHANGED <<activeR, waitR, cvR, rounds, holdR>>
WL_Try(t) == /\ pc[t] = "wtry"
             /\ IF activeR > 0 \/ activeW > 0
                THEN pc' = [pc EXCEPT ![t] = "ret_fail"] /\ ADone(t, 0) /\ UNCHANGED <<activeW, holdW>>
                ELSE activeW' = 1 /\ holdW' = t /\ pc' = [pc EXCEPT ![t] = "ret_w"] /\ ADone(t, 1)
             /\ UNCHANGED <<activeR, waitR, waitW, cvR, cvW, rounds, holdR>>
(* ---- unlocks: signal one writer (the choice of which is free), else broadcast readers ---- *)
RU(t) == /\ pc[t] = "runlock"
         /\ activeR' = activeR - 1 /\ holdR' = holdR \ {t}
         /\ IF activeR = 1 /\ waitW > 0 /\ cvW # {}
            THEN \E x \in cvW : cvW' = cvW \ {x}
            ELSE UNCHANGED cvW
         /\ pc' = [pc EXCEPT ![t] = "ret_u"] /\ ADone(t, 1)
         /\ UNCHANGED <<activeW, waitR, waitW, cvR, rounds, holdW>>
WU(t) == /\ pc[t] = "wunlock"
         /\ activeW' = 0 /\ holdW' = 0
         /\ IF waitW > 0
            THEN (IF cvW # {} THEN \E x \in cvW : cvW' = cvW \ {x} ELSE UNCHANGED cvW) /\ UNCHANGED cvR
            ELSE IF waitR > 0 THEN cvR' = {} /\ UNCHANGED cvW
            ELSE UNCHANGED <<cvR, cvW>>
         /\ pc' = [pc EXCEPT ![t] = "ret_u"] /\ ADone(t, 1)
         /\ UNCHANGED <<activeR, waitR, waitW, rounds, holdR>>
(* ---- the API call returns ---- *)
Return(t) == /\ pc[t] \in {"ret_r", "ret_w", "ret_fail", "ret_u"}
             /\ pc' = [pc EXCEPT ![t] = CASE pc[t] = "ret_r" -> "hold_r" [] pc[t] = "ret_w" -> "hold_w" [] OTHER -> "idle"]
             /\ rounds' = [rounds EXCEPT ![t] = IF pc[t] \in {"ret_fail", "ret_u"} THEN @ - 1 ELSE @]
             /\ apend' = [apend EXCEPT ![t] = IdleP]
             /\ UNCHANGED <<activeR, activeW, waitR, waitW, cvR, cvW, holdR, holdW>>
Spurious(t) == /\ t \in cvR \cup cvW
               /\ cvR' = cvR \ {t} /\ cvW' = cvW \ {t}
               /\ UNCHANGED <<activeR, activeW, waitR, waitW, pc, rounds, holdR, holdW, apend>>
Step(t) == \/ \E op \in {"rlock", "rtry", "wlock", "wtry"} : Begin(t, op)
           \/ BeginUnlock(t) \/ RL_Enter(t) \/ RL_Recheck(t) \/ RL_Try(t) \/ WL_Enter(t) \/ WL_Recheck(t) \/ WL_Try(t)
           \/ RU(t) \/ WU(t) \/ Return(t)
AllDone == \A t \in Threads : pc[t] = "idle" /\ rounds[t] = 0
Next == (\E t \in Threads : Step(t) \/ Spurious(t)) \/ (AllDone /\ UNCHANGED vars)
Spec == Init /\ [][Next]_vars
FairSpec == Spec /\ \A t \in Threads : WF_vars(Step(t))
(* ---- properties ---- *)
Counters == /\ activeR = Cardinality(holdR) /\ activeW = (IF holdW = 0 THEN 0 ELSE 1)
            /\ waitR = Cardinality({t \in Threads : pc[t] = "rl_wait"})
            /\ waitW = Cardinality({t \in Threads : pc[t] = "wl_wait"})
            /\ cvR \subseteq {t \in Threads : pc[t] = "rl_wait"} /\ cvW \subseteq {t \in Threads : pc[t] = "wl_wait"}
Exclusion == holdW # 0 => holdR = {}
Terminates == <>AllDone
(* refinement to the P-spec: w = holdW, r = holdR, pend = apend; the protected cell is not modelled here *)
Abs == INSTANCE LockAbs WITH Threads <- Threads, Objs <- {1}, StrictTry <- FALSE,
           w <- [o \in {1} |-> holdW], r <- [o \in {1} |-> holdR], cell <- [o \in {1} |-> 0], pend <- apend
Refines == Abs!LSpec
====
