SPECIFICATION TSpec
CONSTANTS Threads = {1,2,3,4,5,6,7,8,9,10,11,12,13,14,15,16,17}
CONSTRAINT HighWater
POSTCONDITION Accepted
INVARIANT TypeOK
CHECK_DEADLOCK FALSE
