---- MODULE LockLin ----
(* Linearizability validator for lock histories recorded from real threads (harness/drv_lock.c). *)
EXTENDS LockAbs, VTrace
tv == <<labs, l>>
TInit == LInit /\ CursorInit
TrCall == IsEvent("call") /\ Consume /\ Call(Ev.t, Ev.op, Ev.o, Ev.xres)
(* xres on the call event = the call's own result (copied from its ret by the merger): pruning only *)
DoLin == \E t \in Threads : pend[t].st = "called" /\ Lin(t) /\ UNCHANGED l
TrRet == IsEvent("ret") /\ Consume /\ Ret(Ev.t, Ev.res)
TrCs == /\ IsEvent("cs") /\ Consume
        /\ IF Ev.wr >= 0 THEN CsWrite(Ev.t, Ev.o, Ev.rd, Ev.wr) ELSE CsRead(Ev.t, Ev.o, Ev.rd)
(* quiescent barrier: nobody is in a call, nothing is held. The harness logs the real cell values:  *)
(* at the first line of a (chunked) file they are adopted, later they must equal the model's.       *)
CellsOf(ev) == [o \in Objs |-> IF \E i \in 1..Len(ev.cells) : ev.cells[i][1] = o
                               THEN ev.cells[CHOOSE i \in 1..Len(ev.cells) : ev.cells[i][1] = o][2] ELSE cell[o]]
TrEpoch == /\ IsEvent("Epoch") /\ Consume
           /\ \A t \in Threads : pend[t].st = "idle"
           /\ \A o \in Objs : w[o] = 0 /\ r[o] = {}
           /\ IF HasField(Ev, "cells")
              THEN (IF l = 1 THEN cell' = CellsOf(Ev) ELSE cell' = cell /\ CellsOf(Ev) = cell)
              ELSE cell' = cell
           /\ UNCHANGED <<w, r, pend>>
(* a "TryBlocked" event (the driver's watchdog: a trylock has not returned although the lock was held all the time) is explained by no action:
   trylock never blocks *)
TNext == TrCall \/ DoLin \/ TrRet \/ TrCs \/ TrEpoch
TSpec == TInit /\ [][TNext]_tv
====
