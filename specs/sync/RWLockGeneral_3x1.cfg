SPECIFICATION Spec
CONSTANTS Threads = {1,2,3}
          Rounds = 1
INVARIANTS Counters Exclusion
PROPERTY Refines
