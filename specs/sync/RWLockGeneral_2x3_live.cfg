SPECIFICATION FairSpec
CONSTANTS Threads = {1,2}
          Rounds = 3
PROPERTY Terminates
