SPECIFICATION CSpec
CONSTANTS Threads = {1,2,3}
INVARIANT TypeOK
PROPERTY WaitReturnsOwning
CHECK_DEADLOCK FALSE
