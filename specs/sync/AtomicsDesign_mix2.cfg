SPECIFICATION DSpec
CONSTANTS Threads = {1,2}
          Cells = {"i"}
          Base = 8
          Rounds = 2
          Split = FALSE
          Start = 3
          OpSet = {"add", "dec_and_test", "or", "cas"}
INVARIANTS TicketsDistinct OneZeroCrossing OrBitsKept
CHECK_DEADLOCK FALSE
