---- MODULE CondLin ----
(* Trace validator for PCondVariable / PMutex histories (harness/drv_cond.c), C03. *)
EXTENDS CondVar, VTrace
VARIABLE cell        \* ghost: the data protected by the mutex (bounded-buffer fill level, counters)
tv == <<cvars, cell, l>>
TInit == CInit /\ cell = 0 /\ CursorInit
TrCall == IsEvent("call") /\ Consume /\ Call(Ev.t, Ev.op) /\ UNCHANGED cell
DoLin == \E t \in Threads : Lin(t) /\ UNCHANGED <<l, cell>>
DoSpurious == \E t \in Threads : Spurious(t) /\ UNCHANGED <<l, cell>>
TrRet == IsEvent("ret") /\ Consume /\ pend[Ev.t].st = "done" /\ Ev.res = pend[Ev.t].res /\ Ret(Ev.t) /\ UNCHANGED cell
(* access to the protected data: only by the mutex owner, and it sees the previous owner's write *)
TrCs == /\ IsEvent("cs") /\ Consume /\ owner = Ev.t /\ pend[Ev.t].st = "idle" /\ Ev.rd = cell
        /\ cell' = Ev.wr /\ UNCHANGED cvars
(* watchdog expiry: the thread is still inside wait. Legal only if nobody had to wake it. *)
TrStuck == IsEvent("Stuck") /\ Consume /\ MayBeStuck(Ev.t) /\ UNCHANGED <<cvars, cell>>
(* trylock kept failing for seconds: legal only if somebody may legitimately hold the mutex - a thread whose only *)
(* claim to it is a wait call that has not released it yet does not count (wait releases the mutex as it blocks)    *)
TrTryStarved == /\ IsEvent("TryStarved") /\ Consume
                /\ \E u \in Threads : owner = u /\ ~(pend[u].st = "called" /\ pend[u].op = "wait")
                /\ UNCHANGED <<cvars, cell>>
TrEpoch == /\ IsEvent("Epoch") /\ Consume /\ \A t \in Threads : pend[t].st = "idle"
           /\ owner = 0 /\ waiting = {} /\ woken = {}
           /\ cell' = (IF HasField(Ev, "cell") THEN Ev.cell ELSE cell) /\ UNCHANGED cvars
TNext == TrCall \/ DoLin \/ DoSpurious \/ TrRet \/ TrCs \/ TrStuck \/ TrTryStarved \/ TrEpoch
TSpec == TInit /\ [][TNext]_tv
====
