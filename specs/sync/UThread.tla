---- MODULE UThread ----
(* P-spec of PUThread (C05): join / exit code, reference-counted handle, per-thread TLS with     *)
(* destroy notifiers. Handles h \in Handles; thread 0 is the creating (main) thread.            *)
EXTENDS Integers, Sequences, FiniteSets
CONSTANTS Handles, Keys
VARIABLES phase,     \* phase[h]: "none" | "created" | "started" | "exited"
          joinable,  \* joinable[h]
          refs,      \* refs[h]: references held by user code (creator's + explicit)
          ownref,    \* ownref[h]: the running thread's own reference not yet dropped
          freed,     \* freed[h]: handle memory released
          code,      \* code[h]: exit code (0 if the function returned)
          written,   \* written[h]: last value the thread wrote to its data cell
          keyfn,     \* keyfn[k]: 1 iff the TLS key was created with a destroy notifier, -1 = no such key
          tls,       \* tls[k][t]: value of key k in thread t (0 = NULL); t \in Handles \cup {0}
          due        \* set of <<k, v>> that must be handed to the notifier (exactly once)
uvars == <<phase, joinable, refs, ownref, freed, code, written, keyfn, tls, due>>
TIDs == Handles \cup {0}
UInit == /\ phase = [h \in Handles |-> "none"] /\ joinable = [h \in Handles |-> FALSE]
         /\ refs = [h \in Handles |-> 0] /\ ownref = [h \in Handles |-> FALSE] /\ freed = [h \in Handles |-> FALSE]
         /\ code = [h \in Handles |-> 0] /\ written = [h \in Handles |-> 0]
         /\ keyfn = [k \in Keys |-> -1] /\ tls = [k \in Keys |-> [t \in TIDs |-> 0]] /\ due = {}
Create(h, j) == /\ phase[h] = "none"
                /\ phase' = [phase EXCEPT ![h] = "created"] /\ joinable' = [joinable EXCEPT ![h] = j]
                /\ refs' = [refs EXCEPT ![h] = 1] /\ ownref' = [ownref EXCEPT ![h] = TRUE]
                /\ UNCHANGED <<freed, code, written, keyfn, tls, due>>
Start(h) == /\ phase[h] = "created" /\ phase' = [phase EXCEPT ![h] = "started"]
            /\ UNCHANGED <<joinable, refs, ownref, freed, code, written, keyfn, tls, due>>
Write(h, v) == /\ phase[h] = "started" /\ written' = [written EXCEPT ![h] = v]
               /\ UNCHANGED <<phase, joinable, refs, ownref, freed, code, keyfn, tls, due>>
(* thread finishes (p_uthread_exit(c) or function return, c = 0): every non-NULL TLS value of a key *)
(* with a notifier that the thread leaves behind becomes due                                        *)
Exit(h, c) == /\ phase[h] = "started"
              /\ phase' = [phase EXCEPT ![h] = "exited"] /\ code' = [code EXCEPT ![h] = c]
              /\ due' = due \cup {<<k, tls[k][h]>> : k \in {x \in Keys : keyfn[x] \in {1, 2} /\ tls[x][h] # 0}}
              /\ tls' = [k \in Keys |-> [tls[k] EXCEPT ![h] = 0]]
              /\ UNCHANGED <<joinable, refs, ownref, freed, written, keyfn>>
(* internal: the library drops the thread's own reference when the thread terminates *)
OwnRefDrop(h) == /\ phase[h] = "exited" /\ ownref[h] /\ ownref' = [ownref EXCEPT ![h] = FALSE]
                 /\ UNCHANGED <<phase, joinable, refs, freed, code, written, keyfn, tls, due>>
Ref(h) == /\ ~freed[h] /\ refs[h] > 0 /\ refs' = [refs EXCEPT ![h] = @ + 1]
          /\ UNCHANGED <<phase, joinable, ownref, freed, code, written, keyfn, tls, due>>
Unref(h) == /\ ~freed[h] /\ refs[h] > 0 /\ refs' = [refs EXCEPT ![h] = @ - 1]
            /\ UNCHANGED <<phase, joinable, ownref, freed, code, written, keyfn, tls, due>>
(* the handle is released exactly once, after the last reference is gone *)
Free(h) == /\ phase[h] # "none" /\ ~freed[h] /\ refs[h] = 0 /\ ~ownref[h]
           /\ freed' = [freed EXCEPT ![h] = TRUE]
           /\ UNCHANGED <<phase, joinable, refs, ownref, code, written, keyfn, tls, due>>
(* join returns only after the thread finished, with its code and with its writes visible *)
JoinRet(h, c, seen) == /\ ~freed[h] /\ refs[h] > 0
                       /\ IF joinable[h] THEN phase[h] = "exited" /\ c = code[h] /\ seen = written[h]
                          ELSE c = -1
                       /\ UNCHANGED uvars
KeyNew(k, f) == /\ keyfn[k] = -1 /\ keyfn' = [keyfn EXCEPT ![k] = f]
                /\ UNCHANGED <<phase, joinable, refs, ownref, freed, code, written, tls, due>>
(* p_uthread_local_free releases the reference to the key, not the key: no call goes through it any more, but a value a thread *)
(* left under it is still destroyed when that thread exits (2 = released key with notifier, 3 = released key without)         *)
KeyFree(k) == /\ keyfn[k] \in {0, 1} /\ keyfn' = [keyfn EXCEPT ![k] = IF @ = 1 THEN 2 ELSE 3]
              /\ UNCHANGED <<phase, joinable, refs, ownref, freed, code, written, tls, due>>
TSet(k, t, v) == /\ keyfn[k] \in {0, 1} /\ tls' = [tls EXCEPT ![k][t] = v]      \* old value is NOT destroyed
                 /\ UNCHANGED <<phase, joinable, refs, ownref, freed, code, written, keyfn, due>>
TReplBegin(k, t, v) == /\ keyfn[k] \in {0, 1}
                       /\ due' = IF keyfn[k] = 1 /\ tls[k][t] # 0 THEN due \cup {<<k, tls[k][t]>>} ELSE due
                       /\ tls' = [tls EXCEPT ![k][t] = v]
                       /\ UNCHANGED <<phase, joinable, refs, ownref, freed, code, written, keyfn>>
TGet(k, t, v) == keyfn[k] \in {0, 1} /\ v = tls[k][t] /\ UNCHANGED uvars
Destroy(k, v) == /\ <<k, v>> \in due /\ due' = due \ {<<k, v>>}
                 /\ UNCHANGED <<phase, joinable, refs, ownref, freed, code, written, keyfn, tls>>
Quiescent == /\ \A h \in Handles : phase[h] # "none" => (freed[h] /\ phase[h] = "exited")
             /\ due = {}
(* ---- design-level protocol: users only touch a handle while they hold a reference ---- *)
UNext == \/ \E h \in Handles, j \in BOOLEAN : Create(h, j)
         \/ \E h \in Handles : Start(h) \/ Exit(h, 7) \/ OwnRefDrop(h) \/ Ref(h) \/ Unref(h) \/ Free(h)
         \/ \E h \in Handles : JoinRet(h, IF joinable[h] THEN code[h] ELSE -1, written[h])
USpec == UInit /\ [][UNext]_uvars
FreeOnlyUnreferenced == \A h \in Handles : freed[h] => refs[h] = 0 /\ ~ownref[h] /\ phase[h] = "exited"
RefBound == \A h \in Handles : refs[h] <= 2
====
