---- MODULE Atomics ----
(* P-spec of p_atomic_* (C04): each shared word changes only through indivisible operations.     *)
(* Cells: "i" = the int word, "p" = the pointer-sized word (different widths in recorded traces). *)
(* A call is Call (logged) - Lin (internal, the indivisible effect) - Ret (logged).               *)
EXTENDS Words, FiniteSets, TLC
CONSTANTS Threads, Cells
VARIABLES val,    \* val[c]: current word of cell c
          pend    \* pend[t]: [st, c, op, a, b, res, ok]
avars == <<val, pend>>
IdleP == [st |-> "idle", c |-> "", op |-> "", a |-> <<>>, b |-> <<>>, res |-> <<>>, ok |-> -1, xr |-> <<-1>>, xo |-> -2]
Ops == {"get", "set", "inc", "dec_and_test", "cas", "add", "and", "or", "xor"}
(* xr / xo: results this call is known to have returned (trace validation: pruning only), <<-1>> / -2 = unknown *)
ACallX(t, c, op, a, b, xr, xo) ==
                         /\ pend[t].st = "idle"
                         /\ pend' = [pend EXCEPT ![t] = [st |-> "called", c |-> c, op |-> op, a |-> a, b |-> b, res |-> <<>>, ok |-> -1, xr |-> xr, xo |-> xo]]
                         /\ UNCHANGED val
ACall(t, c, op, a, b) == ACallX(t, c, op, a, b, <<-1>>, -2)
(* the indivisible effect: new value, returned word (<<>> for void), boolean result (-1 if none) *)
Effect(v, op, a, b) ==
  CASE op = "get" -> [nv |-> v, res |-> v, ok |-> -1]
    [] op = "set" -> [nv |-> a, res |-> <<>>, ok |-> -1]
    [] op = "inc" -> [nv |-> WAdd(v, WOne(Len(v))), res |-> <<>>, ok |-> -1]
    [] op = "dec_and_test" -> LET n == WAdd(v, WAllOnes(Len(v))) IN [nv |-> n, res |-> <<>>, ok |-> IF n = WZero(Len(v)) THEN 1 ELSE 0]
    [] op = "cas" -> IF v = a THEN [nv |-> b, res |-> <<>>, ok |-> 1] ELSE [nv |-> v, res |-> <<>>, ok |-> 0]
    [] op = "add" -> [nv |-> WAdd(v, a), res |-> v, ok |-> -1]
    [] op = "and" -> [nv |-> WAnd(v, a), res |-> v, ok |-> -1]
    [] op = "or" -> [nv |-> WOr(v, a), res |-> v, ok |-> -1]
    [] op = "xor" -> [nv |-> WXor(v, a), res |-> v, ok |-> -1]
ALin(t) == /\ pend[t].st = "called"
           /\ LET p == pend[t]  e == Effect(val[p.c], p.op, p.a, p.b) IN
              /\ (p.xr = <<-1>> \/ p.xr = e.res) /\ (p.xo = -2 \/ p.xo = e.ok)
              /\ val' = [val EXCEPT ![p.c] = e.nv]
              /\ pend' = [pend EXCEPT ![t].st = "done", ![t].res = e.res, ![t].ok = e.ok]
ARet(t, res, ok) == /\ pend[t].st = "done" /\ pend[t].res = res /\ pend[t].ok = ok
                    /\ pend' = [pend EXCEPT ![t] = IdleP] /\ UNCHANGED val
====
