SPECIFICATION Spec
CONSTANTS Threads = {1,2,3}
          Rounds = 2
INVARIANT OneOwner
PROPERTY Refines
