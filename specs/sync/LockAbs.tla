---- MODULE LockAbs ----
(* P-spec of every lock-like primitive of plibsys (C01 mutex / spinlock, C02 rwlock; re-used for *)
(* the shm lock of C07): per object one optional exclusive holder or a set of shared holders.    *)
(* A call is split into Call (logged), an internal linearization step, and Ret (logged); data     *)
(* protected by the lock is a ghost cell `cell' that critical sections read and write.            *)
EXTENDS Integers, Sequences, FiniteSets
CONSTANTS Threads, Objs, StrictTry     \* StrictTry: a failed exclusive trylock needs a held or contended lock (C01)
VARIABLES w,      \* w[o]: exclusive holder or 0
          r,      \* r[o]: set of shared holders
          cell,   \* cell[o]: value of the protected data
          pend    \* pend[t]: [st, op, o, res]
labs == <<w, r, cell, pend>>
IdleP == [st |-> "idle", op |-> "", o |-> 0, res |-> 0, x |-> -1]
LInit == w = [o \in Objs |-> 0] /\ r = [o \in Objs |-> {}] /\ cell = [o \in Objs |-> 0]
         /\ pend = [t \in Threads |-> IdleP]
AcqOps == {"wlock", "wtry", "rlock", "rtry"}
Holds(t, o) == w[o] = t \/ t \in r[o]
Contended(t, o) == \E u \in Threads \ {t} : pend[u].st = "called" /\ pend[u].o = o
(* x: the result this call is known to have returned (trace validation, pruning only) or -1 *)
Call(t, op, o, x) == /\ pend[t].st = "idle"
                  /\ pend' = [pend EXCEPT ![t] = [st |-> "called", op |-> op, o |-> o, res |-> 0, x |-> x]]
                  /\ UNCHANGED <<w, r, cell>>
Done(t, res) == pend[t].x \in {-1, res} /\ pend' = [pend EXCEPT ![t].st = "done", ![t].res = res]
LinWLock(t) == LET o == pend[t].o IN
               /\ pend[t].st = "called" /\ pend[t].op = "wlock"
               /\ w[o] = 0 /\ r[o] = {}
               /\ w' = [w EXCEPT ![o] = t] /\ Done(t, 1) /\ UNCHANGED <<r, cell>>
LinWTryT(t) == LET o == pend[t].o IN
               /\ pend[t].st = "called" /\ pend[t].op = "wtry"
               /\ w[o] = 0 /\ r[o] = {}
               /\ w' = [w EXCEPT ![o] = t] /\ Done(t, 1) /\ UNCHANGED <<r, cell>>
LinWTryF(t) == LET o == pend[t].o IN
               /\ pend[t].st = "called" /\ pend[t].op = "wtry"
               /\ StrictTry => (w[o] # 0 \/ r[o] # {} \/ Contended(t, o))
               /\ Done(t, 0) /\ UNCHANGED <<w, r, cell>>
LinRLock(t) == LET o == pend[t].o IN
               /\ pend[t].st = "called" /\ pend[t].op = "rlock"
               /\ w[o] = 0
               /\ r' = [r EXCEPT ![o] = @ \cup {t}] /\ Done(t, 1) /\ UNCHANGED <<w, cell>>
LinRTryT(t) == LET o == pend[t].o IN
               /\ pend[t].st = "called" /\ pend[t].op = "rtry"
               /\ w[o] = 0
               /\ r' = [r EXCEPT ![o] = @ \cup {t}] /\ Done(t, 1) /\ UNCHANGED <<w, cell>>
LinRTryF(t) == /\ pend[t].st = "called" /\ pend[t].op = "rtry"
               /\ Done(t, 0) /\ UNCHANGED <<w, r, cell>>
LinWUnlock(t) == LET o == pend[t].o IN
                 /\ pend[t].st = "called" /\ pend[t].op = "wunlock"
                 /\ w[o] = t
                 /\ w' = [w EXCEPT ![o] = 0] /\ Done(t, 1) /\ UNCHANGED <<r, cell>>
LinRUnlock(t) == LET o == pend[t].o IN
                 /\ pend[t].st = "called" /\ pend[t].op = "runlock"
                 /\ t \in r[o]
                 /\ r' = [r EXCEPT ![o] = @ \ {t}] /\ Done(t, 1) /\ UNCHANGED <<w, cell>>
Lin(t) == \/ LinWLock(t) \/ LinWTryT(t) \/ LinWTryF(t) \/ LinRLock(t) \/ LinRTryT(t) \/ LinRTryF(t)
          \/ LinWUnlock(t) \/ LinRUnlock(t)
Ret(t, res) == /\ pend[t].st = "done" /\ pend[t].res = res
               /\ pend' = [pend EXCEPT ![t] = IdleP] /\ UNCHANGED <<w, r, cell>>
(* critical-section access to the protected data: a read sees the last write; only an exclusive *)
(* holder may write                                                                              *)
CsRead(t, o, v) == Holds(t, o) /\ pend[t].st = "idle" /\ v = cell[o] /\ UNCHANGED labs
CsWrite(t, o, v, nv) == w[o] = t /\ pend[t].st = "idle" /\ v = cell[o]
                        /\ cell' = [cell EXCEPT ![o] = nv] /\ UNCHANGED <<w, r, pend>>
Excl == \A o \in Objs : (w[o] # 0 => r[o] = {})
(* design-level behaviour set (used as refinement target by the I-specs) *)
LNext == \/ \E t \in Threads, op \in AcqOps \cup {"wunlock", "runlock"}, o \in Objs : Call(t, op, o, -1)
         \/ \E t \in Threads : Lin(t)
         \/ \E t \in Threads, res \in {0, 1} : Ret(t, res)
LSpec == LInit /\ [][LNext]_labs
====
