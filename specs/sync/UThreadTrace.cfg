SPECIFICATION TSpec
CONSTANTS Handles = {1,2,3,4,5,6}
          Keys = {1,2,3}
CONSTRAINT HighWater
POSTCONDITION Accepted
INVARIANT FreeOnlyUnreferenced
CHECK_DEADLOCK FALSE
