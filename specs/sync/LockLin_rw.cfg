SPECIFICATION TSpec
CONSTANTS Threads = {1,2,3,4,5,6,7,8,9,10,11,12,13,14,15,16}
          Objs = {1,2,3}
          StrictTry = FALSE
CONSTRAINT HighWater
POSTCONDITION Accepted
INVARIANT Excl
CHECK_DEADLOCK FALSE
