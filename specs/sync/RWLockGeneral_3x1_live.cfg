SPECIFICATION FairSpec
CONSTANTS Threads = {1,2,3}
          Rounds = 1
PROPERTY Terminates
