SPECIFICATION Spec
CONSTANTS Threads = {1,2}
          Rounds = 3
INVARIANTS Counters Exclusion
PROPERTY Refines
