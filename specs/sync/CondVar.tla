---- MODULE CondVar ----
(* P-spec of PCondVariable + PMutex (C03). wait = release-and-block as ONE step (WaitBegin),     *)
(* and it returns only after re-acquiring the mutex (WaitReturn). A signal issued while threads  *)
(* wait moves one of them to `woken' (a real signal may wake more: that is Spurious), a          *)
(* broadcast moves all. Spurious wake-ups are allowed.                                           *)
EXTENDS Integers, Sequences, FiniteSets
CONSTANTS Threads
VARIABLES owner,     \* mutex owner or 0
          waiting,   \* blocked inside wait, mutex released
          woken,     \* woken, must re-acquire the mutex before wait returns
          pend       \* pend[t]: [st, op]   st: idle | called | blocked | done
cvars == <<owner, waiting, woken, pend>>
IdleP == [st |-> "idle", op |-> "", res |-> 1]
CInit == owner = 0 /\ waiting = {} /\ woken = {} /\ pend = [t \in Threads |-> IdleP]
Call(t, op) == /\ pend[t].st = "idle" /\ pend' = [pend EXCEPT ![t] = [st |-> "called", op |-> op, res |-> 1]]
               /\ UNCHANGED <<owner, waiting, woken>>
Done(t) == pend' = [pend EXCEPT ![t].st = "done"]
LinLock(t) == /\ pend[t].st = "called" /\ pend[t].op = "lock" /\ owner = 0
              /\ owner' = t /\ Done(t) /\ UNCHANGED <<waiting, woken>>
LinUnlock(t) == /\ pend[t].st = "called" /\ pend[t].op = "unlock" /\ owner = t
                /\ owner' = 0 /\ Done(t) /\ UNCHANGED <<waiting, woken>>
(* trylock: never blocks; succeeds on a free mutex unless another thread is acquiring it at the same time. In *)
(* particular it succeeds while every other thread is blocked inside wait - those threads have released it.  *)
LinTryT(t) == /\ pend[t].st = "called" /\ pend[t].op = "try" /\ owner = 0
              /\ owner' = t /\ Done(t) /\ UNCHANGED <<waiting, woken>>
Acquiring(u) == (pend[u].st = "called" /\ pend[u].op \in {"lock", "try"}) \/ (pend[u].st = "blocked" /\ u \in woken)
LinTryF(t) == /\ pend[t].st = "called" /\ pend[t].op = "try"
              /\ (owner # 0 \/ \E u \in Threads \ {t} : Acquiring(u))
              /\ pend' = [pend EXCEPT ![t].st = "done", ![t].res = 0] /\ UNCHANGED <<owner, waiting, woken>>
WaitBegin(t) == /\ pend[t].st = "called" /\ pend[t].op = "wait" /\ owner = t
                /\ owner' = 0 /\ waiting' = waiting \cup {t}
                /\ pend' = [pend EXCEPT ![t].st = "blocked"] /\ UNCHANGED woken
WaitReturn(t) == /\ pend[t].st = "blocked" /\ t \in woken /\ owner = 0
                 /\ owner' = t /\ woken' = woken \ {t} /\ Done(t) /\ UNCHANGED waiting
LinSignal(t) == /\ pend[t].st = "called" /\ pend[t].op = "signal"
                /\ IF waiting = {} THEN UNCHANGED <<waiting, woken>>
                   ELSE \E x \in waiting : waiting' = waiting \ {x} /\ woken' = woken \cup {x}
                /\ Done(t) /\ UNCHANGED owner
LinBroadcast(t) == /\ pend[t].st = "called" /\ pend[t].op = "broadcast"
                   /\ woken' = woken \cup waiting /\ waiting' = {}
                   /\ Done(t) /\ UNCHANGED owner
Spurious(t) == /\ t \in waiting /\ waiting' = waiting \ {t} /\ woken' = woken \cup {t}
               /\ UNCHANGED <<owner, pend>>
Ret(t) == /\ pend[t].st = "done" /\ pend' = [pend EXCEPT ![t] = IdleP] /\ UNCHANGED <<owner, waiting, woken>>
Lin(t) == LinLock(t) \/ LinTryT(t) \/ LinTryF(t) \/ LinUnlock(t) \/ WaitBegin(t) \/ WaitReturn(t) \/ LinSignal(t) \/ LinBroadcast(t)
(* a thread may legitimately still be blocked only while nobody had to wake it *)
MayBeStuck(t) == pend[t].st = "blocked" /\ t \in waiting
TypeOK == waiting \cap woken = {} /\ (owner # 0 => owner \notin waiting)
(* design-level behaviour set: arbitrary callers *)
CNext == \/ \E t \in Threads, op \in {"lock", "try", "unlock", "wait", "signal", "broadcast"} : Call(t, op)
         \/ \E t \in Threads : Lin(t) \/ Spurious(t) \/ Ret(t)
CSpec == CInit /\ [][CNext]_cvars
(* wait returns only with the mutex held by the caller *)
WaitReturnsOwning == [][\A t \in Threads : (pend[t].op = "wait" /\ pend[t].st = "blocked" /\ pend'[t].st = "done") => owner' = t]_cvars
====
