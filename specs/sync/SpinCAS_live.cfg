SPECIFICATION FairSpec
CONSTANTS Threads = {1,2,3}
          Rounds = 2
PROPERTY EventuallyFree
