---- MODULE AtomicsDesign ----
(* Design-level check of the Atomics P-spec on a tiny word (one limb of Base values): every       *)
(* interleaving of Threads x Rounds operations.  Split = TRUE replaces the indivisible Lin step    *)
(* of read-modify-write operations by a separate load and store (what a broken implementation     *)
(* would do): TLC must then find the lost update / double TRUE - this keeps the properties honest. *)
EXTENDS Atomics
CONSTANTS Rounds, Split, Start, OpSet
VARIABLES left, tmp, hist     \* rounds left per thread; loaded value of a split op; results so far
dvars == <<val, pend, left, tmp, hist>>
W1(x) == <<x>>
DInit == /\ val = [c \in Cells |-> W1(Start)] /\ pend = [t \in Threads |-> IdleP]
         /\ left = [t \in Threads |-> Rounds] /\ tmp = [t \in Threads |-> <<>>] /\ hist = <<>>
DCall(t) == /\ left[t] > 0
            /\ \E op \in OpSet :
                 ACall(t, "i", op, IF op = "or" THEN W1(2 ^ (t - 1)) ELSE W1(1), W1(0))
            /\ UNCHANGED <<left, tmp, hist>>
DLin(t) == ~Split /\ ALin(t) /\ UNCHANGED <<left, tmp, hist>>
DLoad(t) == /\ Split /\ pend[t].st = "called" /\ tmp[t] = <<>>
            /\ tmp' = [tmp EXCEPT ![t] = val[pend[t].c]] /\ UNCHANGED <<val, pend, left, hist>>
DStore(t) == /\ Split /\ pend[t].st = "called" /\ tmp[t] # <<>>
             /\ LET p == pend[t]  e == Effect(tmp[t], p.op, p.a, p.b) IN
                /\ val' = [val EXCEPT ![p.c] = e.nv]
                /\ pend' = [pend EXCEPT ![t].st = "done", ![t].res = e.res, ![t].ok = e.ok]
             /\ tmp' = [tmp EXCEPT ![t] = <<>>] /\ UNCHANGED <<left, hist>>
DRet(t) == /\ pend[t].st = "done"
           /\ hist' = Append(hist, [t |-> t, op |-> pend[t].op, res |-> pend[t].res, ok |-> pend[t].ok])
           /\ left' = [left EXCEPT ![t] = @ - 1]
           /\ pend' = [pend EXCEPT ![t] = IdleP] /\ UNCHANGED <<val, tmp>>
DNext == \E t \in Threads : DCall(t) \/ DLin(t) \/ DLoad(t) \/ DStore(t) \/ DRet(t)
DSpec == DInit /\ [][DNext]_dvars
(* exactly one decrement can report "reached zero" per crossing of zero; fetch-add tickets taken from *)
(* the same value are never handed out twice when nothing else changed the word in between: phrased  *)
(* for histories that consist of adds only / of dec_and_tests only                                   *)
OnlyOp(op) == OpSet = {op}
TicketsDistinct == (OnlyOp("add") /\ Len(hist) < Base) =>
                     \A i, j \in 1..Len(hist) : i # j => hist[i].res # hist[j].res
OneZeroCrossing == (OnlyOp("dec_and_test") /\ Len(hist) <= Start) =>
                     LET n == Cardinality({i \in 1..Len(hist) : hist[i].ok = 1}) IN
                     n <= 1 /\ (Len(hist) = Start => n = 1)
OrBitsKept == (OnlyOp("or") /\ \A t \in Threads : left[t] = 0 /\ pend[t].st = "idle") =>
                 \A t \in Threads : (val["i"][1] \div (2 ^ (t - 1))) % 2 = 1
====
