---- MODULE SpinCAS ----
(* I-spec of pspinlock-c11.c / pspinlock-sync.c: one int `spin'; lock = loop { CAS(0 -> 1) },      *)
(* trylock = one strong CAS, unlock = store 0. Every CAS / store is one atomic step.              *)
(* (pspinlock-sim.c delegates to PMutex, whose P-spec is LockAbs itself.)                         *)
(* Refines LockAbs with StrictTry: a trylock fails only while the lock is held.                   *)
EXTENDS Integers, Sequences, FiniteSets, TLC
CONSTANTS Threads, Rounds
VARIABLES spin, pc, rounds, holder, apend
vars == <<spin, pc, rounds, holder, apend>>
IdleP == [st |-> "idle", op |-> "", o |-> 0, res |-> 0, x |-> -1]
Init == spin = 0 /\ pc = [t \in Threads |-> "idle"] /\ rounds = [t \in Threads |-> Rounds] /\ holder = 0
        /\ apend = [t \in Threads |-> IdleP]
ACall(t, op) == apend' = [apend EXCEPT ![t] = [st |-> "called", op |-> op, o |-> 1, res |-> 0, x |-> -1]]
ADone(t, res) == apend' = [apend EXCEPT ![t].st = "done", ![t].res = res]
Begin(t, op) == /\ pc[t] = "idle" /\ rounds[t] > 0 /\ pc' = [pc EXCEPT ![t] = op] /\ ACall(t, op)
                /\ UNCHANGED <<spin, rounds, holder>>
BeginUnlock(t) == /\ pc[t] = "hold" /\ pc' = [pc EXCEPT ![t] = "wunlock"] /\ ACall(t, "wunlock")
                  /\ UNCHANGED <<spin, rounds, holder>>
(* one iteration of the lock loop: the CAS succeeds iff spin = 0, otherwise the loop repeats *)
LockCAS(t) == /\ pc[t] = "wlock"
              /\ IF spin = 0 THEN spin' = 1 /\ holder' = t /\ pc' = [pc EXCEPT ![t] = "ret_ok"] /\ ADone(t, 1)
                 ELSE UNCHANGED <<spin, holder, pc, apend>>
              /\ UNCHANGED rounds
TryCAS(t) == /\ pc[t] = "wtry"
             /\ IF spin = 0 THEN spin' = 1 /\ holder' = t /\ pc' = [pc EXCEPT ![t] = "ret_ok"] /\ ADone(t, 1)
                ELSE pc' = [pc EXCEPT ![t] = "ret_fail"] /\ ADone(t, 0) /\ UNCHANGED <<spin, holder>>
             /\ UNCHANGED rounds
Store0(t) == /\ pc[t] = "wunlock" /\ spin' = 0 /\ holder' = 0 /\ pc' = [pc EXCEPT ![t] = "ret_u"] /\ ADone(t, 1)
             /\ UNCHANGED rounds
Return(t) == /\ pc[t] \in {"ret_ok", "ret_fail", "ret_u"}
             /\ pc' = [pc EXCEPT ![t] = IF pc[t] = "ret_ok" THEN "hold" ELSE "idle"]
             /\ rounds' = [rounds EXCEPT ![t] = IF pc[t] = "ret_ok" THEN @ ELSE @ - 1]
             /\ apend' = [apend EXCEPT ![t] = IdleP] /\ UNCHANGED <<spin, holder>>
Step(t) == (\E op \in {"wlock", "wtry"} : Begin(t, op)) \/ BeginUnlock(t) \/ LockCAS(t) \/ TryCAS(t) \/ Store0(t) \/ Return(t)
AllDone == \A t \in Threads : pc[t] = "idle" /\ rounds[t] = 0
Next == (\E t \in Threads : Step(t)) \/ (AllDone /\ UNCHANGED vars)
Spec == Init /\ [][Next]_vars
FairSpec == Spec /\ \A t \in Threads : WF_vars(Step(t))
OneOwner == (spin = 1) = (holder # 0)
(* a spinning thread can be overtaken forever under weak fairness (no queueing), so termination of *)
(* all rounds needs strong fairness of the successful CAS; what weak fairness does give: the lock *)
(* is always eventually free again                                                                *)
EventuallyFree == []<>(spin = 0)
Abs == INSTANCE LockAbs WITH Threads <- Threads, Objs <- {1}, StrictTry <- TRUE,
           w <- [o \in {1} |-> holder], r <- [o \in {1} |-> {}], cell <- [o \in {1} |-> 0], pend <- apend
Refines == Abs!LSpec
====
