---- MODULE BoundedBuffer ----
(* Client layer of C03: producers and consumers around a bounded buffer, each re-checking its     *)
(* predicate in a loop under the mutex, written over the CondVar semantics (one cond variable,    *)
(* broadcast on every change). Atomic = FALSE splits release-and-block into two steps (what a     *)
(* broken p_cond_variable_wait would do): TLC then finds the lost wake-up, which keeps the        *)
(* liveness property honest.                                                                     *)
EXTENDS Integers, Sequences, FiniteSets, TLC
CONSTANTS Producers, Consumers, Items, Cap, Atomic, UseSignal
VARIABLES owner, waiting, woken, pc, buf, produced, consumed
vars == <<owner, waiting, woken, pc, buf, produced, consumed>>
Threads == Producers \cup Consumers
Quota(t) == IF t \in Producers THEN Items * Cardinality(Consumers) ELSE Items * Cardinality(Producers)
Init == owner = 0 /\ waiting = {} /\ woken = {} /\ pc = [t \in Threads |-> "lock"] /\ buf = 0
        /\ produced = [t \in Producers |-> 0] /\ consumed = [t \in Consumers |-> 0]
Count(t) == IF t \in Producers THEN produced[t] ELSE consumed[t]
CanGo(t) == IF t \in Producers THEN buf < Cap ELSE buf > 0
Lock(t) == pc[t] = "lock" /\ owner = 0 /\ owner' = t /\ pc' = [pc EXCEPT ![t] = "check"] /\ UNCHANGED <<waiting, woken, buf, produced, consumed>>
Check(t) == /\ pc[t] = "check" /\ owner = t
            /\ IF CanGo(t)
               THEN /\ buf' = IF t \in Producers THEN buf + 1 ELSE buf - 1
                    /\ produced' = IF t \in Producers THEN [produced EXCEPT ![t] = @ + 1] ELSE produced
                    /\ consumed' = IF t \in Consumers THEN [consumed EXCEPT ![t] = @ + 1] ELSE consumed
                    /\ pc' = [pc EXCEPT ![t] = "notify"] /\ UNCHANGED <<owner, waiting, woken>>
               ELSE IF Atomic
                    THEN owner' = 0 /\ waiting' = waiting \cup {t} /\ pc' = [pc EXCEPT ![t] = "blocked"] /\ UNCHANGED <<woken, buf, produced, consumed>>
                    ELSE owner' = 0 /\ pc' = [pc EXCEPT ![t] = "released"] /\ UNCHANGED <<waiting, woken, buf, produced, consumed>>
Block(t) == pc[t] = "released" /\ waiting' = waiting \cup {t} /\ pc' = [pc EXCEPT ![t] = "blocked"] /\ UNCHANGED <<owner, woken, buf, produced, consumed>>
Notify(t) == /\ pc[t] = "notify" /\ owner = t
             /\ IF UseSignal /\ waiting # {} THEN \E x \in waiting : waiting' = waiting \ {x} /\ woken' = woken \cup {x}
                ELSE IF UseSignal THEN UNCHANGED <<waiting, woken>>
                ELSE woken' = woken \cup waiting /\ waiting' = {}
             /\ pc' = [pc EXCEPT ![t] = "unlock"] /\ UNCHANGED <<owner, buf, produced, consumed>>
Unlock(t) == /\ pc[t] = "unlock" /\ owner = t /\ owner' = 0
             /\ pc' = [pc EXCEPT ![t] = IF Count(t) >= Quota(t) THEN "done" ELSE "lock"]
             /\ UNCHANGED <<waiting, woken, buf, produced, consumed>>
Wake(t) == /\ pc[t] = "blocked" /\ t \in woken /\ owner = 0
           /\ owner' = t /\ woken' = woken \ {t} /\ pc' = [pc EXCEPT ![t] = "check"] /\ UNCHANGED <<waiting, buf, produced, consumed>>
SpuriousW(t) == t \in waiting /\ waiting' = waiting \ {t} /\ woken' = woken \cup {t} /\ UNCHANGED <<owner, pc, buf, produced, consumed>>
Step(t) == Lock(t) \/ Check(t) \/ Block(t) \/ Notify(t) \/ Unlock(t) \/ Wake(t)
AllDone == \A t \in Threads : pc[t] = "done"
Next == (\E t \in Threads : Step(t) \/ SpuriousW(t)) \/ (AllDone /\ UNCHANGED vars)
Spec == Init /\ [][Next]_vars
(* mutex acquisition is only intermittently enabled: it needs strong fairness (no starvation by the OS mutex) *)
FairSpec == Spec /\ \A t \in Threads : WF_vars(Step(t)) /\ SF_vars(Lock(t)) /\ SF_vars(Wake(t))
BufOK == buf \in 0..Cap
Completes == <>AllDone
====
