SPECIFICATION USpec
CONSTANTS Handles = {1,2}
          Keys = {1}
INVARIANT FreeOnlyUnreferenced
CONSTRAINT RefBound
CHECK_DEADLOCK FALSE
