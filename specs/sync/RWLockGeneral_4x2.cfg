SPECIFICATION Spec
CONSTANTS Threads = {1,2,3,4}
          Rounds = 2
INVARIANTS Counters Exclusion
PROPERTY Refines
