---- MODULE UThreadTrace ----
(* Trace validator for PUThread histories recorded by harness/drv_thread.c (C05). *)
EXTENDS UThread, VTrace
tv == <<uvars, l>>
TInit == UInit /\ CursorInit
TrCreate == IsEvent("create") /\ Consume /\ Create(Ev.h, Ev.j = 1)
TrStart == IsEvent("start") /\ Consume /\ Start(Ev.h) /\ Ev.curok = 1
TrWrite == IsEvent("twrite") /\ Consume /\ Write(Ev.h, Ev.v)
TrExit == IsEvent("exit") /\ Consume /\ Exit(Ev.h, Ev.code)
DoOwnRefDrop == \E h \in Handles : OwnRefDrop(h) /\ UNCHANGED l
TrRef == IsEvent("ref") /\ Consume /\ Ref(Ev.h)
TrUnref == IsEvent("unref") /\ Consume /\ Unref(Ev.h)
TrFree == IsEvent("hfree") /\ Consume /\ Free(Ev.h)
TrJoinCall == IsEvent("joincall") /\ Consume /\ ~freed[Ev.h] /\ refs[Ev.h] > 0 /\ UNCHANGED uvars
TrJoin == IsEvent("joinret") /\ Consume /\ JoinRet(Ev.h, Ev.code, Ev.seen)
TrKeyNew == IsEvent("keynew") /\ Consume /\ KeyNew(Ev.k, Ev.f)
TrKeyFree == IsEvent("keyfree") /\ Consume /\ KeyFree(Ev.k)
TrTSet == IsEvent("tset") /\ Consume /\ TSet(Ev.k, Ev.t, Ev.v)
TrTReplB == IsEvent("trepl_b") /\ Consume /\ TReplBegin(Ev.k, Ev.t, Ev.v)
(* the replaced value must have been destroyed inside the call *)
TrTReplE == IsEvent("trepl_e") /\ Consume /\ (\A p \in due : p[1] # Ev.k \/ p[2] # Ev.old) /\ UNCHANGED uvars
TrTGet == IsEvent("tget") /\ Consume /\ TGet(Ev.k, Ev.t, Ev.v)
TrDestroy == IsEvent("tdestroy") /\ Consume /\ Destroy(Ev.k, Ev.v)
(* end of a scenario: everything created has finished and been released, every due value destroyed *)
TrEpoch == /\ IsEvent("Epoch") /\ Consume /\ Quiescent
           /\ phase' = [h \in Handles |-> "none"] /\ joinable' = [h \in Handles |-> FALSE]
           /\ refs' = [h \in Handles |-> 0] /\ ownref' = [h \in Handles |-> FALSE] /\ freed' = [h \in Handles |-> FALSE]
           /\ code' = [h \in Handles |-> 0] /\ written' = [h \in Handles |-> 0]
           /\ keyfn' = [k \in Keys |-> -1] /\ tls' = [k \in Keys |-> [t \in TIDs |-> 0]] /\ due' = {}
TNext == TrCreate \/ TrStart \/ TrWrite \/ TrExit \/ DoOwnRefDrop \/ TrRef \/ TrUnref \/ TrFree \/ TrJoinCall \/ TrJoin
         \/ TrKeyNew \/ TrKeyFree \/ TrTSet \/ TrTReplB \/ TrTReplE \/ TrTGet \/ TrDestroy \/ TrEpoch
TSpec == TInit /\ [][TNext]_tv
====
