SPECIFICATION FairSpec
CONSTANTS Producers = {1,2}
          Consumers = {3,4}
          Items = 1
          Cap = 1
          Atomic = FALSE
          UseSignal = FALSE
INVARIANT BufOK
PROPERTY Completes
