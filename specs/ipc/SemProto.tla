---- MODULE SemProto ----
(* I-spec of psemaphore-posix.c over a model of the kernel's named-semaphore namespace: one action *)
(* per system call (sem_open exclusive / plain, sem_unlink, sem_wait, sem_post, sem_close), local   *)
(* handle fields (sem_created, init_val, mode), SIGKILL of a process at any point.                  *)
(* Legacy = TRUE models the code before the fix 'CREATE on an existing name' (unlink, then a plain   *)
(* open without O_CREAT); TLC shows that it does not refine SemAbs. Legacy = FALSE is the repaired   *)
(* code: unlink, then try the exclusive creation again.                                             *)
EXTENDS Integers, Sequences, FiniteSets, TLC
CONSTANTS Names, Hids, Split, Legacy, Inits, MaxObj, MaxVal
ProcOf == [h \in Hids |-> IF h <= Split THEN 1 ELSE 2]     \* handles 1..Split belong to process 1, the rest to process 2
VARIABLES kname,   \* kernel: name -> semaphore id (0 = no such name)
          ksem,    \* kernel: id -> value (sequence); objects live on while descriptors are open
          hp,      \* hp[h]: [pc, n, create, init, sem, created]
          apend    \* acquire in flight: "idle" | "called" | "done"
vars == <<kname, ksem, hp, apend>>
NoH == [pc |-> "none", n |-> 0, create |-> FALSE, init |-> 0, sem |-> 0, created |-> FALSE, tries |-> 0]
Init == kname = [n \in Names |-> 0] /\ ksem = <<>> /\ hp = [h \in Hids |-> NoH] /\ apend = [h \in Hids |-> "idle"]
NewCall(h, n, init, create) ==
    /\ hp[h].pc = "none"
    /\ hp' = [hp EXCEPT ![h] = [pc |-> "excl", n |-> n, create |-> create, init |-> init, sem |-> 0, created |-> FALSE, tries |-> 0]]
    /\ UNCHANGED <<kname, ksem, apend>>
(* sem_open (key, O_CREAT | O_EXCL, 0660, init_val) *)
OpenExcl(h) == LET n == hp[h].n IN
    /\ hp[h].pc = "excl"
    /\ IF kname[n] = 0
       THEN /\ ksem' = Append(ksem, hp[h].init) /\ kname' = [kname EXCEPT ![n] = Len(ksem) + 1]
            /\ hp' = [hp EXCEPT ![h].sem = Len(ksem) + 1, ![h].created = TRUE, ![h].pc = "ret_ok"]
       ELSE /\ hp' = [hp EXCEPT ![h].pc = IF hp[h].create THEN "unlink" ELSE "plain", ![h].tries = @ + 1]
            /\ UNCHANGED <<kname, ksem>>
    /\ UNCHANGED apend
(* sem_unlink (key) in CREATE mode: removes the name whoever created it; ENOENT is ignored *)
Unlink(h) == /\ hp[h].pc = "unlink"
             /\ kname' = [kname EXCEPT ![hp[h].n] = 0]
             /\ hp' = [hp EXCEPT ![h].pc = IF Legacy THEN "plain" ELSE "excl"]
             /\ UNCHANGED <<ksem, apend>>
(* sem_open (key, 0, 0, 0): attach to the existing object *)
OpenPlain(h) == LET n == hp[h].n IN
    /\ hp[h].pc = "plain"
    /\ IF kname[n] # 0 THEN hp' = [hp EXCEPT ![h].sem = kname[n], ![h].pc = "ret_ok"]
       ELSE hp' = [hp EXCEPT ![h].pc = "ret_fail"]
    /\ UNCHANGED <<kname, ksem, apend>>
NewRet(h) == /\ hp[h].pc \in {"ret_ok", "ret_fail"}
             /\ hp' = [hp EXCEPT ![h] = IF hp[h].pc = "ret_ok" THEN [hp[h] EXCEPT !.pc = "open"] ELSE NoH]
             /\ UNCHANGED <<kname, ksem, apend>>
AcqCall(h) == hp[h].pc = "open" /\ apend[h] = "idle" /\ apend' = [apend EXCEPT ![h] = "called"] /\ UNCHANGED <<kname, ksem, hp>>
(* sem_wait: returns 0 after taking a unit; EINTR is retried (stuttering) *)
Wait(h) == /\ apend[h] = "called" /\ ksem[hp[h].sem] > 0
           /\ ksem' = [ksem EXCEPT ![hp[h].sem] = @ - 1] /\ apend' = [apend EXCEPT ![h] = "done"] /\ UNCHANGED <<kname, hp>>
AcqRet(h) == apend[h] = "done" /\ apend' = [apend EXCEPT ![h] = "idle"] /\ UNCHANGED <<kname, ksem, hp>>
Post(h) == hp[h].pc = "open" /\ ksem' = [ksem EXCEPT ![hp[h].sem] = @ + 1] /\ UNCHANGED <<kname, hp, apend>>
TakeOwn(h) == hp[h].pc = "open" /\ hp' = [hp EXCEPT ![h].created = TRUE] /\ UNCHANGED <<kname, ksem, apend>>
(* p_semaphore_free: sem_close, then sem_unlink if owner *)
Close(h) == /\ hp[h].pc = "open" /\ apend[h] = "idle"
            /\ hp' = [hp EXCEPT ![h] = IF hp[h].created THEN [hp[h] EXCEPT !.pc = "free_unlink"] ELSE NoH]
            /\ UNCHANGED <<kname, ksem, apend>>
FreeUnlink(h) == /\ hp[h].pc = "free_unlink"
                 /\ kname' = [kname EXCEPT ![hp[h].n] = 0] /\ hp' = [hp EXCEPT ![h] = NoH] /\ UNCHANGED <<ksem, apend>>
Crash(p) == /\ \E h \in Hids : ProcOf[h] = p /\ hp[h].pc # "none"
            /\ hp' = [h \in Hids |-> IF ProcOf[h] = p THEN NoH ELSE hp[h]]
            /\ apend' = [h \in Hids |-> IF ProcOf[h] = p THEN "idle" ELSE apend[h]]
            /\ UNCHANGED <<kname, ksem>>
Procs == {ProcOf[h] : h \in Hids}
DoNewCall == \E h \in Hids, n \in Names, i \in Inits, c \in BOOLEAN : NewCall(h, n, i, c)
Next == \/ DoNewCall
        \/ \E h \in Hids : OpenExcl(h) \/ Unlink(h) \/ OpenPlain(h) \/ NewRet(h) \/ AcqCall(h) \/ Wait(h) \/ AcqRet(h)
                           \/ Post(h) \/ TakeOwn(h) \/ Close(h) \/ FreeUnlink(h)
        \/ \E p \in Procs : Crash(p)
Spec == Init /\ [][Next]_vars
Bound == Len(ksem) <= MaxObj /\ \A i \in 1..Len(ksem) : ksem[i] <= MaxVal
(* ---- refinement mapping to SemAbs ---- *)
Attached(h) == hp[h].sem # 0 /\ hp[h].pc \in {"ret_ok", "open", "free_unlink"}
AbsHd == [h \in Hids |-> IF Attached(h) THEN [g |-> hp[h].sem, n |-> hp[h].n, own |-> hp[h].created]
                         ELSE [g |-> 0, n |-> 0, own |-> FALSE]]
AbsCreating == [h \in Hids |-> IF (hp[h].create /\ hp[h].pc \in {"excl", "unlink"}) \/ (Legacy /\ hp[h].create /\ hp[h].pc \in {"plain", "ret_fail"})
                               THEN [n |-> hp[h].n, init |-> hp[h].init] ELSE [n |-> 0, init |-> 0]]
Abs == INSTANCE SemAbs WITH gen <- kname, val <- ksem, hd <- AbsHd, apend <- apend, creating <- AbsCreating
Refines == Abs!SSpec
(* witnesses: negated reachability queries; TLC's counterexample is the shortest schedule that gets there and is   *)
(* replayed on the real processes                                                                               *)
W_CreateRacesCreate == \A h \in Hids : hp[h].tries < 2            \* a CREATE-mode open finds the name taken again after removing it
W_OpenLosesName == \A h \in Hids : hp[h].pc # "ret_fail"          \* an OPEN-mode open whose name vanished between its two system calls
W_OwnerKilledBetweenCloseAndUnlink == \A h \in Hids : ~(hp[h].pc = "free_unlink" /\ kname[hp[h].n] # 0 /\ \E k \in Hids : k # h /\ hp[k].pc = "open")
(* a CREATE-mode open never reports failure *)
CreateNeverFails == \A h \in Hids : hp[h].pc = "ret_fail" => ~hp[h].create
====
