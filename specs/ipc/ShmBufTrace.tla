---- MODULE ShmBufTrace ----
(* Trace validator for sequential multi-handle PShmBuffer histories (harness/drv_shmbuf.c). *)
EXTENDS ShmBufAbs, VTrace
VARIABLES exists, nh      \* a buffer of the current name exists; number of open handles
tvars == <<avars, exists, nh, l>>
TInit == AInit /\ exists = FALSE /\ nh = 0 /\ CursorInit
TrNewCreate == /\ IsEvent("bnew") /\ Consume /\ ~exists
               /\ Ev.ok = 1 /\ Ev.size > 0
               /\ cap' = Ev.size /\ q' = <<>> /\ res' = 0 /\ out' = <<>> /\ exists' = TRUE /\ nh' = 1
TrNewOpen == /\ IsEvent("bnew") /\ Consume /\ exists          \* the size argument is ignored
             /\ Ev.ok = 1
             /\ nh' = nh + 1 /\ UNCHANGED <<avars, exists>>
TrWrite == /\ IsEvent("bw") /\ Consume /\ exists
           /\ AWrite(Ev.data) /\ res' = Ev.res /\ Ev.tail = 1
           /\ UNCHANGED <<exists, nh>>
(* a write whose length cannot fit whatever the queue holds (top of the psize range): appends nothing, returns 0 *)
TrWriteHuge == /\ IsEvent("bwhuge") /\ Consume /\ exists /\ Ev.res = 0 /\ Ev.tail = 1 /\ res' = 0 /\ UNCHANGED <<cap, q, out, exists, nh>>
TrRead == /\ IsEvent("br") /\ Consume /\ exists
          /\ ARead(Ev.len) /\ res' = Ev.res /\ out' = Ev.data /\ Ev.clean = 1 /\ Ev.tail = 1
          /\ UNCHANGED <<exists, nh>>
TrClear == IsEvent("bclr") /\ Consume /\ exists /\ AClear /\ Ev.tail = 1 /\ UNCHANGED <<exists, nh>>
TrSpace == /\ IsEvent("bsp") /\ Consume /\ exists
           /\ Ev.used = Used /\ Ev.free = Free /\ Ev.tail = 1
           /\ UNCHANGED <<avars, exists, nh>>
TrFree == /\ IsEvent("bfree") /\ Consume /\ exists
          /\ nh' = nh - 1 /\ exists' = (nh > 1) /\ (Ev.last = 1) = (nh = 1)
          /\ UNCHANGED avars
TrReset == /\ IsEvent("Reset") /\ Consume
           /\ cap' = CapC /\ q' = <<>> /\ res' = 0 /\ out' = <<>> /\ exists' = FALSE /\ nh' = 0
TNext == TrNewCreate \/ TrNewOpen \/ TrWrite \/ TrWriteHuge \/ TrRead \/ TrClear \/ TrSpace \/ TrFree \/ TrReset
TSpec == TInit /\ [][TNext]_tvars
====
