---- MODULE ShmTrace ----
(* Trace validator for PShm histories recorded by harness/drv_ipc.c (C07). *)
EXTENDS ShmAbs, VTrace
VARIABLE op        \* op[h]: call in flight: [st, name, a, b]
tv == <<mvars, op, l>>
NoOp == [st |-> "idle", name |-> "", a |-> 0, b |-> 0, inj |-> 0]
TInit == MInit /\ op = [h \in Hids |-> NoOp] /\ CursorInit
ProcHids(p) == {h \in Hids : h \div 10 = p}
TrCall == /\ IsEvent("call") /\ Consume /\ op[Ev.h].st = "idle"
          /\ op' = [op EXCEPT ![Ev.h] = [st |-> "called", name |-> Ev.op, a |-> Ev.a, b |-> Ev.b, inj |-> IF HasField(Ev, "inj") THEN Ev.inj ELSE 0]]
          /\ IF Ev.op = "shmlock" THEN MLockCall(Ev.h) ELSE UNCHANGED mvars
LinStep(h) ==
  /\ op[h].st = "called"
  /\ CASE op[h].name = "shmnew" -> \E r \in {op[h].b, (IF gen[op[h].a] # 0 THEN seg[gen[op[h].a]].size ELSE op[h].b)} :
                                       MNew(h, op[h].a, op[h].b, r) /\ op' = [op EXCEPT ![h].st = "done", ![h].b = r]
       [] op[h].name = "shmw" -> MWrite(h, op[h].a, op[h].b) /\ op' = [op EXCEPT ![h].st = "done"]
       [] op[h].name = "shmr" -> UNCHANGED mvars /\ hd[h].g # 0 /\ op' = [op EXCEPT ![h].st = "done", ![h].b = CellOf(hd[h].g, op[h].a)]
       [] op[h].name = "shmsize" -> UNCHANGED mvars /\ hd[h].g # 0 /\ op' = [op EXCEPT ![h].st = "done", ![h].b = hd[h].rsize]
       [] op[h].name = "shmlock" -> MLockLin(h) /\ op' = [op EXCEPT ![h].st = "done"]
       [] op[h].name = "shmunlock" -> MUnlock(h) /\ op' = [op EXCEPT ![h].st = "done"]
       [] op[h].name = "shmown" -> MOwn(h) /\ op' = [op EXCEPT ![h].st = "done"]
       [] op[h].name = "shmfree" -> /\ MFree(h)
                                    (* an owner's free that removes a name while another p_shm_new on that name is in flight: that call is *)
                                    (* neither "while the segment exists" nor "the next one afterwards" - it is marked (inj = 2), see LinRaceFail *)
                                    /\ op' = [k \in Hids |-> IF k = h THEN [op[h] EXCEPT !.st = "done"]
                                                              ELSE IF op[k].st = "called" /\ op[k].name = "shmnew" /\ gen[op[k].a] # 0 /\ gen'[op[k].a] = 0
                                                                   THEN [op[k] EXCEPT !.inj = 2] ELSE op[k]]
       [] OTHER -> FALSE
(* a p_shm_new that cannot create the segment (zero size, or a size the system refuses) fails and changes nothing: *)
(* in particular it leaves no name behind                                                                      *)
Unsatisfiable(size) == size = 0 \/ size > 1000000000
LinNewFail(h) == /\ op[h].st = "called" /\ op[h].name = "shmnew" /\ gen[op[h].a] = 0 /\ Unsatisfiable(op[h].b)
                 /\ op' = [op EXCEPT ![h].st = "failed"] /\ UNCHANGED mvars
(* the environment refused a resource inside the call (a system call was made to fail by the harness): the call may fail - and then it has
   changed nothing, whatever existed before is still there *)
LinInjFail(h) == /\ op[h].st = "called" /\ op[h].name = "shmnew" /\ op[h].inj = 1
                 /\ op' = [op EXCEPT ![h].st = "failed"] /\ UNCHANGED mvars
(* a p_shm_new that was in flight when an owner's free removed the name may find the name gone half-way and fail; it has then changed *)
(* nothing - the name stays free for the next p_shm_new                                                                              *)
LinRaceFail(h) == /\ op[h].st = "called" /\ op[h].name = "shmnew" /\ op[h].inj = 2
                  /\ op' = [op EXCEPT ![h].st = "failed"] /\ UNCHANGED mvars
(* a call through a handle that does not exist (its open failed) fails and changes nothing *)
LinNoHandle(h) == /\ op[h].st = "called" /\ op[h].name \in {"shmw", "shmr", "shmsize", "shmunlock", "shmown", "shmfree"} /\ hd[h].g = 0
                  /\ op' = [op EXCEPT ![h].st = "failed"] /\ UNCHANGED mvars
DoLin == (\E h \in Hids : LinStep(h) \/ LinNewFail(h) \/ LinInjFail(h) \/ LinRaceFail(h) \/ LinNoHandle(h)) /\ UNCHANGED l
TrRet == /\ IsEvent("ret") /\ Consume
         /\ LET h == Ev.h IN
            /\ op[h].name = Ev.op
            /\ IF op[h].st = "failed" THEN Ev.ok = 0
               ELSE /\ op[h].st = "done" /\ Ev.ok = 1
                    /\ Ev.op \in {"shmnew", "shmr", "shmsize"} => Ev.val = op[h].b
            /\ op' = [op EXCEPT ![h] = NoOp]
            /\ IF Ev.op = "shmlock" THEN MLockRet(h) ELSE UNCHANGED mvars
TrCrash == /\ IsEvent("crash") /\ Consume
           /\ MCrash(ProcHids(Ev.p)) /\ op' = [h \in Hids |-> IF h \in ProcHids(Ev.p) THEN NoOp ELSE op[h]]
TrStuck == IsEvent("Stuck") /\ Consume /\ (\E h \in ProcHids(Ev.p) : op[h].name = "shmlock" /\ MayBlock(h)) /\ UNCHANGED <<mvars, op>>
TrInfo == (IsEvent("sys") \/ IsEvent("gate") \/ IsEvent("obs")) /\ Consume /\ UNCHANGED <<mvars, op>>
TrEpoch == /\ IsEvent("Epoch") /\ Consume
           /\ gen' = [n \in Names |-> 0] /\ seg' = <<>> /\ hd' = [h \in Hids |-> Closed] /\ lpend' = [h \in Hids |-> "idle"]
           /\ op' = [h \in Hids |-> NoOp]
TNext == TrCall \/ DoLin \/ TrRet \/ TrCrash \/ TrStuck \/ TrInfo \/ TrEpoch
TSpec == TInit /\ [][TNext]_tv
====
