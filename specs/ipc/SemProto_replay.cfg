SPECIFICATION Spec
CONSTANTS Names = {1}
          Hids = {1,2}
          Split = 1
          Legacy = FALSE
          Inits = {1}
          MaxObj = 3
          MaxVal = 1
CONSTRAINT Bound
INVARIANT CreateNeverFails
PROPERTY Refines
CHECK_DEADLOCK FALSE
