SPECIFICATION RSpec
CONSTANTS Cap = 4
          Bytes = {1,2}
INVARIANTS PosInRange AbsBounded
PROPERTY Refines
