SPECIFICATION MSpec
CONSTANTS Names = {1}
          Hids = {1,2}
CONSTRAINT GenBound
INVARIANT OneHolder
CHECK_DEADLOCK FALSE
