---- MODULE ShmProto ----
(* I-spec of pshm-posix.c: p_shm_new / p_shm_free as the sequence of system calls they make          *)
(* (shm_open exclusive / plain, fstat | ftruncate, mmap, then the lock semaphore through the          *)
(* psemaphore-posix.c protocol: CREATE for the creator, OPEN for followers), over a model of the      *)
(* kernel namespace; SIGKILL of a process at any point; a recovery process that runs the documented   *)
(* open / take ownership / free / create sequence.                                                   *)
(* The interesting outcomes are invariants: NewSucceeds (a p_shm_new never fails for a reason other   *)
(* than the name vanishing), OneLock (all handles of one segment use one semaphore object),           *)
(* Recoverable (the recovery process always gets a fresh segment).                                    *)
EXTENDS Integers, Sequences, FiniteSets, TLC
CONSTANTS Procs, Size, AllowCrash, Exclude      \* Exclude: set of known-finding patterns removed from the space
VARIABLES kshm,    \* name -> segment id (0 = none)           (one name)
          segsz,   \* segment id -> size (sequence)
          ksemn,   \* lock-semaphore name -> semaphore id (0 = none)
          semv,    \* semaphore id -> value (sequence)
          pr,      \* pr[p]: [pc, seg, size, created, exists, sem, semcreated, alive, result]
          tainted  \* ghost: set of finding patterns that occurred in this behaviour
vars == <<kshm, segsz, ksemn, semv, pr, tainted>>
Fresh == [pc |-> "idle", seg |-> 0, size |-> 0, created |-> FALSE, exists |-> FALSE, sem |-> 0, semcreated |-> FALSE, alive |-> TRUE, result |-> "none"]
Init == kshm = 0 /\ segsz = <<>> /\ ksemn = 0 /\ semv = <<>> /\ pr = [p \in Procs |-> Fresh] /\ tainted = {}
Set(p, f) == pr' = [pr EXCEPT ![p] = f]
InWindow(q) == pr[q].alive /\ pr[q].pc = "trunc"         \* between shm_open(O_EXCL) and ftruncate: segment of size 0
(* ---- p_shm_new ---- *)
NewCall(p) == /\ pr[p].alive /\ pr[p].pc = "idle" /\ pr[p].result = "none"
              /\ Set(p, [pr[p] EXCEPT !.pc = "excl", !.size = Size]) /\ UNCHANGED <<kshm, segsz, ksemn, semv, tainted>>
ShmOpenExcl(p) == /\ pr[p].pc = "excl"
                  /\ IF kshm = 0
                     THEN /\ segsz' = Append(segsz, 0) /\ kshm' = Len(segsz) + 1
                          /\ Set(p, [pr[p] EXCEPT !.pc = "trunc", !.seg = Len(segsz) + 1, !.created = TRUE])
                     ELSE /\ Set(p, [pr[p] EXCEPT !.pc = "plain", !.exists = TRUE]) /\ UNCHANGED <<kshm, segsz>>
                  /\ UNCHANGED <<ksemn, semv, tainted>>
ShmOpenPlain(p) == /\ pr[p].pc = "plain"
                   /\ IF kshm # 0 THEN Set(p, [pr[p] EXCEPT !.pc = "fstat", !.seg = kshm])
                      ELSE Set(p, [pr[p] EXCEPT !.pc = "fail_vanished"])
                   /\ UNCHANGED <<kshm, segsz, ksemn, semv, tainted>>
Fstat(p) == /\ pr[p].pc = "fstat"
            /\ Set(p, [pr[p] EXCEPT !.pc = "mmap", !.size = segsz[pr[p].seg]])
            /\ tainted' = IF segsz[pr[p].seg] = 0 THEN tainted \cup {"zero-size-seen"} ELSE tainted
            /\ UNCHANGED <<kshm, segsz, ksemn, semv>>
Ftruncate(p) == /\ pr[p].pc = "trunc"
                /\ segsz' = [segsz EXCEPT ![pr[p].seg] = pr[p].size] /\ Set(p, [pr[p] EXCEPT !.pc = "mmap"])
                /\ UNCHANGED <<kshm, ksemn, semv, tainted>>
(* mmap of a zero-length file fails with EINVAL; the fd is closed right after (no separate state) *)
Mmap(p) == /\ pr[p].pc = "mmap"
           /\ IF pr[p].size = 0 THEN Set(p, [pr[p] EXCEPT !.pc = "fail_clean"])
              ELSE Set(p, [pr[p] EXCEPT !.pc = "sem_excl"])
           /\ UNCHANGED <<kshm, segsz, ksemn, semv, tainted>>
(* lock semaphore: p_semaphore_new (key, 1, exists ? OPEN : CREATE) *)
SemExcl(p) == /\ pr[p].pc = "sem_excl"
              /\ IF ksemn = 0
                 THEN /\ semv' = Append(semv, 1) /\ ksemn' = Len(semv) + 1
                      /\ Set(p, [pr[p] EXCEPT !.pc = "ok", !.sem = Len(semv) + 1, !.semcreated = TRUE])
                      /\ tainted' = IF pr[p].exists THEN tainted \cup {"follower-created-lock"} ELSE tainted
                 ELSE /\ Set(p, [pr[p] EXCEPT !.pc = IF pr[p].exists THEN "sem_plain" ELSE "sem_unlink"])
                      /\ UNCHANGED <<ksemn, semv, tainted>>
              /\ UNCHANGED <<kshm, segsz>>
SemUnlink(p) == /\ pr[p].pc = "sem_unlink" /\ ksemn' = 0 /\ Set(p, [pr[p] EXCEPT !.pc = "sem_excl"])
                /\ UNCHANGED <<kshm, segsz, semv, tainted>>
SemPlain(p) == /\ pr[p].pc = "sem_plain"
               /\ IF ksemn # 0 THEN Set(p, [pr[p] EXCEPT !.pc = "ok", !.sem = ksemn])
                  ELSE Set(p, [pr[p] EXCEPT !.pc = "fail_clean"])
               /\ UNCHANGED <<kshm, segsz, ksemn, semv, tainted>>
(* failure path pp_shm_clean_handle: unlink the segment if this handle created it *)
FailClean(p) == /\ pr[p].pc = "fail_clean"
                /\ kshm' = IF pr[p].created /\ kshm = pr[p].seg THEN 0 ELSE (IF pr[p].created THEN 0 ELSE kshm)
                /\ Set(p, [Fresh EXCEPT !.result = "failed"]) /\ UNCHANGED <<segsz, ksemn, semv, tainted>>
FailVanished(p) == /\ pr[p].pc = "fail_vanished" /\ Set(p, [Fresh EXCEPT !.result = "vanished"])
                   /\ UNCHANGED <<kshm, segsz, ksemn, semv, tainted>>
NewOk(p) == /\ pr[p].pc = "ok" /\ Set(p, [pr[p] EXCEPT !.pc = "open", !.result = "ok"]) /\ UNCHANGED <<kshm, segsz, ksemn, semv, tainted>>
(* ---- p_shm_take_ownership / p_shm_free ---- *)
TakeOwn(p) == /\ pr[p].pc = "open" /\ ~pr[p].created /\ Set(p, [pr[p] EXCEPT !.created = TRUE, !.semcreated = TRUE])
              /\ UNCHANGED <<kshm, segsz, ksemn, semv, tainted>>
FreeUnlinkShm(p) == /\ pr[p].pc = "open"                       \* munmap, then shm_unlink if owner
                    /\ kshm' = IF pr[p].created THEN 0 ELSE kshm
                    /\ Set(p, [pr[p] EXCEPT !.pc = "free_sem"]) /\ UNCHANGED <<segsz, ksemn, semv, tainted>>
FreeSem(p) == /\ pr[p].pc = "free_sem"                         \* sem_close, then sem_unlink if owner
              /\ ksemn' = IF pr[p].semcreated THEN 0 ELSE ksemn
              /\ Set(p, [Fresh EXCEPT !.result = "freed"]) /\ UNCHANGED <<kshm, segsz, semv, tainted>>
(* ---- SIGKILL ---- *)
Crash(p) == /\ AllowCrash /\ pr[p].alive /\ pr[p].pc # "idle"
            /\ tainted' = IF pr[p].pc = "trunc" THEN tainted \cup {"crash-in-zero-window"} ELSE tainted
            /\ Set(p, [Fresh EXCEPT !.alive = FALSE, !.result = "killed"]) /\ UNCHANGED <<kshm, segsz, ksemn, semv>>
Step(p) == NewCall(p) \/ ShmOpenExcl(p) \/ ShmOpenPlain(p) \/ Fstat(p) \/ Ftruncate(p) \/ Mmap(p) \/ SemExcl(p) \/ SemUnlink(p)
           \/ SemPlain(p) \/ FailClean(p) \/ FailVanished(p) \/ NewOk(p) \/ Crash(p)
Next == \E p \in Procs : Step(p)
Spec == Init /\ [][Next]_vars
(* known-finding patterns are removed from the explored space by this constraint when listed in Exclude *)
NotExcluded == tainted \cap Exclude = {}
(* ---- properties of the concurrent first-time creation ---- *)
Opened == {p \in Procs : pr[p].pc = "open"}
NewSucceeds == NotExcluded => \A p \in Procs : pr[p].result # "failed"
OneLock == NotExcluded => \A p, q \in Opened : pr[p].seg = pr[q].seg => pr[p].sem = pr[q].sem
SegSized == NotExcluded => \A p \in Opened : segsz[pr[p].seg] = Size
(* crash recoverability: once every participant is dead or done, the documented sequence can always be run: *)
(* p_shm_new must be able to attach (a zero-length segment can not be mapped)                              *)
Quiet == \A p \in Procs : ~pr[p].alive \/ pr[p].pc \in {"idle", "open"}
Recoverable == (NotExcluded /\ Quiet) => (kshm = 0 \/ segsz[kshm] > 0)
====
