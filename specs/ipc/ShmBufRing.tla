---- MODULE ShmBufRing ----
(* I-spec of pshmbuffer.c: two ring positions and M = Cap + 1 data cells, the exact free/used *)
(* formulas and the one- or two-part copies of the C code. Refines ShmBufAbs.                  *)
EXTENDS Integers, Sequences, FiniteSets
CONSTANTS Cap, Bytes
VARIABLES rpos, wpos, cells, res, out
M == Cap + 1
rvars == <<rpos, wpos, cells, res, out>>
RFree == IF wpos < rpos THEN rpos - wpos - 1 ELSE IF wpos > rpos THEN M - (wpos - rpos) - 1 ELSE M - 1
RUsed == IF wpos > rpos THEN wpos - rpos ELSE IF wpos < rpos THEN M - (rpos - wpos) ELSE 0
RInit == rpos = 0 /\ wpos = 0 /\ cells = [i \in 0..(M - 1) |-> 0] /\ res = 0 /\ out = <<>>
(* copy of bs into the ring starting at start: one part, or two parts when it wraps *)
Put(c, start, bs) ==
  IF start + Len(bs) <= M
  THEN [i \in 0..(M - 1) |-> IF i >= start /\ i < start + Len(bs) THEN bs[i - start + 1] ELSE c[i]]
  ELSE LET first == M - start IN
       [i \in 0..(M - 1) |-> IF i >= start THEN bs[i - start + 1]
                             ELSE IF i < Len(bs) - first THEN bs[first + i + 1] ELSE c[i]]
Get(c, start, n) ==
  IF start + n <= M THEN [i \in 1..n |-> c[start + i - 1]]
  ELSE LET first == M - start IN [i \in 1..n |-> IF i <= first THEN c[start + i - 1] ELSE c[i - first - 1]]
RWrite(bs) ==
  /\ out' = <<>>
  /\ IF Len(bs) = 0 THEN res' = -1 /\ UNCHANGED <<rpos, wpos, cells>>
     ELSE IF RFree < Len(bs) THEN res' = 0 /\ UNCHANGED <<rpos, wpos, cells>>
     ELSE /\ cells' = Put(cells, wpos % M, bs)
          /\ wpos' = (wpos + Len(bs)) % M
          /\ res' = Len(bs) /\ UNCHANGED rpos
RRead(n) ==
  IF n = 0 THEN res' = -1 /\ out' = <<>> /\ UNCHANGED <<rpos, wpos, cells>>
  ELSE IF rpos = wpos THEN res' = 0 /\ out' = <<>> /\ UNCHANGED <<rpos, wpos, cells>>
  ELSE LET k == IF RUsed <= n THEN RUsed ELSE n IN
       /\ out' = Get(cells, rpos % M, k)
       /\ rpos' = (rpos + k) % M
       /\ res' = k /\ UNCHANGED <<wpos, cells>>
(* clear zeroes the whole segment: positions and data *)
RClear == rpos' = 0 /\ wpos' = 0 /\ cells' = [i \in 0..(M - 1) |-> 0] /\ res' = 0 /\ out' = <<>>
RECURSIVE SeqsUpTo(_)
SeqsUpTo(n) == IF n = 0 THEN {<<>>} ELSE LET S == SeqsUpTo(n - 1) IN S \cup {Append(s, b) : s \in {x \in S : Len(x) = n - 1}, b \in Bytes}
Write(bs) == RWrite(bs)
Read(n) == RRead(n)
Clear == RClear
DoWrite == \E bs \in SeqsUpTo(Cap + 1) : Write(bs)
DoRead == \E n \in 0..(Cap + 1) : Read(n)
RNext == DoWrite \/ DoRead \/ Clear
RSpec == RInit /\ [][RNext]_rvars
PosInRange == rpos \in 0..(M - 1) /\ wpos \in 0..(M - 1) /\ RUsed + RFree = M - 1
(* refinement mapping: the queue is the cells from rpos (inclusive) to wpos (exclusive) *)
AbsQ == [i \in 1..RUsed |-> cells[(rpos + i - 1) % M]]
Abs == INSTANCE ShmBufAbs WITH q <- AbsQ, cap <- Cap, CapC <- Cap
Refines == Abs!ASpec
AbsBounded == Abs!Bounded
====
