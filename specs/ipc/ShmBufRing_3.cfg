SPECIFICATION RSpec
CONSTANTS Cap = 3
          Bytes = {1,2}
INVARIANTS PosInRange AbsBounded
PROPERTY Refines
