SPECIFICATION RSpec
CONSTANTS Cap = 1
          Bytes = {1,2}
INVARIANTS PosInRange AbsBounded
PROPERTY Refines
