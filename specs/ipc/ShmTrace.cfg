SPECIFICATION TSpec
CONSTANTS Names = {1,2,3}
          Hids = {11,12,13,21,22,23,31,32,33}
CONSTRAINT HighWater
POSTCONDITION Accepted
INVARIANT OneHolder
CHECK_DEADLOCK FALSE
