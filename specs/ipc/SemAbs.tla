---- MODULE SemAbs ----
(* P-spec of PSemaphore (C06): one system-wide counter per name *generation*. A generation starts *)
(* when a name is created (CREATE mode always, OPEN mode when the name does not exist) and ends,   *)
(* as far as the name is concerned, when an owner frees its handle (or the name is re-created);    *)
(* handles keep addressing the generation they were opened in.                                     *)
EXTENDS Integers, Sequences, FiniteSets
CONSTANTS Names, Hids
VARIABLES gen,     \* gen[n]: current generation of name n, 0 = the name does not exist
          val,     \* val[g]: counter of generation g (sequence indexed by generation id)
          hd,      \* hd[h]: [g, n, own] of an open handle, g = 0 = not open
          apend,   \* apend[h]: "idle" | "called" | "done"  (acquire in flight through handle h)
          creating \* creating[h]: [n, init] of a CREATE-mode open in progress through h, or NoCreate
svars == <<gen, val, hd, apend, creating>>
NoCreate == [n |-> 0, init |-> 0]
Closed == [g |-> 0, n |-> 0, own |-> FALSE]
SInit == /\ gen = [n \in Names |-> 0] /\ val = <<>> /\ hd = [h \in Hids |-> Closed] /\ apend = [h \in Hids |-> "idle"]
         /\ creating = [h \in Hids |-> NoCreate]
NewGen(h, n, init) == /\ val' = Append(val, init)
                      /\ gen' = [gen EXCEPT ![n] = Len(val) + 1]
                      /\ hd' = [hd EXCEPT ![h] = [g |-> Len(val) + 1, n |-> n, own |-> TRUE]]
(* CREATE: succeeds whether or not the name exists; exactly init. OPEN: joins, ignoring init, or creates *)
SNew(h, n, init, create) == /\ hd[h].g = 0
                            /\ IF create \/ gen[n] = 0 THEN NewGen(h, n, init)
                               ELSE hd' = [hd EXCEPT ![h] = [g |-> gen[n], n |-> n, own |-> FALSE]] /\ UNCHANGED <<gen, val>>
                            /\ UNCHANGED <<apend, creating>>
(* A CREATE-mode open that is not executed in isolation is three kinds of steps: the call, any number of   *)
(* resets that remove the name (whoever holds it), and the creation proper, possible only while the name   *)
(* is absent - so that the new handle always starts a generation of its own with exactly init.            *)
SCreateCall(h, n, init) == /\ hd[h].g = 0 /\ creating[h] = NoCreate
                           /\ creating' = [creating EXCEPT ![h] = [n |-> n, init |-> init]] /\ UNCHANGED <<gen, val, hd, apend>>
SCreateReset(h) == /\ creating[h] # NoCreate /\ gen[creating[h].n] # 0
                   /\ gen' = [gen EXCEPT ![creating[h].n] = 0] /\ UNCHANGED <<val, hd, apend, creating>>
SCreateLin(h) == /\ creating[h] # NoCreate /\ gen[creating[h].n] = 0
                 /\ NewGen(h, creating[h].n, creating[h].init)
                 /\ creating' = [creating EXCEPT ![h] = NoCreate] /\ UNCHANGED apend
SAcqCall(h) == hd[h].g # 0 /\ apend[h] = "idle" /\ apend' = [apend EXCEPT ![h] = "called"] /\ UNCHANGED <<gen, val, hd, creating>>
(* an acquire returns only by consuming a unit *)
SAcqLin(h) == /\ apend[h] = "called" /\ val[hd[h].g] > 0
              /\ val' = [val EXCEPT ![hd[h].g] = @ - 1] /\ apend' = [apend EXCEPT ![h] = "done"] /\ UNCHANGED <<gen, hd, creating>>
SAcqRet(h) == apend[h] = "done" /\ apend' = [apend EXCEPT ![h] = "idle"] /\ UNCHANGED <<gen, val, hd, creating>>
(* ... and does not block while units are available: a caller may still be blocked only at 0 *)
MayBlock(h) == apend[h] = "called" /\ val[hd[h].g] = 0
SRelease(h) == hd[h].g # 0 /\ val' = [val EXCEPT ![hd[h].g] = @ + 1] /\ UNCHANGED <<gen, hd, apend, creating>>
SOwn(h) == hd[h].g # 0 /\ hd' = [hd EXCEPT ![h].own = TRUE] /\ UNCHANGED <<gen, val, apend, creating>>
(* free: an owner removes the name (whatever generation currently carries it) *)
SFree(h) == /\ hd[h].g # 0 /\ apend[h] = "idle"
            /\ gen' = IF hd[h].own THEN [gen EXCEPT ![hd[h].n] = 0] ELSE gen
            /\ hd' = [hd EXCEPT ![h] = Closed] /\ UNCHANGED <<val, apend, creating>>
(* SIGKILL of a process: its handles vanish, names and counters stay *)
SCrash(hs) == /\ hd' = [h \in Hids |-> IF h \in hs THEN Closed ELSE hd[h]]
              /\ apend' = [h \in Hids |-> IF h \in hs THEN "idle" ELSE apend[h]]
              /\ creating' = [h \in Hids |-> IF h \in hs THEN NoCreate ELSE creating[h]] /\ UNCHANGED <<gen, val>>
CounterOf(h) == val[hd[h].g]
(* ---- design-level exploration ---- *)
SNext == \/ \E h \in Hids, n \in Names, i \in 0..1, c \in BOOLEAN : SNew(h, n, i, c)
         \/ \E h \in Hids, n \in Names, i \in 0..1 : SCreateCall(h, n, i)
         \/ \E h \in Hids : SCreateReset(h) \/ SCreateLin(h)
         \/ \E h \in Hids : SAcqCall(h) \/ SAcqLin(h) \/ SAcqRet(h) \/ SRelease(h) \/ SOwn(h) \/ SFree(h)
         \/ \E hs \in SUBSET Hids : hs # {} /\ SCrash(hs)
SSpec == SInit /\ [][SNext]_svars
GenBound == Len(val) <= 3 /\ \A i \in 1..Len(val) : val[i] <= 3
(* sanity: handles of one generation share one counter (by construction); a name's current generation *)
(* is always the youngest one created for it                                                           *)
TypeOK == \A h \in Hids : hd[h].g <= Len(val)
====
