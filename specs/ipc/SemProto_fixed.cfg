SPECIFICATION Spec
CONSTANTS Names = {1}
          Hids = {1,2}
          Split = 1
          Legacy = FALSE
          Inits = {0,1}
          MaxObj = 3
          MaxVal = 2
CONSTRAINT Bound
INVARIANT CreateNeverFails
PROPERTY Refines
CHECK_DEADLOCK FALSE
