---- MODULE SemTrace ----
(* Trace validator for PSemaphore histories recorded by harness/drv_ipc.c (C06): sequential,       *)
(* multi-process, with blocking acquires, system-call-gated interleavings and SIGKILLs.            *)
(* Every API call is a call event, an internal linearization step and a ret event.                 *)
EXTENDS SemAbs, VTrace
VARIABLE op        \* op[h]: operation in flight through handle h: [st, name, n, init, create]
tv == <<svars, op, l>>
NoOp == [st |-> "idle", name |-> "", n |-> 0, init |-> 0, create |-> 0, inj |-> 0]
TInit == SInit /\ op = [h \in Hids |-> NoOp] /\ CursorInit
ProcHids(p) == {h \in Hids : h \div 10 = p}
TrCall == /\ IsEvent("call") /\ Consume /\ op[Ev.h].st = "idle"
          /\ op' = [op EXCEPT ![Ev.h] = [st |-> "called", name |-> Ev.op, n |-> Ev.a, init |-> Ev.b, create |-> Ev.create, inj |-> IF HasField(Ev, "inj") THEN Ev.inj ELSE 0]]
          /\ IF Ev.op = "acq" THEN SAcqCall(Ev.h)
             ELSE IF Ev.op = "semnew" /\ Ev.create = 1 THEN SCreateCall(Ev.h, Ev.a, Ev.b)
             ELSE UNCHANGED svars
LinNewOpen(h) == /\ op[h].st = "called" /\ op[h].name = "semnew" /\ op[h].create = 0
                 /\ SNew(h, op[h].n, op[h].init, FALSE) /\ op' = [op EXCEPT ![h].st = "done"]
(* an OPEN-mode open may fail if the name disappears between its two system calls (nothing changes) *)
LinNewOpenFail(h) == /\ op[h].st = "called" /\ op[h].name = "semnew" /\ op[h].create = 0
                     /\ \E k \in Hids : k # h /\ op[k].st # "idle"
                     /\ op' = [op EXCEPT ![h].st = "failed"] /\ UNCHANGED svars
(* the environment refused a resource inside an OPEN-mode call (a system call was made to fail by the harness): the call may fail, and then
   it has changed nothing - an existing semaphore of that name is still there with its units *)
LinInjFail(h) == /\ op[h].st = "called" /\ op[h].name = "semnew" /\ op[h].create = 0 /\ op[h].inj = 1
                 /\ op' = [op EXCEPT ![h].st = "failed"] /\ UNCHANGED svars
LinCreateReset(h) == op[h].st = "called" /\ op[h].name = "semnew" /\ op[h].create = 1 /\ SCreateReset(h) /\ UNCHANGED op
LinCreate(h) == /\ op[h].st = "called" /\ op[h].name = "semnew" /\ op[h].create = 1
                /\ SCreateLin(h) /\ op' = [op EXCEPT ![h].st = "done"]
LinAcq(h) == op[h].st = "called" /\ op[h].name = "acq" /\ SAcqLin(h) /\ op' = [op EXCEPT ![h].st = "done"]
LinRel(h) == op[h].st = "called" /\ op[h].name = "rel" /\ SRelease(h) /\ op' = [op EXCEPT ![h].st = "done"]
LinOwn(h) == op[h].st = "called" /\ op[h].name = "own" /\ SOwn(h) /\ op' = [op EXCEPT ![h].st = "done"]
LinFree(h) == op[h].st = "called" /\ op[h].name = "free" /\ SFree(h) /\ op' = [op EXCEPT ![h].st = "done"]
LinVal(h) == op[h].st = "called" /\ op[h].name = "val" /\ op' = [op EXCEPT ![h].st = "done"] /\ UNCHANGED svars
(* a call through a handle that does not exist (its open failed, or its process was killed) fails and changes nothing *)
LinNoHandle(h) == /\ op[h].st = "called" /\ op[h].name \in {"rel", "own", "free", "val"} /\ hd[h].g = 0
                  /\ op' = [op EXCEPT ![h].st = "failed"] /\ UNCHANGED svars
DoLin == /\ \E h \in Hids : LinNoHandle(h) \/ LinInjFail(h) \/ LinNewOpen(h) \/ LinNewOpenFail(h) \/ LinCreateReset(h) \/ LinCreate(h) \/ LinAcq(h)
                            \/ LinRel(h) \/ LinOwn(h) \/ LinFree(h) \/ LinVal(h)
         /\ UNCHANGED l
TrRet == /\ IsEvent("ret") /\ Consume
         /\ LET h == Ev.h IN
            /\ op[h].name = Ev.op
            /\ IF op[h].st = "failed" THEN Ev.ok = 0
               ELSE /\ op[h].st = "done" /\ Ev.ok = 1
                    /\ (Ev.op \in {"semnew", "acq", "rel", "val"} /\ Ev.val # -1) => Ev.val = CounterOf(h)
            /\ op' = [op EXCEPT ![h] = NoOp]
            /\ IF Ev.op = "acq" THEN SAcqRet(h) ELSE UNCHANGED svars
(* SIGKILL of process p: its handles and operations in flight vanish *)
TrCrash == /\ IsEvent("crash") /\ Consume
           /\ SCrash(ProcHids(Ev.p)) /\ op' = [h \in Hids |-> IF h \in ProcHids(Ev.p) THEN NoOp ELSE op[h]]
(* watchdog: the call has not returned. Legal only for an acquire that may block. *)
TrStuck == IsEvent("Stuck") /\ Consume /\ (\E h \in ProcHids(Ev.p) : op[h].name = "acq" /\ MayBlock(h)) /\ UNCHANGED <<svars, op>>
TrInfo == (IsEvent("sys") \/ IsEvent("gate") \/ IsEvent("quiet")) /\ Consume /\ UNCHANGED <<svars, op>>
(* the parent looked into the kernel's name space while every process was parked (at a system-call gate or idle): where the check knows
   which name a key belongs to ("ex": pairs <<name, exists>>), the abstract name exists exactly when the kernel has it.  Besides being a
   binding of its own, this decides at once whether a CREATE that was killed in mid-flight had already removed / re-created the name. *)
TrObs == /\ IsEvent("obs") /\ Consume
         /\ (HasField(Ev, "ex") => \A i \in 1..Len(Ev.ex) : (Ev.ex[i][2] = 1) = (gen[Ev.ex[i][1]] # 0))
         /\ UNCHANGED <<svars, op>>
(* k-exclusion needs no separate observation: an acquire that returns while no unit is available has no   *)
(* linearization. The occupancy the actors count themselves is logged for the reader only (its value is     *)
(* read before the event's sequence number is taken, so it cannot be judged at the event's position).      *)
TrCs == IsEvent("cs") /\ Consume /\ hd[Ev.h].g # 0 /\ UNCHANGED <<svars, op>>
(* end of a scenario: the driver has removed every name it used; the model starts afresh *)
TrEpoch == /\ IsEvent("Epoch") /\ Consume
           /\ gen' = [n \in Names |-> 0] /\ val' = <<>> /\ hd' = [h \in Hids |-> Closed] /\ apend' = [h \in Hids |-> "idle"]
           /\ creating' = [h \in Hids |-> NoCreate] /\ op' = [h \in Hids |-> NoOp]
TNext == TrCall \/ DoLin \/ TrRet \/ TrCrash \/ TrStuck \/ TrInfo \/ TrObs \/ TrCs \/ TrEpoch
TSpec == TInit /\ [][TNext]_tv
====
