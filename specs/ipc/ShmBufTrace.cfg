SPECIFICATION TSpec
CONSTANTS CapC = 0
          Bytes = {}
CONSTRAINT HighWater
POSTCONDITION Accepted
INVARIANT Bounded
CHECK_DEADLOCK FALSE
