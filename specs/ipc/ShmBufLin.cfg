SPECIFICATION LSpec
CONSTANTS CapC = 0
          Bytes = {}
          Actors = {0,1,2,3,4,5,6,7,8}
CONSTRAINT HighWater
POSTCONDITION Accepted
INVARIANT Bounded
CHECK_DEADLOCK FALSE
