SPECIFICATION SSpec
CONSTANTS Names = {1}
          Hids = {1,2}
CONSTRAINT GenBound
INVARIANTS TypeOK
CHECK_DEADLOCK FALSE
