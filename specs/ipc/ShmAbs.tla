---- MODULE ShmAbs ----
(* P-spec of PShm (C07): per name generation one byte array of a fixed size and one system-wide    *)
(* mutex; handles opened while the segment exists address the same bytes; an owner's free removes  *)
(* the name; the next p_shm_new starts a fresh generation with the newly requested size.           *)
EXTENDS Integers, Sequences, FiniteSets
CONSTANTS Names, Hids
VARIABLES gen,     \* gen[n]: current generation of name n (0 = no such segment)
          seg,     \* seg[g]: [size, cells, holder] ; cells: offset -> byte (absent = 0); holder: lock owner handle or 0
          hd,      \* hd[h]: [g, n, own, rsize]  (rsize = size reported to this handle)
          lpend    \* lpend[h]: "idle" | "called" | "done"   (p_shm_lock in flight)
mvars == <<gen, seg, hd, lpend>>
Closed == [g |-> 0, n |-> 0, own |-> FALSE, rsize |-> 0]
MInit == gen = [n \in Names |-> 0] /\ seg = <<>> /\ hd = [h \in Hids |-> Closed] /\ lpend = [h \in Hids |-> "idle"]
(* what an opener that asked for `size' may be told about a segment of `real' bytes *)
ReportOK(size, real, r) == r <= real /\ r > 0 /\ ((size = 0 \/ size >= real) => r = real) /\ (size # 0 /\ size < real => r >= size)
MNew(h, n, size, r) ==
    /\ hd[h].g = 0
    /\ IF gen[n] = 0
       THEN /\ size > 0 /\ r = size                                 \* the creator sees exactly the size it asked for
            /\ seg' = Append(seg, [size |-> size, cells |-> <<>>, holder |-> 0])
            /\ gen' = [gen EXCEPT ![n] = Len(seg) + 1]
            /\ hd' = [hd EXCEPT ![h] = [g |-> Len(seg) + 1, n |-> n, own |-> TRUE, rsize |-> r]]
       ELSE /\ ReportOK(size, seg[gen[n]].size, r)
            /\ hd' = [hd EXCEPT ![h] = [g |-> gen[n], n |-> n, own |-> FALSE, rsize |-> r]]
            /\ UNCHANGED <<gen, seg>>
    /\ UNCHANGED lpend
CellOf(g, off) == IF off \in DOMAIN seg[g].cells THEN seg[g].cells[off] ELSE 0
MWrite(h, off, v) == /\ hd[h].g # 0 /\ off < hd[h].rsize
                     /\ seg' = [seg EXCEPT ![hd[h].g].cells = [o \in (DOMAIN @) \cup {off} |-> IF o = off THEN v ELSE @[o]]]
                     /\ UNCHANGED <<gen, hd, lpend>>
MRead(h, off, v) == hd[h].g # 0 /\ off < hd[h].rsize /\ v = CellOf(hd[h].g, off) /\ UNCHANGED mvars
MLockCall(h) == hd[h].g # 0 /\ lpend[h] = "idle" /\ lpend' = [lpend EXCEPT ![h] = "called"] /\ UNCHANGED <<gen, seg, hd>>
MLockLin(h) == /\ lpend[h] = "called" /\ seg[hd[h].g].holder = 0
               /\ seg' = [seg EXCEPT ![hd[h].g].holder = h] /\ lpend' = [lpend EXCEPT ![h] = "done"] /\ UNCHANGED <<gen, hd>>
MLockRet(h) == lpend[h] = "done" /\ lpend' = [lpend EXCEPT ![h] = "idle"] /\ UNCHANGED <<gen, seg, hd>>
MayBlock(h) == lpend[h] = "called" /\ seg[hd[h].g].holder # 0
MUnlock(h) == /\ hd[h].g # 0 /\ seg[hd[h].g].holder = h
              /\ seg' = [seg EXCEPT ![hd[h].g].holder = 0] /\ UNCHANGED <<gen, hd, lpend>>
MOwn(h) == hd[h].g # 0 /\ hd' = [hd EXCEPT ![h].own = TRUE] /\ UNCHANGED <<gen, seg, lpend>>
MFree(h) == /\ hd[h].g # 0 /\ lpend[h] = "idle"
            /\ gen' = IF hd[h].own THEN [gen EXCEPT ![hd[h].n] = 0] ELSE gen
            /\ hd' = [hd EXCEPT ![h] = Closed] /\ UNCHANGED <<seg, lpend>>
(* SIGKILL: handles vanish; a lock held by a killed process stays held (the documented deadlock hazard) *)
MCrash(hs) == /\ hd' = [h \in Hids |-> IF h \in hs THEN Closed ELSE hd[h]]
              /\ lpend' = [h \in Hids |-> IF h \in hs THEN "idle" ELSE lpend[h]] /\ UNCHANGED <<gen, seg>>
(* ---- design-level exploration ---- *)
MNext == \/ \E h \in Hids, n \in Names, s \in 1..2, r \in 1..2 : MNew(h, n, s, r)
         \/ \E h \in Hids : MWrite(h, 0, 1) \/ MLockCall(h) \/ MLockLin(h) \/ MLockRet(h) \/ MUnlock(h) \/ MOwn(h) \/ MFree(h)
         \/ \E hs \in SUBSET Hids : hs # {} /\ MCrash(hs)
MSpec == MInit /\ [][MNext]_mvars
GenBound == Len(seg) <= 3
(* one system-wide mutex per generation: a lock call returns only while nobody holds it (structural: holder is one value) *)
OneHolder == \A g \in 1..Len(seg) : seg[g].holder \in Hids \cup {0}
====
