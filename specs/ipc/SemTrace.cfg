SPECIFICATION TSpec
CONSTANTS Names = {1,2,3}
          Hids = {11,12,13,21,22,23,31,32,33,41,51,61,71,81,91,92,93}
CONSTRAINT HighWater
POSTCONDITION Accepted
INVARIANT TypeOK
CHECK_DEADLOCK FALSE
