---- MODULE ShmBufLin ----
(* Linearizability validator for concurrent PShmBuffer histories (C08: "concurrent reads and    *)
(* writes are atomic with respect to each other"). call / ret are logged events ordered by one  *)
(* process-shared atomic sequence number; the effect of each call is an internal step that TLC  *)
(* places somewhere between them. xres / xdata on a call event are the call's own result,       *)
(* copied from its ret event by the trace merger (pure pruning: the ret check demands the same).*)
EXTENDS ShmBufAbs, VTrace
CONSTANT Actors
VARIABLE pend
lvars == <<avars, pend, l>>
Idle == [st |-> "idle", op |-> "", len |-> 0, data |-> <<>>, r |-> 0, o |-> <<>>, xr |-> 0, xo |-> <<>>]
LInit == cap = atoi(IOEnv.CAP_) /\ q = <<>> /\ res = 0 /\ out = <<>> /\ pend = [t \in Actors |-> Idle] /\ CursorInit
TrCall == /\ IsEvent("call") /\ Consume
          /\ pend[Ev.t].st = "idle"
          /\ pend' = [pend EXCEPT ![Ev.t] = [st |-> "called", op |-> Ev.op, len |-> Ev.len, data |-> Ev.data,
                                             r |-> 0, o |-> <<>>, xr |-> Ev.xres, xo |-> Ev.xdata]]
          /\ UNCHANGED avars
Lin(t) == /\ pend[t].st = "called"
          /\ IF pend[t].op = "w" THEN AWrite(pend[t].data) ELSE ARead(pend[t].len)
          /\ res' = pend[t].xr /\ out' = pend[t].xo
          /\ pend' = [pend EXCEPT ![t].st = "done", ![t].r = res', ![t].o = out']
          /\ UNCHANGED l
DoLin == \E t \in Actors : Lin(t)
TrRet == /\ IsEvent("ret") /\ Consume
         /\ pend[Ev.t].st = "done" /\ pend[Ev.t].r = Ev.res /\ pend[Ev.t].o = Ev.data
         /\ pend' = [pend EXCEPT ![Ev.t] = Idle]
         /\ UNCHANGED avars
TrEpoch == /\ IsEvent("Epoch") /\ Consume /\ \A t \in Actors : pend[t].st = "idle"
           /\ q = <<>> /\ UNCHANGED <<avars, pend>>
TrDrained == /\ IsEvent("Drained") /\ Consume /\ \A t \in Actors : pend[t].st = "idle"
             /\ q = <<>> /\ Ev.used = 0 /\ UNCHANGED <<avars, pend>>
LNext == TrCall \/ DoLin \/ TrRet \/ TrEpoch \/ TrDrained
LSpec == LInit /\ [][LNext]_lvars
====
