SPECIFICATION Spec
CONSTANTS Procs = {1,2}
          Size = 1
          AllowCrash = FALSE
          Exclude = {}
CONSTRAINT NotExcluded
INVARIANTS NewSucceeds OneLock SegSized
CHECK_DEADLOCK FALSE
