SPECIFICATION RSpec
CONSTANTS Cap = 2
          Bytes = {1,2}
INVARIANTS PosInRange AbsBounded
PROPERTY Refines
