---- MODULE ShmBufAbs ----
(* P-spec of PShmBuffer (C08): one bounded FIFO byte queue per name, shared by every handle. *)
EXTENDS Integers, Sequences, FiniteSets
CONSTANTS CapC, Bytes
VARIABLES cap,      \* capacity fixed when the buffer was created
          q,        \* queue content, oldest first
          res,      \* result of the last operation (count, or -1 for the documented invalid-argument error)
          out       \* bytes returned by the last read
avars == <<cap, q, res, out>>
AInit == cap = CapC /\ q = <<>> /\ res = 0 /\ out = <<>>
Free == cap - Len(q)
Used == Len(q)
(* write: all or nothing. A zero-length write is an invalid argument: nothing changes. *)
AWrite(bs) == /\ IF Len(bs) = 0 THEN q' = q /\ res' \in {0, -1}
                 ELSE IF Len(bs) <= Free THEN q' = q \o bs /\ res' = Len(bs)
                 ELSE q' = q /\ res' = 0
              /\ out' = <<>> /\ UNCHANGED cap
Min2(a, b) == IF a < b THEN a ELSE b
ARead(n) == LET k == Min2(n, Len(q)) IN
            /\ IF n = 0 THEN q' = q /\ res' \in {0, -1} /\ out' = <<>>
               ELSE q' = SubSeq(q, k + 1, Len(q)) /\ res' = k /\ out' = SubSeq(q, 1, k)
            /\ UNCHANGED cap
AClear == q' = <<>> /\ res' = 0 /\ out' = <<>> /\ UNCHANGED cap
RECURSIVE SeqsUpTo(_)
SeqsUpTo(n) == IF n = 0 THEN {<<>>} ELSE LET S == SeqsUpTo(n - 1) IN S \cup {Append(s, b) : s \in {x \in S : Len(x) = n - 1}, b \in Bytes}
DoWrite == \E bs \in SeqsUpTo(CapC + 1) : AWrite(bs)
DoRead == \E n \in 0..(CapC + 1) : ARead(n)
DoClear == AClear
ANext == DoWrite \/ DoRead \/ DoClear
ASpec == AInit /\ [][ANext]_avars
Bounded == Len(q) <= cap /\ Used + Free = cap
FifoOrder == [][Len(out') > 0 => out' \o q' = q]_avars
AllOrNothing == [][q' = q \/ q' = <<>> \/ (\E k \in 0..Len(q) : q' = SubSeq(q, k + 1, Len(q))) \/ (Len(q') - Len(q) = res')]_avars
====
