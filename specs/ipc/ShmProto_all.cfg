SPECIFICATION Spec
CONSTANTS Procs = {1,2}
          Size = 1
          AllowCrash = TRUE
          Exclude = {}
CHECK_DEADLOCK FALSE
