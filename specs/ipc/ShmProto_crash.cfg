SPECIFICATION Spec
CONSTANTS Procs = {1,2}
          Size = 1
          AllowCrash = TRUE
          Exclude = {"zero-size-seen", "follower-created-lock"}
CONSTRAINT NotExcluded
INVARIANTS Recoverable
CHECK_DEADLOCK FALSE
