SPECIFICATION Spec
CONSTANTS Procs = {1,2}
          Size = 1
          AllowCrash = TRUE
          Exclude = {"zero-size-seen", "follower-created-lock", "crash-in-zero-window"}
CONSTRAINT NotExcluded
INVARIANTS NewSucceeds OneLock SegSized Recoverable
CHECK_DEADLOCK FALSE
