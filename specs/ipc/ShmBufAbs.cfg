SPECIFICATION ASpec
CONSTANTS CapC = 3
          Bytes = {1,2}
INVARIANT Bounded
PROPERTIES FifoOrder AllOrNothing
