SPECIFICATION TSpec
CONSTANTS AFInet = 2
 AFInet6 = 10
CONSTRAINT HighWater
POSTCONDITION Accepted
CHECK_DEADLOCK FALSE
