---- MODULE SockTrace ----
(* Trace validator for PSocket histories recorded by harness/drv_sock.c.                              *)
(* Mode "io" decides C09 (bytes intact and in order, datagrams, no would-block / interrupted errors    *)
(* in blocking mode, faults injected into the system calls do not change results); Mode "life"         *)
(* decides C10 (closed state, idempotent close, getters, timeouts, non-blocking, close-on-exec).       *)
EXTENDS SockAbs, VTrace
CONSTANT Mode
VARIABLE pend        \* pend[h]: call in flight: [op, a, b, c, s]
tv == <<kvars, pend, l>>
NoCall == [op |-> "", a |-> 0, b |-> 0, c |-> 0, s |-> ""]
TInit == KInit /\ pend = [h \in Socks |-> NoCall] /\ CursorInit
IO == Mode = "io"
LIFE == Mode = "life"
TrCall == /\ IsEvent("scall") /\ Consume /\ pend[Ev.h].op = ""
          /\ pend' = [pend EXCEPT ![Ev.h] = [op |-> Ev.op, a |-> Ev.a, b |-> Ev.b, c |-> Ev.c, s |-> Ev.s]]
          /\ UNCHANGED kvars
(* ---- what each returning call must look like and how it changes the abstract state ---- *)
Upd(h, r) == sk' = [sk EXCEPT ![h] = r]
ClosedRule(h) == LIFE => (Ev.ok = 0 /\ Ev.err = NotAvailable /\ Ev.nsys = 0)       \* fails without touching any descriptor
(* the last wait of a blocking call: without a timeout it waits indefinitely; with timeout T it waits for what is left of T (an interrupted wait is
   resumed with the remainder) *)
BlockingWait(r) == LIFE => (IF r.blocking THEN (Ev.npoll >= 1 /\ (IF r.timeout > 0 THEN (Ev.pto > 0 /\ Ev.pto <= r.timeout) ELSE Ev.pto = -1)) ELSE Ev.npoll = 0)
TimeoutRule(r) == /\ (Ev.err = TimedOut /\ r.timeout > 0) => Ev.ms >= r.timeout - 1     \* in every mode: never "timed out" before T
                  /\ LIFE => (r.blocking /\ r.timeout > 0 /\ Ev.err = TimedOut /\ Ev.ms >= r.timeout - 1)
NoBlockErr == IO => Ev.err # WouldBlock
RetNew(h) == /\ Ev.ok = 1 /\ (LIFE => Ev.cloexec = 1)
             /\ Upd(h, [NoSock EXCEPT !.ex = TRUE, !.udp = (pend[h].s = "udp"), !.backlog = Ev.g[6]])
             /\ sent' = [sent EXCEPT ![h] = 0] /\ rcvd' = [rcvd EXCEPT ![h] = 0] /\ dg' = [dg EXCEPT ![h] = {}]
             /\ queue' = [queue EXCEPT ![h] = <<>>]
RetSimple(h, r) == Upd(h, r) /\ UNCHANGED <<queue, sent, rcvd, dg>>
RetBind(h) == IF sk[h].closed THEN ClosedRule(h) /\ UNCHANGED kvars ELSE Ev.ok = 1 /\ UNCHANGED kvars
RetListen(h) == IF sk[h].closed THEN ClosedRule(h) /\ UNCHANGED kvars
                ELSE IF sk[h].udp THEN Ev.ok = 0 /\ UNCHANGED kvars          \* a datagram socket cannot listen: the call fails and changes nothing
                ELSE Ev.ok = 1 /\ RetSimple(h, [sk[h] EXCEPT !.listening = TRUE])
RetConnect(h) == LET L == pend[h].a IN
    IF sk[h].closed THEN ClosedRule(h) /\ UNCHANGED kvars
    ELSE IF sk[h].blocking
         THEN /\ Ev.ok = 1 /\ Upd(h, [sk[h] EXCEPT !.conn = TRUE, !.via = L])
              /\ queue' = [queue EXCEPT ![L] = Append(@, h)] /\ UNCHANGED <<sent, rcvd, dg>>
         ELSE /\ (LIFE => Ev.npoll = 0)
              /\ \/ Ev.ok = 1 /\ Upd(h, [sk[h] EXCEPT !.conn = TRUE, !.via = L])
                 \/ Ev.ok = 0 /\ Ev.err \in {InProgress, WouldBlock} /\ Upd(h, [sk[h] EXCEPT !.via = L])
              /\ queue' = [queue EXCEPT ![L] = Append(@, h)] /\ UNCHANGED <<sent, rcvd, dg>>
(* connect to a listener whose accept queue is full and that nobody drains: TRUE only for a connection the OS reports as     *)
(* established; otherwise a blocking socket with timeout T fails with the timed-out error not before T and stays unconnected. *)
RetConnectFull(h) == IF sk[h].closed THEN ClosedRule(h) /\ UNCHANGED kvars
                     ELSE /\ IF Ev.ok = 1 THEN Ev.osconn = 1 /\ Upd(h, [sk[h] EXCEPT !.conn = TRUE])
                             ELSE /\ IF sk[h].blocking THEN Ev.err = TimedOut /\ TimeoutRule(sk[h])
                                                       ELSE Ev.err \in {InProgress, WouldBlock} /\ (LIFE => Ev.npoll = 0)
                                  /\ UNCHANGED sk
                          /\ UNCHANGED <<queue, sent, rcvd, dg>>
(* connect on a socket that is connected already: whatever the repeated call returns (the OS may accept it once more or refuse   *)
(* it as already connected / not supported), the association the OS holds stays, and so does everything the getters report.      *)
RetReconnect(h) == IF sk[h].closed THEN ClosedRule(h) /\ UNCHANGED kvars
                   ELSE sk[h].conn /\ Ev.osconn = 1 /\ (Ev.ok = 0 => Ev.err # 0) /\ UNCHANGED kvars
RetConnectDead(h) == IF sk[h].closed THEN ClosedRule(h) /\ UNCHANGED kvars
                     ELSE /\ Ev.ok = 0 /\ (IF sk[h].blocking THEN Ev.err = Refused ELSE Ev.err \in {InProgress, WouldBlock, Refused})
                          /\ UNCHANGED kvars
RetAccept(h) == LET L == pend[h].a IN
    IF sk[L].closed THEN ClosedRule(L) /\ UNCHANGED kvars
    ELSE IF queue[L] # <<>>
         THEN LET c == Head(queue[L]) IN
              /\ Ev.ok = 1 /\ (LIFE => Ev.cloexec = 1) /\ (IO => Ev.from = c) /\ BlockingWait(sk[L])
              (* (keep-alive of the new socket is what the OS gave its descriptor - Linux hands the listener's option on; the getters, checked below, must say the same) *)
              /\ sk' = [sk EXCEPT ![h] = [NoSock EXCEPT !.ex = TRUE, !.conn = TRUE, !.peer = c, !.backlog = Ev.g[6], !.keepalive = (HasField(Ev, "kka") /\ Ev.kka = 1)], ![c].peer = h]
              /\ queue' = [queue EXCEPT ![L] = Tail(@), ![h] = <<>>]
              /\ sent' = [sent EXCEPT ![h] = 0] /\ rcvd' = [rcvd EXCEPT ![h] = 0] /\ dg' = [dg EXCEPT ![h] = {}]
         ELSE /\ Ev.ok = 0 /\ (IF sk[L].blocking THEN TimeoutRule(sk[L]) /\ (IO => Ev.err = TimedOut) ELSE Ev.err = WouldBlock /\ (LIFE => Ev.npoll = 0))
              /\ UNCHANGED kvars
RetSend(h) == IF sk[h].closed THEN ClosedRule(h) /\ UNCHANGED kvars
              ELSE IF PeerGone(h)
                   THEN \/ Ev.ok = 0 /\ (sk[h].blocking => NoBlockErr) /\ UNCHANGED kvars          \* an error, not a signal
                        \/ Ev.ok = 1 /\ Ev.res > 0 /\ Ev.res <= pend[h].a /\ sent' = [sent EXCEPT ![h] = @ + Ev.res] /\ UNCHANGED <<sk, queue, rcvd, dg>>
                   ELSE \/ /\ Ev.ok = 1 /\ Ev.res > 0 /\ Ev.res <= pend[h].a /\ (IO => Ev.off = sent[h]) /\ BlockingWait(sk[h])
                           /\ sent' = [sent EXCEPT ![h] = @ + Ev.res] /\ UNCHANGED <<sk, queue, rcvd, dg>>
                        \/ ~sk[h].blocking /\ Ev.ok = 0 /\ Ev.err = WouldBlock /\ (LIFE => Ev.npoll = 0) /\ UNCHANGED kvars   \* send buffer full
RetRecv(h) == IF sk[h].closed THEN ClosedRule(h) /\ UNCHANGED kvars
              ELSE IF Avail(h) > 0
                   THEN \/ /\ Ev.ok = 1 /\ Ev.res > 0 /\ Ev.res <= Min2(pend[h].a, Avail(h))
                           /\ (IO => (Ev.off = rcvd[h] /\ Ev.dataok = 1)) /\ BlockingWait(sk[h])
                           /\ rcvd' = [rcvd EXCEPT ![h] = @ + Ev.res] /\ UNCHANGED <<sk, queue, sent, dg>>
                        \/ ~sk[h].blocking /\ Ev.ok = 0 /\ Ev.err = WouldBlock /\ UNCHANGED kvars      \* not delivered yet
                        (* bytes the peer's kernel has accepted may still be in flight (Nagle / delayed ACK hold small segments *)
                        (* back for tens of milliseconds even on loopback): a timed receive may then run out of time          *)
                        \/ sk[h].blocking /\ sk[h].timeout > 0 /\ Ev.ok = 0 /\ Ev.err = TimedOut /\ TimeoutRule(sk[h]) /\ UNCHANGED kvars
                   ELSE IF PeerGone(h)
                        THEN ((Ev.ok = 1 /\ Ev.res = 0) \/ (Ev.ok = 0 /\ (sk[h].blocking => NoBlockErr))) /\ UNCHANGED kvars
                        ELSE /\ Ev.ok = 0 /\ (IF sk[h].blocking THEN TimeoutRule(sk[h]) /\ (IO => Ev.err = TimedOut) ELSE Ev.err = WouldBlock /\ (LIFE => Ev.npoll = 0))
                             /\ UNCHANGED kvars
RetSendTo(h) == IF sk[h].closed THEN ClosedRule(h) /\ UNCHANGED kvars
                ELSE /\ Ev.ok = 1 /\ Ev.res = pend[h].c /\ BlockingWait(sk[h])
                     /\ dg' = [dg EXCEPT ![pend[h].a] = @ \cup {<<pend[h].b, pend[h].c, h>>}] /\ UNCHANGED <<sk, queue, sent, rcvd>>
RetRecvFrom(h) == IF sk[h].closed THEN ClosedRule(h) /\ UNCHANGED kvars
                  ELSE IF dg[h] # {}
                       THEN \/ \E d \in dg[h] : /\ Ev.ok = 1 /\ (d[2] < 2 \/ Ev.id = d[1]) /\ Ev.res = Min2(d[2], pend[h].a)      \* (a datagram shorter than 2 bytes carries no id; an empty one is a datagram too)
                                                /\ (IO => (Ev.from = d[3] /\ Ev.dataok = 1)) /\ BlockingWait(sk[h])
                                                /\ dg' = [dg EXCEPT ![h] = @ \ {d}] /\ UNCHANGED <<sk, queue, sent, rcvd>>
                            \/ ~sk[h].blocking /\ Ev.ok = 0 /\ Ev.err = WouldBlock /\ UNCHANGED kvars
                       ELSE /\ Ev.ok = 0 /\ (IF sk[h].blocking THEN TimeoutRule(sk[h]) /\ (IO => Ev.err = TimedOut) ELSE Ev.err = WouldBlock /\ (LIFE => Ev.npoll = 0))
                            /\ UNCHANGED kvars
RetSet(h) == LET r == sk[h]  v == pend[h].a IN
    /\ Ev.ok = 1
    /\ CASE pend[h].s = "blocking" -> RetSimple(h, [r EXCEPT !.blocking = (v # 0)])
         [] pend[h].s = "timeout" -> RetSimple(h, [r EXCEPT !.timeout = IF v < 0 THEN 0 ELSE v])
         [] pend[h].s = "keepalive" -> RetSimple(h, IF r.closed THEN r ELSE [r EXCEPT !.keepalive = (v # 0)])
         [] pend[h].s = "backlog" -> RetSimple(h, IF r.listening THEN r ELSE [r EXCEPT !.backlog = v])
(* completion of a non-blocking connect: once the kernel reports the socket writable the result is read; from then on the socket is connected *)
RetCcr(h) == IF sk[h].via # 0 /\ sk[sk[h].via].ex /\ sk[sk[h].via].listening /\ ~sk[sk[h].via].closed
             THEN Ev.ok = 1 /\ RetSimple(h, [sk[h] EXCEPT !.conn = TRUE])
             ELSE UNCHANGED kvars
(* the public wait: writable at once on a connected stream or a datagram socket; readable when something can be read / accepted, else it
   runs out of time like every timed call *)
Readable(h) == Avail(h) > 0 \/ PeerGone(h) \/ queue[h] # <<>> \/ dg[h] # {}
RetIoWait(h) == IF sk[h].closed THEN ClosedRule(h) /\ UNCHANGED kvars
                ELSE /\ IF pend[h].a = 2 THEN Ev.ok = 1
                        ELSE IF Readable(h) THEN (Ev.ok = 1 \/ (sk[h].timeout > 0 /\ Ev.ok = 0 /\ Ev.err = TimedOut /\ TimeoutRule(sk[h])))
                        ELSE Ev.ok = 0 /\ Ev.err = TimedOut /\ TimeoutRule(sk[h])
                     /\ UNCHANGED kvars
(* local and remote address: the local port is the one the socket was bound / connected with, the remote address names the peer *)
RetAddrs(h) == IF sk[h].closed THEN UNCHANGED kvars
               ELSE /\ Ev.id = 1
                    /\ (sk[h].conn /\ ~sk[h].udp /\ sk[h].peer # 0 /\ sk[h].via = 0) => Ev.from = sk[h].peer        \* accepted socket: the client
                    /\ (sk[h].conn /\ ~sk[h].udp /\ sk[h].via # 0) => Ev.from = sk[h].via                          \* client: the listener's address
                    /\ UNCHANGED kvars
RetShutdown(h) == IF sk[h].closed THEN ClosedRule(h) /\ UNCHANGED kvars
                  ELSE /\ Ev.ok = 1
                       /\ RetSimple(h, [sk[h] EXCEPT !.wclosed = (@ \/ pend[h].b # 0), !.conn = IF pend[h].a # 0 /\ pend[h].b # 0 THEN FALSE ELSE @])
RetClose(h) == /\ Ev.ok = 1 /\ (LIFE /\ sk[h].closed => Ev.nsys = 0)               \* idempotent, second close touches nothing
               /\ RetSimple(h, [sk[h] EXCEPT !.closed = TRUE, !.conn = FALSE, !.listening = FALSE, !.wclosed = TRUE])
RetFree(h) == RetSimple(h, [sk[h] EXCEPT !.ex = FALSE, !.closed = TRUE, !.wclosed = TRUE])
TrRet == /\ IsEvent("sret") /\ Consume
         /\ LET h == Ev.h IN
            /\ pend[h].op = Ev.op
            /\ CASE Ev.op = "new" -> RetNew(h) [] Ev.op = "bind" -> RetBind(h) [] Ev.op = "listen" -> RetListen(h)
                 [] Ev.op = "connect" -> RetConnect(h) [] Ev.op = "reconnect" -> RetReconnect(h) [] Ev.op = "connectdead" -> RetConnectDead(h) [] Ev.op = "connectfull" -> RetConnectFull(h) [] Ev.op = "accept" -> RetAccept(h)
                 [] Ev.op = "send" -> RetSend(h) [] Ev.op = "recv" -> RetRecv(h) [] Ev.op = "sendto" -> RetSendTo(h)
                 [] Ev.op = "recvfrom" -> RetRecvFrom(h) [] Ev.op = "set" -> RetSet(h) [] Ev.op = "shutdown" -> RetShutdown(h)
                 [] Ev.op = "close" -> RetClose(h) [] Ev.op = "free" -> RetFree(h) [] Ev.op = "getters" -> UNCHANGED kvars
                 [] Ev.op = "ccr" -> RetCcr(h) [] Ev.op = "iowait" -> RetIoWait(h) [] Ev.op = "addrs" -> RetAddrs(h)
                 [] Ev.op = "bufsize" -> (Ev.ok = 1 /\ UNCHANGED kvars)
            (* the getters always reflect the calls made so far *)
            /\ (LIFE /\ Ev.op # "free" /\ Ev.g # <<>> /\ sk'[h].ex) => Ev.g = Getters(sk'[h])
            /\ pend' = [pend EXCEPT ![h] = NoCall]
TrReset == IsEvent("Reset") /\ Consume /\ sk' = [h \in Socks |-> NoSock] /\ queue' = [h \in Socks |-> <<>>] /\ sent' = [h \in Socks |-> 0]
           /\ rcvd' = [h \in Socks |-> 0] /\ dg' = [h \in Socks |-> {}] /\ pend' = [h \in Socks |-> NoCall]
TrFill == IsEvent("fill") /\ Consume /\ UNCHANGED <<kvars, pend>>
TNext == TrCall \/ TrRet \/ TrReset \/ TrFill
TSpec == TInit /\ [][TNext]_tv
====
