---- MODULE SockAddrLife ----
(* Life cycle of a PSocketAddress over abstract classes: which call is possible when, and whether it yields *)
(* an object.  TLC's graph of it is the source of the call sequences replayed on the real code              *)
(* (checks/addr.py instantiates every class with boundary and random values).                              *)
EXTENDS SockAddr
VARIABLE obj      \* "none" | "v4" | "v6"
TextKinds == {"v4", "v4bad", "v6", "v6mapped", "v6scoped", "v6bad", "garbage"}
LenClasses == {"zero", "one", "short", "exactm1", "exact", "long"}
FamOfText(k) == IF k = "v4" THEN "v4" ELSE IF k \in {"v6", "v6mapped", "v6scoped"} THEN "v6" ELSE "none"
SInit == obj = "none"
NewText(k) == obj = "none" /\ obj' = FamOfText(k)
NewFromNative(f, lc) == obj = "none" /\ obj' = (IF lc \in {"exact", "long"} THEN f ELSE "none")
NewFromNativeBadFamily == obj = "none" /\ obj' = "none"
NewAny(f) == obj = "none" /\ obj' = f
NewLoopback(f) == obj = "none" /\ obj' = f
DoSetFlow == obj # "none" /\ UNCHANGED obj
DoSetScope == obj # "none" /\ UNCHANGED obj
DoToNative(lc) == obj # "none" /\ UNCHANGED obj
Free == obj # "none" /\ obj' = "none"
SNext == \/ \E k \in TextKinds : NewText(k)
         \/ \E f \in {"v4", "v6"}, lc \in LenClasses : NewFromNative(f, lc)
         \/ NewFromNativeBadFamily
         \/ \E f \in {"v4", "v6"} : NewAny(f) \/ NewLoopback(f)
         \/ DoSetFlow \/ DoSetScope
         \/ \E lc \in LenClasses : DoToNative(lc)
         \/ Free
SSpec == SInit /\ [][SNext]_obj
STypeOK == obj \in {"none", "v4", "v6"}
====
