SPECIFICATION TSpec
CONSTANTS Socks = {1,2,3,4,5,6,7,8,9,10,11}
          Mode = "life"
CONSTRAINT HighWater
POSTCONDITION Accepted
CHECK_DEADLOCK FALSE
