SPECIFICATION FairSpec
CONSTANTS Calls = {"send", "recv", "sendto", "recvfrom", "accept"}
          MaxFaults = 3
INVARIANT NeverLeaks
PROPERTY Completes
CHECK_DEADLOCK FALSE
