SPECIFICATION SSpec
CONSTANTS AFInet = 2
 AFInet6 = 10
INVARIANT STypeOK
CHECK_DEADLOCK FALSE
