---- MODULE SockAddr ----
(* P-spec of PSocketAddress (C17): an address value and its conversions.                                  *)
(*                                                                                                        *)
(* A value is [fam (4|6), a (4 or 16 octets, network order), port, flow, scope]; flow and scope are the    *)
(* four bytes of the 32-bit fields as they lie in memory (TLC integers are 32-bit signed, so wide words    *)
(* are never numbers here).  Native(v) is the platform structure as a byte sequence (sockaddr_in /        *)
(* sockaddr_in6 of this platform: family constant in host byte order, port in network order, sin_zero      *)
(* unspecified), FromNative its inverse with the length rules, IsAny / IsLoopback the classification.      *)
(* The text form is not computable here: it comes from the platform (inet_ntop / getaddrinfo) as an        *)
(* oracle table, exactly as the digests of C11 do.                                                         *)
(*                                                                                                        *)
(* SockAddrLife.tla is the object's life cycle over abstract classes (behaviour generator),               *)
(* SockAddrTrace.tla validates recorded conversions against the operators below.                          *)
EXTENDS Integers, Sequences, FiniteSets
CONSTANTS AFInet, AFInet6          \* the platform's family constants (2 and 10 on Linux)

Zeros(n) == [i \in 1..n |-> 0]
NoAddr == [ex |-> FALSE, fam |-> 0, a |-> <<>>, port |-> 0, flow |-> Zeros(4), scope |-> Zeros(4)]
Mk(f, a, p, fl, sc) == [ex |-> TRUE, fam |-> f, a |-> a, port |-> p,
                        flow |-> IF f = 6 THEN fl ELSE Zeros(4), scope |-> IF f = 6 THEN sc ELSE Zeros(4)]
Size(f) == IF f = 4 THEN 16 ELSE 28
PortBE(p) == << p \div 256, p % 256 >>
(* bytes 9..16 of sockaddr_in (sin_zero) carry no information: they are compared as zeros after masking *)
Native(v) == IF v.fam = 4 THEN << AFInet % 256, AFInet \div 256 >> \o PortBE(v.port) \o v.a \o Zeros(8)
             ELSE << AFInet6 % 256, AFInet6 \div 256 >> \o PortBE(v.port) \o v.flow \o v.a \o v.scope
Mask4(b) == [i \in 1..Len(b) |-> IF i > 8 /\ i <= 16 THEN 0 ELSE b[i]]
(* b = the bytes the caller's buffer really has (Len(b) = the length passed); NoAddr = the conversion fails *)
FromNative(b) ==
  IF Len(b) < 2 THEN NoAddr                                   \* not even the family field is there
  ELSE LET fam == b[1] + 256 * b[2] IN
       IF fam = AFInet THEN (IF Len(b) < 16 THEN NoAddr ELSE Mk(4, SubSeq(b, 5, 8), b[3] * 256 + b[4], Zeros(4), Zeros(4)))
       ELSE IF fam = AFInet6 THEN (IF Len(b) < 28 THEN NoAddr ELSE Mk(6, SubSeq(b, 9, 24), b[3] * 256 + b[4], SubSeq(b, 5, 8), SubSeq(b, 25, 28)))
       ELSE NoAddr
IsAny(v) == \A i \in DOMAIN v.a : v.a[i] = 0
IsLoopback(v) == IF v.fam = 4 THEN v.a[1] = 127 ELSE (\A i \in 1..15 : v.a[i] = 0) /\ v.a[16] = 1
(* to_native into a buffer of n bytes: succeeds iff the structure fits *)
ToNativeOK(v, n) == n >= Size(v.fam)
SetFlow(v, fl) == IF v.fam = 6 THEN [v EXCEPT !.flow = fl] ELSE v
SetScope(v, sc) == IF v.fam = 6 THEN [v EXCEPT !.scope = sc] ELSE v

(* ---- the conversions are exact inverses: checked by TLC over a sample of values (SockAddr.cfg) ---- *)
Oct == {0, 1, 127, 128, 255}
Sample4 == { Mk(4, <<a, b, c, d>>, p, Zeros(4), Zeros(4)) : a \in Oct, b \in {0, 255}, c \in {0, 1}, d \in Oct, p \in {0, 1, 255, 256, 65535} }
Sample6 == { Mk(6, <<x, 0, 0, 0, 0, 0, 0, 0, 0, 0, y, y, z, 0, 0, w>>, p, <<f, 0, 0, f>>, <<s, 0, 0, 0>>) :
             x \in {0, 254, 255}, y \in {0, 255}, z \in {0, 127}, w \in {0, 1, 2}, p \in {0, 443, 65535}, f \in {0, 9}, s \in {0, 1, 255} }
RoundTrip == \A v \in Sample4 \cup Sample6 :
               /\ FromNative(Native(v)) = v
               /\ Len(Native(v)) = Size(v.fam)
               /\ \A n \in 0..(Size(v.fam) - 1) : FromNative(SubSeq(Native(v), 1, n)) = NoAddr       \* every shorter buffer is refused
               /\ FromNative(Native(v) \o <<7, 7, 7>>) = v                                             \* a longer buffer is fine
ASSUME RoundTrip
ASSUME \A v \in Sample4 : IsAny(v) <=> v.a = <<0, 0, 0, 0>>
ASSUME \A v \in Sample6 : IsLoopback(v) <=> v.a = Zeros(15) \o <<1>>

====
