---- MODULE SockLoop ----
(* I-spec of the wait - call - classify loop shared by p_socket_send / receive / send_to / receive_from /  *)
(* accept in blocking mode (psocket.c): poll until ready, issue the system call, retry on EINTR and on a   *)
(* would-block result, return on success (possibly a short transfer) - composed with a fault injector that *)
(* chooses the outcome of every system call, at most MaxFaults faults per API call.                        *)
(* The history variable `plan' is the injected fault sequence: each behaviour is one conformance test.     *)
EXTENDS Integers, Sequences, FiniteSets
CONSTANTS Calls, MaxFaults
VARIABLES call,     \* which API call is running
          pc,       \* "poll" | "sys" | "done"
          result,   \* "none" | "ok" | "short" | "EINTR" | "WOULD_BLOCK"
          plan,     \* injected faults so far: sequence of <<system call, outcome>>
          sysseq    \* system calls issued so far
vars == <<call, pc, result, plan, sysseq>>
CanShort(c) == c \in {"send", "recv"}
Init == call \in Calls /\ pc = "poll" /\ result = "none" /\ plan = <<>> /\ sysseq = <<>>
Budget == Len(plan) < MaxFaults
PollEINTR == pc = "poll" /\ Budget /\ plan' = Append(plan, <<"poll", "EINTR">>) /\ sysseq' = Append(sysseq, "poll") /\ UNCHANGED <<call, pc, result>>
PollReady == pc = "poll" /\ pc' = "sys" /\ sysseq' = Append(sysseq, "poll") /\ UNCHANGED <<call, result, plan>>
SysEINTR == pc = "sys" /\ Budget /\ pc' = "poll" /\ plan' = Append(plan, <<call, "EINTR">>) /\ sysseq' = Append(sysseq, call) /\ UNCHANGED <<call, result>>
SysEAGAIN == pc = "sys" /\ Budget /\ pc' = "poll" /\ plan' = Append(plan, <<call, "EAGAIN">>) /\ sysseq' = Append(sysseq, call) /\ UNCHANGED <<call, result>>
SysShort == /\ pc = "sys" /\ Budget /\ CanShort(call) /\ pc' = "done" /\ result' = "short"
            /\ plan' = Append(plan, <<call, "SHORT3">>) /\ sysseq' = Append(sysseq, call) /\ UNCHANGED call
SysOK == pc = "sys" /\ pc' = "done" /\ result' = "ok" /\ sysseq' = Append(sysseq, call) /\ UNCHANGED <<call, plan>>
Next == PollEINTR \/ PollReady \/ SysEINTR \/ SysEAGAIN \/ SysShort \/ SysOK
Spec == Init /\ [][Next]_vars
FairSpec == Spec /\ WF_vars(Next)
(* whatever the injector does, the caller only ever sees a transfer, never an interrupted / would-block error *)
NeverLeaks == pc = "done" => result \in {"ok", "short"}
Completes == <>(pc = "done")
====
