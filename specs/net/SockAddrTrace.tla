---- MODULE SockAddrTrace ----
(* Trace validator for PSocketAddress (C17, harness/drv_addr.c).  Every recorded conversion is judged by the   *)
(* operators of SockAddr: what the native structure must contain, when a conversion must fail, what the        *)
(* getters and the classification must say.  Env TABLE is the platform oracle: for every text passed to        *)
(* p_socket_address_new the platform's verdict (getaddrinfo / inet_pton) and for every address that occurs     *)
(* its text form (inet_ntop).                                                                                  *)
EXTENDS SockAddr, VTrace
VARIABLE cur                     \* the address object under test (NoAddr = none)
tv == <<cur, l>>
Table == ndJsonDeserialize(IOEnv.TABLE)
Parse(t) == Table[CHOOSE i \in 1..Len(Table) : Table[i].k = "parse" /\ Table[i].t = t]
TextOf(f, a) == LET S == {i \in 1..Len(Table) : Table[i].k = "ntop" /\ Table[i].fam = f /\ Table[i].a = a} IN
                IF S = {} THEN -3 ELSE Table[CHOOSE i \in S : TRUE].t
TInit == cur = NoAddr /\ CursorInit
(* creation from text: succeeds exactly for the strings the platform accepts, and stores what the platform parsed *)
TrNew == /\ IsEvent("new") /\ Consume /\ ~cur.ex
         /\ LET p == Parse(Ev.t) IN
            /\ Ev.ok = p.ok
            /\ cur' = IF p.ok = 1 THEN Mk(p.fam, p.a, Ev.port, Zeros(4), p.scope) ELSE NoAddr
(* creation from a native structure of which exactly Ev.len bytes exist *)
TrNat == /\ IsEvent("nat") /\ Consume /\ ~cur.ex /\ Len(Ev.b) = Ev.len
         /\ LET v == FromNative(Ev.b) IN Ev.ok = (IF v.ex THEN 1 ELSE 0) /\ cur' = v
TrAny == /\ IsEvent("any") /\ Consume /\ ~cur.ex /\ Ev.ok = 1
         /\ cur' = Mk(Ev.fam, Zeros(IF Ev.fam = 4 THEN 4 ELSE 16), Ev.port, Zeros(4), Zeros(4))
(* "a loopback address of the family": which one is read back from the object *)
TrLoop == /\ IsEvent("loop") /\ Consume /\ ~cur.ex /\ Ev.ok = 1
          /\ cur' = Mk(Ev.fam, Ev.a, Ev.port, Zeros(4), Zeros(4)) /\ IsLoopback(cur') /\ Len(Ev.a) = (IF Ev.fam = 4 THEN 4 ELSE 16)
TrFlow == IsEvent("flow") /\ Consume /\ cur.ex /\ cur' = SetFlow(cur, Ev.v)
TrScope == IsEvent("scope") /\ Consume /\ cur.ex /\ cur' = SetScope(cur, Ev.v)
(* conversion into a buffer of Ev.len bytes (the driver's buffer has exactly that many, pre-filled with 165) *)
TrToNat == /\ IsEvent("tonat") /\ Consume /\ cur.ex /\ Len(Ev.b) = Ev.len
           /\ Ev.ok = (IF Ev.len > 0 /\ ToNativeOK(cur, Ev.len) THEN 1 ELSE 0)
           /\ Ev.ok = 1 => /\ LET got == SubSeq(Ev.b, 1, Size(cur.fam)) IN (IF cur.fam = 4 THEN Mask4(got) ELSE got) = Native(cur)
                           /\ \A i \in (Size(cur.fam) + 1)..Ev.len : Ev.b[i] = 165          \* nothing written behind the structure
           /\ UNCHANGED cur
(* all getters at once *)
TrObs == /\ IsEvent("obs") /\ Consume /\ cur.ex
         /\ Ev.fam = cur.fam /\ Ev.port = cur.port /\ Ev.flow = cur.flow /\ Ev.scope = cur.scope
         /\ Ev.nsize = Size(cur.fam)
         /\ Ev.any = (IF IsAny(cur) THEN 1 ELSE 0) /\ Ev.loopback = (IF IsLoopback(cur) THEN 1 ELSE 0)
         /\ Ev.text = TextOf(cur.fam, cur.a)
         /\ UNCHANGED cur
TrFree == IsEvent("free") /\ Consume /\ cur' = NoAddr
TrReset == IsEvent("Reset") /\ Consume /\ cur' = NoAddr
TNext == TrNew \/ TrNat \/ TrAny \/ TrLoop \/ TrFlow \/ TrScope \/ TrToNat \/ TrObs \/ TrFree \/ TrReset
TSpec == TInit /\ [][TNext]_tv
====
