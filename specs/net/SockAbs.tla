---- MODULE SockAbs ----
(* P-spec of PSocket (C09 data integrity, C10 modes and life-cycle). Sockets are handles; TCP streams *)
(* are position-coded (the i-th byte ever sent on a connection has a fixed value), so a stream is two  *)
(* counters per direction; UDP datagrams carry an id. Each API call is judged when it returns.        *)
EXTENDS Integers, Sequences, FiniteSets
CONSTANTS Socks
VARIABLES sk,       \* sk[h]: [ex, udp, closed, conn, listening, blocking, timeout, keepalive, backlog, peer, wclosed, via (listener connected to)]
          queue,    \* queue[h]: connections waiting to be accepted on listener h (client handles, oldest first)
          sent,     \* sent[h]: bytes h has handed to the kernel on its connection
          rcvd,     \* rcvd[h]: bytes h has received from its peer
          dg        \* dg[h]: datagrams in flight towards h: set of <<id, len, from>>
kvars == <<sk, queue, sent, rcvd, dg>>
NoSock == [ex |-> FALSE, udp |-> FALSE, closed |-> FALSE, conn |-> FALSE, listening |-> FALSE, blocking |-> TRUE, timeout |-> 0,
           keepalive |-> FALSE, backlog |-> 0, peer |-> 0, wclosed |-> FALSE, via |-> 0]
KInit == /\ sk = [h \in Socks |-> NoSock] /\ queue = [h \in Socks |-> <<>>] /\ sent = [h \in Socks |-> 0]
         /\ rcvd = [h \in Socks |-> 0] /\ dg = [h \in Socks |-> {}]
NotAvailable == 502
InProgress == 505
TimedOut == 509
WouldBlock == 510
Refused == 512
Min2(a, b) == IF a < b THEN a ELSE b
Peer(h) == sk[h].peer
Avail(h) == IF Peer(h) = 0 THEN 0 ELSE sent[Peer(h)] - rcvd[h]
PeerGone(h) == Peer(h) # 0 /\ (sk[Peer(h)].closed \/ sk[Peer(h)].wclosed \/ ~sk[Peer(h)].ex)
(* the getter snapshot [closed, connected, blocking, timeout, keepalive, backlog, fd sign] *)
Getters(r) == <<IF r.closed THEN 1 ELSE 0, IF r.conn THEN 1 ELSE 0, IF r.blocking THEN 1 ELSE 0, r.timeout,
                IF r.keepalive THEN 1 ELSE 0, r.backlog, IF r.closed THEN -1 ELSE 1>>
====
