SPECIFICATION FSpec
CONSTANTS Names = {1, 2}
 Cursors = {1}
INVARIANT FTypeOK
INVARIANT Owed
CHECK_DEADLOCK FALSE
