SPECIFICATION DSpec
CONSTANT Leaky = TRUE
INVARIANT NoLeakAtEnd
CHECK_DEADLOCK FALSE
