---- MODULE ErrObj ----
(* PError objects (perror.c): a record of code, native code and message text with a life cycle; the out-parameter convention      *)
(* p_error_set_error_p (sets only an empty slot, never overwrites); domains derived from the code (>= 600 IPC, >= 500 IO, else     *)
(* none).  Not one of the listed properties (DESIGN.md, "Beyond the listed properties").  Messages are numbers (0 = NULL).         *)
EXTENDS Integers
CONSTANTS Slots, Codes, Msgs
VARIABLE obj                 \* [Slots -> record]: ex = FALSE: the pointer variable is NULL
No == [ex |-> FALSE, code |-> 0, nat |-> 0, msg |-> 0]
Mk(c, n, m) == [ex |-> TRUE, code |-> c, nat |-> n, msg |-> m]
Domain(c) == IF c >= 600 THEN 600 ELSE IF c >= 500 THEN 500 ELSE 0
EInit == obj = [s \in Slots |-> No]
New(s) == ~obj[s].ex /\ obj' = [obj EXCEPT ![s] = Mk(0, 0, 0)]
NewLit(s, c, n, m) == ~obj[s].ex /\ obj' = [obj EXCEPT ![s] = Mk(c, n, m)]
SetError(s, c, n, m) == obj[s].ex /\ obj' = [obj EXCEPT ![s] = Mk(c, n, m)]
SetErrorP(s, c, n, m) == obj' = [obj EXCEPT ![s] = IF @.ex THEN @ ELSE Mk(c, n, m)]        \* the first error stays
SetCode(s, c) == obj[s].ex /\ obj' = [obj EXCEPT ![s].code = c]
SetNative(s, n) == obj[s].ex /\ obj' = [obj EXCEPT ![s].nat = n]
SetMsg(s, m) == obj[s].ex /\ obj' = [obj EXCEPT ![s].msg = m]
Clear(s) == obj[s].ex /\ obj' = [obj EXCEPT ![s] = Mk(0, 0, 0)]
Copy(s, t) == obj[s].ex /\ ~obj[t].ex /\ obj' = [obj EXCEPT ![t] = obj[s]]
Free(s) == obj[s].ex /\ obj' = [obj EXCEPT ![s] = No]
Obs(s) == UNCHANGED obj
ENext == \E s \in Slots :
           \/ New(s) \/ Clear(s) \/ Free(s) \/ Obs(s)
           \/ \E c \in Codes, m \in Msgs : NewLit(s, c, 7, m) \/ SetError(s, c, 8, m) \/ SetErrorP(s, c, 9, m)
           \/ \E c \in Codes : SetCode(s, c) \/ SetNative(s, 5)
           \/ \E m \in Msgs : SetMsg(s, m)
           \/ \E t \in Slots \ {s} : Copy(s, t)
ESpec == EInit /\ [][ENext]_obj
ETypeOK == \A s \in Slots : obj[s].ex \in BOOLEAN /\ (~obj[s].ex => obj[s] = No)
====
