---- MODULE AllocTrace ----
(* Trace validator for the allocation-failure runs of harness/drv_alloc.c (C18). *)
EXTENDS AllocLedger, VTrace
tv == <<lvars, l>>
TInit == LInit /\ CursorInit
TrAlloc == IsEvent("alloc") /\ Consume /\ Alloc(Ev.id, Ev.ok = 1)
TrRealloc == IsEvent("realloc") /\ Consume /\ Realloc(Ev.old, Ev.id, Ev.ok = 1)
TrFree == IsEvent("free") /\ Consume /\ Free(Ev.id)
TrBegin == IsEvent("begin") /\ Consume /\ Begin(Ev.f)
TrEnd == IsEvent("end") /\ Consume /\ End(Ev.f, Ev.res, Ev.consistent, Ev.preserved)
(* a block the documentation says the library keeps (declared by the program, with the reason) leaves the ledger *)
TrResidue == IsEvent("residue") /\ Consume /\ Ev.id \in live /\ live' = live \ {Ev.id} /\ UNCHANGED <<failed, incall, everfail>>
(* ... and what a failed call set up next to the allocator table is gone as well: no mapping of a shared-memory object and no descriptor *)
(* more than before the program started                                                                                           *)
TrQuiesce == IsEvent("quiesce") /\ Consume /\ Quiesce /\ (HasField(Ev, "maps") => Ev.maps = 0 /\ Ev.fds = 0)
(* memory the C library allocated on behalf of a call (it does not pass through the allocator table): nothing unreachable is left *)
TrLsan == IsEvent("lsan") /\ Consume /\ Ev.leaks = 0 /\ UNCHANGED lvars
(* the child process that ran the program must have returned normally: no signal, no sanitizer report *)
TrChild == IsEvent("child") /\ Consume /\ Ev.status = "ok" /\ live' = {} /\ failed' = FALSE /\ incall' = "" /\ everfail' = FALSE
TNext == TrAlloc \/ TrRealloc \/ TrFree \/ TrBegin \/ TrEnd \/ TrResidue \/ TrQuiesce \/ TrLsan \/ TrChild
TSpec == TInit /\ [][TNext]_tv
====
