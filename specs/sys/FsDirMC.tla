---- MODULE FsDirMC ----
(* Design check of FsDir: history variables record what each listing pass returned, so that the promise "a pass over an *)
(* unchanged directory returns exactly its entries, each once" is an invariant TLC can evaluate in every state.          *)
EXTENDS FsDir
VARIABLES snap,      \* [Cursors -> entries present when the pass started]
          seen,      \* [Cursors -> entries returned in this pass]
          twice,     \* [Cursors -> BOOLEAN]: some entry was returned a second time in this pass
          quiet      \* [Cursors -> BOOLEAN]: the name space did not change since the pass started
mv == <<kind, inner, cur, snap, seen, twice, quiet>>
MInit == /\ FInit /\ snap = [c \in Cursors |-> {}] /\ seen = [c \in Cursors |-> {}] /\ twice = [c \in Cursors |-> FALSE] /\ quiet = [c \in Cursors |-> TRUE]
Restart(c) == /\ snap' = [snap EXCEPT ![c] = Present \cup Dots] /\ seen' = [seen EXCEPT ![c] = {}]
              /\ twice' = [twice EXCEPT ![c] = FALSE] /\ quiet' = [quiet EXCEPT ![c] = TRUE]
Disturb == /\ quiet' = [c \in Cursors |-> quiet[c] /\ kind' = kind] /\ UNCHANGED <<snap, seen, twice>>
MMkDir(n) == MkDir(n) /\ Disturb
MRmDir(n) == RmDir(n) /\ Disturb
MMkFile(n) == MkFile(n) /\ Disturb
MRmFile(n) == RmFile(n) /\ Disturb
MInner(n) == (PutInner(n) \/ TakeInner(n)) /\ Disturb
MOpen(c) == Open(c) /\ Restart(c)
MRewind(c) == Rewind(c) /\ Restart(c)
MEnd(c) == End(c) /\ UNCHANGED <<snap, seen, twice, quiet>>
MClose(c) == Close(c) /\ UNCHANGED <<snap, seen, twice, quiet>>
MStep(c, e) == /\ Next(c, e) /\ seen' = [seen EXCEPT ![c] = @ \cup {e}]
               /\ twice' = [twice EXCEPT ![c] = @ \/ e \in seen[c]] /\ UNCHANGED <<snap, quiet>>
MNext == \/ \E n \in Names : MMkDir(n) \/ MRmDir(n) \/ MMkFile(n) \/ MRmFile(n) \/ MInner(n)
         \/ \E c \in Cursors : MOpen(c) \/ MRewind(c) \/ MEnd(c) \/ MClose(c) \/ (\E e \in Names \cup Dots : MStep(c, e))
MSpec == MInit /\ [][MNext]_mv
(* non-vacuity: a rewind that does not go back to the start of the directory must be rejected by QuietPassExact *)
LazyRewind(c) == cur[c].open /\ UNCHANGED fv
BSpec == MInit /\ [][MNext \/ (\E c \in Cursors : LazyRewind(c) /\ Restart(c))]_mv
(* a pass over an unchanged directory: what was returned and what is still owed partition the entries, nothing comes twice, *)
(* and the end is reported only when everything was returned                                                                 *)
QuietPassExact == \A c \in Cursors : (cur[c].open /\ quiet[c]) =>
                     /\ ~twice[c] /\ cur[c].may = {} /\ seen[c] \cup cur[c].must = snap[c] /\ seen[c] \cap cur[c].must = {}
                     /\ snap[c] = Present \cup Dots
(* in any pass: nothing is returned that did not exist at some time during the pass; an entry that exists throughout is owed until returned *)
EndMeansAll == \A c \in Cursors : (cur[c].open /\ cur[c].must = {}) => \A e \in snap[c] \cap (Present \cup Dots) : e \in seen[c] \/ e \in cur[c].may \/ ~quiet[c]
====
