---- MODULE ErrObjTrace ----
(* Trace validator for PError objects (harness/drv_err.c): the recorded call is the ErrObj action with the recorded arguments; *)
(* "obs" compares every getter with the state (message texts are numbered by the check: 0 = NULL, -2 = unknown text).          *)
EXTENDS ErrObj, VTrace
tv == <<obj, l>>
TInit == EInit /\ CursorInit
TrNew == IsEvent("new") /\ Consume /\ Ev.ok = 1 /\ New(Ev.s)
TrNewLit == IsEvent("newlit") /\ Consume /\ Ev.ok = 1 /\ NewLit(Ev.s, Ev.c, Ev.n, Ev.m)
TrSetError == IsEvent("seterror") /\ Consume /\ SetError(Ev.s, Ev.c, Ev.n, Ev.m)
TrSetErrorP == IsEvent("seterrorp") /\ Consume /\ SetErrorP(Ev.s, Ev.c, Ev.n, Ev.m)
TrSetCode == IsEvent("setcode") /\ Consume /\ SetCode(Ev.s, Ev.c)
TrSetNative == IsEvent("setnative") /\ Consume /\ SetNative(Ev.s, Ev.n)
TrSetMsg == IsEvent("setmsg") /\ Consume /\ SetMsg(Ev.s, Ev.m)
TrClear == IsEvent("clear") /\ Consume /\ Clear(Ev.s)
TrCopy == IsEvent("copy") /\ Consume /\ Ev.ok = 1 /\ Copy(Ev.s, Ev.t)
TrFree == IsEvent("free") /\ Consume /\ Free(Ev.s)
(* getters on the slot's pointer, which may be NULL: code 0, native 0, NULL message, no domain *)
TrObs == /\ IsEvent("obs") /\ Consume /\ Ev.ex = (IF obj[Ev.s].ex THEN 1 ELSE 0)
         /\ Ev.code = obj[Ev.s].code /\ Ev.nat = obj[Ev.s].nat /\ Ev.msg = obj[Ev.s].msg /\ Ev.dom = Domain(obj[Ev.s].code)
         /\ Obs(Ev.s)
TrReset == IsEvent("Reset") /\ Consume /\ obj' = [s \in Slots |-> No]
TNext == TrNew \/ TrNewLit \/ TrSetError \/ TrSetErrorP \/ TrSetCode \/ TrSetNative \/ TrSetMsg \/ TrClear \/ TrCopy \/ TrFree \/ TrObs \/ TrReset
TSpec == TInit /\ [][TNext]_tv
====
