SPECIFICATION MSpec
CONSTANTS Names = {1, 2}
 Cursors = {1}
INVARIANT FTypeOK
INVARIANT Owed
INVARIANT InnerOnlyInDirs
INVARIANT QuietPassExact
INVARIANT EndMeansAll
CHECK_DEADLOCK FALSE
