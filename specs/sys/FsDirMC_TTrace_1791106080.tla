---- MODULE FsDirMC_TTrace_1791106080 ----
EXTENDS Sequences, TLCExt, Toolbox, FsDirMC, Naturals, TLC

_expression ==
    LET FsDirMC_TEExpression == INSTANCE FsDirMC_TEExpression
    IN FsDirMC_TEExpression!expression
----

_trace ==
    LET FsDirMC_TETrace == INSTANCE FsDirMC_TETrace
    IN FsDirMC_TETrace!trace
----

_inv ==
    ~(
        TLCGet("level") = Len(_TETrace)
        /\
        cur = (<<[open |-> TRUE, may |-> {1}, must |-> {101, 102}]>>)
        /\
        twice = (<<FALSE>>)
        /\
        kind = (<<"none", "none">>)
        /\
        quiet = (<<TRUE>>)
        /\
        inner = (<<FALSE, FALSE>>)
        /\
        seen = (<<{}>>)
        /\
        snap = (<<{101, 102}>>)
    )
----

_init ==
    /\ seen = _TETrace[1].seen
    /\ inner = _TETrace[1].inner
    /\ quiet = _TETrace[1].quiet
    /\ twice = _TETrace[1].twice
    /\ cur = _TETrace[1].cur
    /\ snap = _TETrace[1].snap
    /\ kind = _TETrace[1].kind
----

_next ==
    /\ \E i,j \in DOMAIN _TETrace:
        /\ \/ /\ j = i + 1
              /\ i = TLCGet("level")
        /\ seen  = _TETrace[i].seen
        /\ seen' = _TETrace[j].seen
        /\ inner  = _TETrace[i].inner
        /\ inner' = _TETrace[j].inner
        /\ quiet  = _TETrace[i].quiet
        /\ quiet' = _TETrace[j].quiet
        /\ twice  = _TETrace[i].twice
        /\ twice' = _TETrace[j].twice
        /\ cur  = _TETrace[i].cur
        /\ cur' = _TETrace[j].cur
        /\ snap  = _TETrace[i].snap
        /\ snap' = _TETrace[j].snap
        /\ kind  = _TETrace[i].kind
        /\ kind' = _TETrace[j].kind

\* Uncomment the ASSUME below to write the states of the error trace
\* to the given file in Json format. Note that you can pass any tuple
\* to `JsonSerialize`. For example, a sub-sequence of _TETrace.
    \* ASSUME
    \*     LET J == INSTANCE Json
    \*         IN J!JsonSerialize("FsDirMC_TTrace_1791106080.json", _TETrace)

=============================================================================

 Note that you can extract this module `FsDirMC_TEExpression`
  to a dedicated file to reuse `expression` (the module in the 
  dedicated `FsDirMC_TEExpression.tla` file takes precedence 
  over the module `FsDirMC_TEExpression` below).

---- MODULE FsDirMC_TEExpression ----
EXTENDS Sequences, TLCExt, Toolbox, FsDirMC, Naturals, TLC

expression == 
    [
        \* To hide variables of the `FsDirMC` spec from the error trace,
        \* remove the variables below.  The trace will be written in the order
        \* of the fields of this record.
        seen |-> seen
        ,inner |-> inner
        ,quiet |-> quiet
        ,twice |-> twice
        ,cur |-> cur
        ,snap |-> snap
        ,kind |-> kind
        
        \* Put additional constant-, state-, and action-level expressions here:
        \* ,_stateNumber |-> _TEPosition
        \* ,_seenUnchanged |-> seen = seen'
        
        \* Format the `seen` variable as Json value.
        \* ,_seenJson |->
        \*     LET J == INSTANCE Json
        \*     IN J!ToJson(seen)
        
        \* Lastly, you may build expressions over arbitrary sets of states by
        \* leveraging the _TETrace operator.  For example, this is how to
        \* count the number of times a spec variable changed up to the current
        \* state in the trace.
        \* ,_seenModCount |->
        \*     LET F[s \in DOMAIN _TETrace] ==
        \*         IF s = 1 THEN 0
        \*         ELSE IF _TETrace[s].seen # _TETrace[s-1].seen
        \*             THEN 1 + F[s-1] ELSE F[s-1]
        \*     IN F[_TEPosition - 1]
    ]

=============================================================================



Parsing and semantic processing can take forever if the trace below is long.
 In this case, it is advised to uncomment the module below to deserialize the
 trace from a generated binary file.

\*
\*---- MODULE FsDirMC_TETrace ----
\*EXTENDS IOUtils, FsDirMC, TLC
\*
\*trace == IODeserialize("FsDirMC_TTrace_1791106080.bin", TRUE)
\*
\*=============================================================================
\*

---- MODULE FsDirMC_TETrace ----
EXTENDS FsDirMC, TLC

trace == 
    <<
    ([cur |-> <<[open |-> FALSE, may |-> {}, must |-> {}]>>,twice |-> <<FALSE>>,kind |-> <<"none", "none">>,quiet |-> <<TRUE>>,inner |-> <<FALSE, FALSE>>,seen |-> <<{}>>,snap |-> <<{}>>]),
    ([cur |-> <<[open |-> FALSE, may |-> {}, must |-> {}]>>,twice |-> <<FALSE>>,kind |-> <<"file", "none">>,quiet |-> <<FALSE>>,inner |-> <<FALSE, FALSE>>,seen |-> <<{}>>,snap |-> <<{}>>]),
    ([cur |-> <<[open |-> TRUE, may |-> {}, must |-> {1, 101, 102}]>>,twice |-> <<FALSE>>,kind |-> <<"file", "none">>,quiet |-> <<TRUE>>,inner |-> <<FALSE, FALSE>>,seen |-> <<{}>>,snap |-> <<{1, 101, 102}>>]),
    ([cur |-> <<[open |-> TRUE, may |-> {1}, must |-> {101, 102}]>>,twice |-> <<FALSE>>,kind |-> <<"none", "none">>,quiet |-> <<FALSE>>,inner |-> <<FALSE, FALSE>>,seen |-> <<{}>>,snap |-> <<{1, 101, 102}>>]),
    ([cur |-> <<[open |-> TRUE, may |-> {1}, must |-> {101, 102}]>>,twice |-> <<FALSE>>,kind |-> <<"none", "none">>,quiet |-> <<TRUE>>,inner |-> <<FALSE, FALSE>>,seen |-> <<{}>>,snap |-> <<{101, 102}>>])
    >>
----


=============================================================================

---- CONFIG FsDirMC_TTrace_1791106080 ----
CONSTANTS
    Names = { 1 , 2 }
    Cursors = { 1 }

INVARIANT
    _inv

CHECK_DEADLOCK
    \* CHECK_DEADLOCK off because of PROPERTY or INVARIANT above.
    FALSE

INIT
    _init

NEXT
    _next

CONSTANT
    _TETrace <- _trace

ALIAS
    _expression
=============================================================================
\* Generated on Sun Oct 04 09:28:01 UTC 2026