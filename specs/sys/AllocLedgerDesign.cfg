SPECIFICATION DSpec
CONSTANT Leaky = FALSE
INVARIANT NoLeakAtEnd
CHECK_DEADLOCK FALSE
