SPECIFICATION TSpec
CONSTANTS Slots = {1, 2, 3}
 Codes = {0}
 Msgs = {0}
CONSTRAINT HighWater
POSTCONDITION Accepted
CHECK_DEADLOCK FALSE
