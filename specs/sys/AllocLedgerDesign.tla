---- MODULE AllocLedgerDesign ----
(* Non-vacuity of the ledger properties: a tiny well-behaved module (a two-slot container whose insert  *)
(* allocates a node) run against the ledger with a failing allocator satisfies them; the variant that   *)
(* forgets to free on the failure path (Leaky) must be rejected by NoLeakAtEnd.                        *)
EXTENDS AllocLedger
CONSTANTS Leaky
VARIABLES nextid, slots, budget, done
dvars == <<lvars, nextid, slots, budget, done>>
DInit == LInit /\ nextid = 1 /\ slots = {} /\ budget = 2 /\ done = FALSE
(* insert: allocates a node and a payload; if the payload fails the node is released (unless Leaky) *)
InsertOK == /\ ~done /\ Cardinality(slots) < 2 /\ incall = ""
            /\ live' = live \cup {nextid, nextid + 1} /\ slots' = slots \cup {<<nextid, nextid + 1>>} /\ nextid' = nextid + 2
            /\ UNCHANGED <<failed, incall, everfail, budget, done>>
InsertFail2 == /\ ~done /\ budget > 0 /\ incall = ""
               /\ live' = IF Leaky THEN live \cup {nextid} ELSE live
               /\ nextid' = nextid + 1 /\ budget' = budget - 1 /\ everfail' = TRUE
               /\ UNCHANGED <<failed, incall, slots, done>>
RemoveAll == /\ ~done /\ incall = "" /\ live' = live \ UNION {{s[1], s[2]} : s \in slots} /\ slots' = {} /\ done' = TRUE
             /\ UNCHANGED <<failed, incall, everfail, nextid, budget>>
DNext == InsertOK \/ InsertFail2 \/ RemoveAll
DSpec == DInit /\ [][DNext]_dvars
NoLeakAtEnd == done => live = {}
====
