---- MODULE ResLedgerMC ----
EXTENDS ResLedger
FP(k) == CASE k = "container" -> {"mem"} [] k = "socket" -> {"mem", "fd"} [] k = "shm" -> {"mem", "map", "sem", "name"}
           [] k = "ini" -> {"mem"} [] OTHER -> {"mem"}
====
