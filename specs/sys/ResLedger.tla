---- MODULE ResLedger ----
(* P-spec for C20 (resource neutrality): everything the library obtains from the system on behalf of  *)
(* objects - table allocations, descriptors, streams, directory streams, mappings, semaphore handles,   *)
(* IPC names, loaded libraries - is a ledger entry; each entry is returned exactly once; when every      *)
(* object has been freed (IPC objects by an owner) the ledger is empty again, also when calls failed.   *)
(* Design level: objects of abstract kinds are created (successfully or not) and released in any order. *)
EXTENDS Integers, Sequences, FiniteSets
CONSTANTS Kinds, MaxObjs, Footprint(_)     \* Footprint(k): the ledger entries (a set of resource classes) a live object of kind k holds
VARIABLES objs,      \* live objects: set of <<id, kind>>
          held,      \* ledger: set of <<id, class>>
          nextid
rvars == <<objs, held, nextid>>
RInit == objs = {} /\ held = {} /\ nextid = 1
(* a successful creation enters the object's footprint into the ledger ... *)
CreateOK(k) == /\ Cardinality(objs) < MaxObjs
               /\ objs' = objs \cup {<<nextid, k>>} /\ held' = held \cup {<<nextid, c>> : c \in Footprint(k)} /\ nextid' = nextid + 1
(* ... a failing one must leave nothing behind, whatever it acquired on the way *)
CreateFail(k) == nextid' = nextid + 1 /\ UNCHANGED <<objs, held>>
Release(o) == o \in objs /\ objs' = objs \ {o} /\ held' = {h \in held : h[1] # o[1]} /\ UNCHANGED nextid
RNext == (\E k \in Kinds : CreateOK(k) \/ CreateFail(k)) \/ (\E o \in objs : Release(o))
RSpec == RInit /\ [][RNext]_rvars
IdBound == nextid <= MaxObjs + 3
Neutral == objs = {} => held = {}
====
