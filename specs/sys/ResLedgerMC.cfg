SPECIFICATION RSpec
CONSTANTS Kinds = {"container", "socket", "shm", "ini"}
          MaxObjs = 3
          Footprint <- FP
CONSTRAINT IdBound
INVARIANT Neutral
CHECK_DEADLOCK FALSE
