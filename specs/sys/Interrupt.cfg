SPECIFICATION FairSpec
CONSTANTS Apis = {"sleep", "sem_acquire", "sem_new", "shm_new", "shm_lock"}
          Req = 3
          MaxIntr = 3
INVARIANT Transparent
PROPERTY Completes
CHECK_DEADLOCK FALSE
