---- MODULE ResTrace ----
(* Trace validator for C20 (harness/drv_res.c). Ledger entries come from link-time wrappers around the system *)
(* calls the library makes and from the user allocator table; acq / rel are the program's own steps; snap is   *)
(* the independent view (/proc/self/fd, /proc/self/maps, /proc/self/task, /dev/shm) at a quiescent point.     *)
EXTENDS Integers, Sequences, FiniteSets, VTrace
VARIABLES mem,      \* live allocation ids
          fds,      \* descriptors opened by the library
          files,    \* FILE streams
          dirs,     \* directory streams
          maps,     \* mappings: set of <<address id, length>>
          sems,     \* open semaphore handles
          names,    \* IPC names created and not yet unlinked: set of <<"shm" | "sem", key>>
          libs,     \* dlopen handles
          base      \* baseline snapshot <<fd count, shm mappings, tasks>>
lv == <<mem, fds, files, dirs, maps, sems, names, libs, base>>
tv == <<lv, l>>
TInit == /\ mem = {} /\ fds = {} /\ files = {} /\ dirs = {} /\ maps = {} /\ sems = <<>> /\ names = {} /\ libs = <<>> /\ base = <<0, 0, 0>> /\ CursorInit

TrAlloc == IsEvent("alloc") /\ Consume /\ (IF Ev.ok = 1 THEN Ev.id \notin mem /\ mem' = mem \cup {Ev.id} ELSE mem' = mem) /\ UNCHANGED <<fds, files, dirs, maps, sems, names, libs, base>>
TrRealloc == IsEvent("realloc") /\ Consume /\ (Ev.old # 0 => Ev.old \in mem) /\ (IF Ev.ok = 1 THEN mem' = (mem \ {Ev.old}) \cup {Ev.id} ELSE mem' = mem) /\ UNCHANGED <<fds, files, dirs, maps, sems, names, libs, base>>
TrFree == IsEvent("free") /\ Consume /\ Ev.id \in mem /\ mem' = mem \ {Ev.id} /\ UNCHANGED <<fds, files, dirs, maps, sems, names, libs, base>>
(* descriptors: every one the library opens is closed exactly once, and nothing else is closed *)
TrFdOpen == IsEvent("fd_open") /\ Consume /\ (IF Ev.fd >= 0 THEN Ev.fd \notin fds /\ fds' = fds \cup {Ev.fd} ELSE fds' = fds) /\ UNCHANGED <<mem, files, dirs, maps, sems, names, libs, base>>
TrFdClose == IsEvent("fd_close") /\ Consume /\ Ev.fd \in fds /\ fds' = fds \ {Ev.fd} /\ UNCHANGED <<mem, files, dirs, maps, sems, names, libs, base>>
TrFileOpen == IsEvent("file_open") /\ Consume /\ (IF Ev.id > 0 THEN files' = files \cup {Ev.id} ELSE files' = files) /\ UNCHANGED <<mem, fds, dirs, maps, sems, names, libs, base>>
TrFileClose == IsEvent("file_close") /\ Consume /\ Ev.id \in files /\ files' = files \ {Ev.id} /\ UNCHANGED <<mem, fds, dirs, maps, sems, names, libs, base>>
TrDirOpen == IsEvent("dir_open") /\ Consume /\ (IF Ev.id > 0 THEN dirs' = dirs \cup {Ev.id} ELSE dirs' = dirs) /\ UNCHANGED <<mem, fds, files, maps, sems, names, libs, base>>
TrDirClose == IsEvent("dir_close") /\ Consume /\ Ev.id \in dirs /\ dirs' = dirs \ {Ev.id} /\ UNCHANGED <<mem, fds, files, maps, sems, names, libs, base>>
(* a mapping is removed with exactly the length it was made with *)
TrMmap == IsEvent("mmap") /\ Consume /\ (IF Ev.id > 0 THEN maps' = maps \cup {<<Ev.id, Ev.len>>} ELSE maps' = maps) /\ UNCHANGED <<mem, fds, files, dirs, sems, names, libs, base>>
TrMunmap == IsEvent("munmap") /\ Consume /\ <<Ev.id, Ev.len>> \in maps /\ maps' = maps \ {<<Ev.id, Ev.len>>} /\ UNCHANGED <<mem, fds, files, dirs, sems, names, libs, base>>
(* the C library hands out one reference-counted handle per name and process: handles and loaded libraries are bags *)
Inc(b, x) == [y \in (DOMAIN b) \cup {x} |-> IF y = x THEN (IF x \in DOMAIN b THEN b[x] + 1 ELSE 1) ELSE b[y]]
Dec(b, x) == [y \in {z \in DOMAIN b : z # x \/ b[z] > 1} |-> IF y = x THEN b[y] - 1 ELSE b[y]]
TrSemOpen == /\ IsEvent("sem_open") /\ Consume
             /\ (IF Ev.id > 0 THEN sems' = Inc(sems, Ev.id) ELSE sems' = sems)
             /\ names' = (IF Ev.id > 0 /\ Ev.created = 1 THEN names \cup {<<"sem", Ev.key>>} ELSE names)
             /\ UNCHANGED <<mem, fds, files, dirs, maps, libs, base>>
TrSemClose == IsEvent("sem_close") /\ Consume /\ Ev.id \in DOMAIN sems /\ sems' = Dec(sems, Ev.id) /\ UNCHANGED <<mem, fds, files, dirs, maps, names, libs, base>>
TrSemUnlink == IsEvent("sem_unlink") /\ Consume /\ names' = names \ {<<"sem", Ev.key>>} /\ UNCHANGED <<mem, fds, files, dirs, maps, sems, libs, base>>
TrShmOpen == /\ IsEvent("shm_open") /\ Consume
             /\ (IF Ev.fd >= 0 THEN Ev.fd \notin fds /\ fds' = fds \cup {Ev.fd} ELSE fds' = fds)
             /\ names' = (IF Ev.fd >= 0 /\ Ev.created = 1 THEN names \cup {<<"shm", Ev.key>>} ELSE names)
             /\ UNCHANGED <<mem, files, dirs, maps, sems, libs, base>>
TrShmUnlink == IsEvent("shm_unlink") /\ Consume /\ names' = names \ {<<"shm", Ev.key>>} /\ UNCHANGED <<mem, fds, files, dirs, maps, sems, libs, base>>
TrDlOpen == IsEvent("dlopen") /\ Consume /\ (IF Ev.id > 0 THEN libs' = Inc(libs, Ev.id) ELSE libs' = libs) /\ UNCHANGED <<mem, fds, files, dirs, maps, sems, names, base>>
TrDlClose == IsEvent("dlclose") /\ Consume /\ Ev.id \in DOMAIN libs /\ libs' = Dec(libs, Ev.id) /\ UNCHANGED <<mem, fds, files, dirs, maps, sems, names, base>>
TrResidue == IsEvent("residue") /\ Consume /\ Ev.id \in mem /\ mem' = mem \ {Ev.id} /\ UNCHANGED <<fds, files, dirs, maps, sems, names, libs, base>>
(* a failed p_socket_new_from_fd leaves the caller's descriptor open (it was never the library's) *)
TrCallerFd == IsEvent("caller_fd") /\ Consume /\ Ev.alive = 1 /\ Ev.fd \notin fds /\ UNCHANGED lv
TrStep == (IsEvent("acq") \/ IsEvent("rel") \/ IsEvent("sysfail")) /\ Consume /\ UNCHANGED lv
TrBaseline == IsEvent("baseline") /\ Consume /\ base' = <<Ev.nfd, Ev.nshmmaps, Ev.ntasks>> /\ UNCHANGED <<mem, fds, files, dirs, maps, sems, names, libs>>
(* every object has been freed: the ledger is empty and the independent snapshot equals the baseline *)
TrQuiesce == /\ IsEvent("quiesce") /\ Consume
             /\ mem = {} /\ fds = {} /\ files = {} /\ dirs = {} /\ maps = {} /\ sems = <<>> /\ names = {} /\ libs = <<>>
             /\ Ev.nfd = base[1] /\ Ev.nshmmaps = base[2] /\ Ev.ntasks = base[3] /\ Ev.names_left = 0
             /\ UNCHANGED lv
TrReset == IsEvent("Reset") /\ Consume /\ mem' = {} /\ fds' = {} /\ files' = {} /\ dirs' = {} /\ maps' = {} /\ sems' = <<>> /\ names' = {} /\ libs' = <<>> /\ UNCHANGED base
TNext == TrAlloc \/ TrRealloc \/ TrFree \/ TrFdOpen \/ TrFdClose \/ TrFileOpen \/ TrFileClose \/ TrDirOpen \/ TrDirClose \/ TrMmap \/ TrMunmap
         \/ TrSemOpen \/ TrSemClose \/ TrSemUnlink \/ TrShmOpen \/ TrShmUnlink \/ TrDlOpen \/ TrDlClose \/ TrResidue \/ TrCallerFd \/ TrStep \/ TrBaseline \/ TrQuiesce \/ TrReset
TSpec == TInit /\ [][TNext]_tv
====
