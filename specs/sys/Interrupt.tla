---- MODULE Interrupt ----
(* I-spec of how the library must treat an interrupted blocking system call (C19): the call is issued  *)
(* again until it completes; a sleep is re-issued with the REMAINING time, so the time slept in total   *)
(* is at least what was requested; the API result is the result of the uninterrupted call.             *)
(* A fault injector interrupts any issued call, at most MaxIntr times per API call. Time is abstract:   *)
(* a sleep of Req ticks, an interruption arrives after 0..remaining-1 ticks.                           *)
EXTENDS Integers, Sequences
CONSTANTS Apis, Req, MaxIntr
VARIABLES api,      \* the API call in progress
          pc,       \* "issue" | "insys" | "done"
          remaining,\* ticks still to sleep (sleep only)
          slept,    \* ticks slept so far
          nintr,    \* interruptions so far
          result    \* "none" | "ok" | "EINTR"
vars == <<api, pc, remaining, slept, nintr, result>>
Init == api \in Apis /\ pc = "issue" /\ remaining = Req /\ slept = 0 /\ nintr = 0 /\ result = "none"
Issue == pc = "issue" /\ pc' = "insys" /\ UNCHANGED <<api, remaining, slept, nintr, result>>
(* the kernel reports the interruption; for a sleep it also reports how much time is left *)
Interrupted == /\ pc = "insys" /\ nintr < MaxIntr
               /\ IF api = "sleep"
                  THEN \E d \in 0..(remaining - 1) : slept' = slept + d /\ remaining' = remaining - d
                  ELSE UNCHANGED <<slept, remaining>>
               /\ nintr' = nintr + 1 /\ pc' = "issue" /\ UNCHANGED <<api, result>>      \* the library issues the same call again
Completed == /\ pc = "insys" /\ pc' = "done" /\ result' = "ok"
             /\ slept' = IF api = "sleep" THEN slept + remaining ELSE slept
             /\ remaining' = (IF api = "sleep" THEN 0 ELSE remaining) /\ UNCHANGED <<api, nintr>>
Next == Issue \/ Interrupted \/ Completed
Spec == Init /\ [][Next]_vars
FairSpec == Spec /\ WF_vars(Issue) /\ WF_vars(Completed)
Transparent == pc = "done" => (result = "ok" /\ (api = "sleep" => slept >= Req))
Completes == <>(pc = "done")
====
