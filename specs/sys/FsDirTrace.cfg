SPECIFICATION TSpec
CONSTANTS Names = {1, 2, 3}
 Cursors = {1, 2}
CONSTRAINT HighWater
POSTCONDITION Accepted
CHECK_DEADLOCK FALSE
