---- MODULE InterruptTrace ----
(* Trace validator for C19 (harness/drv_intr.c): blocking library calls under a storm of handled signals *)
(* (handlers installed without SA_RESTART) and under EINTR injected into the underlying system calls.   *)
(* icall / isys / iret events: the API call, every blocking system call it made with its outcome, the    *)
(* API result. The call's outcome must be that of the uninterrupted call.                              *)
EXTENDS Integers, Sequences, VTrace
VARIABLES cur,     \* API call in progress: [op, ms] or NoCall
          nint,    \* EINTR outcomes seen during it
          units    \* model of the semaphore counter used by the acquire scenarios
tv == <<cur, nint, units, l>>
NoCall == [op |-> "", ms |-> 0]
TInit == cur = NoCall /\ nint = 0 /\ units = 0 /\ CursorInit
TrSetUnits == IsEvent("units") /\ Consume /\ units' = Ev.v /\ UNCHANGED <<cur, nint>>
TrCall == IsEvent("icall") /\ Consume /\ cur = NoCall /\ cur' = [op |-> Ev.op, ms |-> Ev.ms] /\ nint' = 0 /\ UNCHANGED units
(* a system call made on behalf of the API call; after an interrupted one the same call must be issued again *)
TrSys == /\ IsEvent("isys") /\ Consume /\ cur # NoCall
         /\ nint' = IF Ev.eintr = 1 THEN nint + 1 ELSE nint
         /\ UNCHANGED <<cur, units>>
TrRet == /\ IsEvent("iret") /\ Consume /\ cur.op = Ev.op
         /\ CASE Ev.op = "sleep" -> Ev.res = 0 /\ Ev.elapsed >= cur.ms /\ UNCHANGED units      \* returns 0 only after at least the requested time
              [] Ev.op = "acquire" -> Ev.res = 1 /\ units > 0 /\ Ev.val = units - 1 /\ units' = units - 1   \* returns only with the unit taken
              [] Ev.op = "release" -> Ev.res = 1 /\ units' = units + 1
              [] Ev.op = "shmlock" -> Ev.res = 1 /\ units > 0 /\ units' = units - 1
              [] Ev.op = "shmunlock" -> Ev.res = 1 /\ units' = units + 1
              [] Ev.op = "shmopen" -> Ev.res = 1 /\ Ev.val = 3 /\ UNCHANGED units      \* opened - and it is the segment that was there: same bytes, name left in place by the non-owner's free
              [] Ev.op = "semopen" -> Ev.res = 1 /\ Ev.val = 1 /\ UNCHANGED units      \* opened - and it is the semaphore that was there
              [] Ev.op \in {"semnew", "shmnew", "semfree", "shmfree", "semcreate"} -> Ev.res = 1 /\ UNCHANGED units               \* creating / opening IPC objects still succeeds
              [] OTHER -> FALSE
         /\ cur' = NoCall /\ nint' = 0
(* a helper thread gives a unit back (semaphore release / segment unlock) while the thread under test is blocked *)
TrBgRelease == IsEvent("bgrelease") /\ Consume /\ units' = units + 1 /\ UNCHANGED <<cur, nint>>
(* a handler that ran during an interrupted close opened a descriptor (it gets the number the interrupted close released): the library *)
(* call that was interrupted must leave that descriptor alone - an interrupted close is complete and is not issued again               *)
TrHandlerFd == IsEvent("hfd") /\ Consume /\ cur = NoCall /\ Ev.ok = 1 /\ UNCHANGED <<cur, nint, units>>
TNext == TrSetUnits \/ TrCall \/ TrSys \/ TrRet \/ TrBgRelease \/ TrHandlerFd
TSpec == TInit /\ [][TNext]_tv
====
