---- MODULE FsDirTrace ----
(* Trace validator for PDir / PFile (harness/drv_fs.c): every recorded call is an action of FsDir taken with the recorded  *)
(* arguments, and its recorded result is the one FsDir derives from the state.  Error codes: 0 = no error object,          *)
(* 507 invalid argument, 515 is a directory, 516 not a directory, 518 exists, 519 does not exist (perrortypes.h).          *)
EXTENDS FsDir, VTrace, Sequences
tv == <<kind, inner, cur, l>>
TInit == FInit /\ CursorInit
ErrOf(res) == CASE res = "ok" -> 0 [] res = "exists" -> 518 [] res = "notexists" -> 519 [] res = "isdir" -> 515 [] res = "notdir" -> 516 [] OTHER -> -1
(* result of a call that must succeed or fail as FsDir says; "notempty" only has to fail with some error *)
Outcome(res) == IF res = "ok" THEN Ev.ok = 1 /\ Ev.err = 0
                ELSE Ev.ok = 0 /\ (IF res = "notempty" THEN Ev.err # 0 ELSE Ev.err = ErrOf(res))
B(x) == IF x THEN 1 ELSE 0
TrMkDir == IsEvent("mkdir") /\ Consume /\ Outcome(MkDirRes(Ev.n)) /\ MkDir(Ev.n)
TrRmDir == IsEvent("rmdir") /\ Consume /\ Outcome(RmDirRes(Ev.n)) /\ RmDir(Ev.n)
TrMkFile == IsEvent("mkfile") /\ Consume /\ MkFile(Ev.n)
TrRmFile == IsEvent("rmfile") /\ Consume /\ Outcome(RmFileRes(Ev.n)) /\ RmFile(Ev.n)
TrPut == IsEvent("put") /\ Consume /\ PutInner(Ev.n)
TrTake == IsEvent("take") /\ Consume /\ Ev.ok = 1 /\ Ev.err = 0 /\ TakeInner(Ev.n)
TrOpen == IsEvent("open") /\ Consume /\ Ev.ok = 1 /\ Ev.err = 0 /\ Ev.pathok = 1 /\ Open(Ev.c)
(* p_dir_new on an entry of the test directory; a directory is listed to its end and freed inside the same step *)
TrOpenOn == /\ IsEvent("openon") /\ Consume /\ Outcome(OpenOnRes(Ev.n))
            /\ (Ev.ok = 1 => /\ {Ev.names[i] : i \in 1..Len(Ev.names)} = SubListing(Ev.n) /\ Len(Ev.names) = Cardinality(SubListing(Ev.n))
                             /\ \A i \in 1..Len(Ev.names) : Ev.types[i] = (IF Ev.names[i] = 103 THEN "file" ELSE "dir"))
            /\ OpenOn(Ev.n)
TrNext == IsEvent("next") /\ Consume /\ Ev.n \in Names \cup Dots /\ Ev.type = TypeNow(Ev.n) /\ Next(Ev.c, Ev.n)
TrEnd == IsEvent("end") /\ Consume /\ Ev.err = 0 /\ End(Ev.c)
TrRewind == IsEvent("rewind") /\ Consume /\ Ev.ok = 1 /\ Rewind(Ev.c)
TrClose == IsEvent("close") /\ Consume /\ Close(Ev.c)
(* existence queries for every name *)
TrObs == /\ IsEvent("obs") /\ Consume /\ \A n \in Names : Ev.d[n] = B(DirExists(n)) /\ Ev.f[n] = B(FileExists(n))
         /\ Probe
(* NULL arguments: every call fails, the ones with an error parameter report "invalid argument" *)
TrNull == IsEvent("null") /\ Consume /\ Ev.r = <<0, 507, 0, 507, 0, 507, 0, 507, 0, 507, 0, 0, 0, 0, 507>> /\ Probe
TrReset == IsEvent("Reset") /\ Consume /\ kind' = [n \in Names |-> "none"] /\ inner' = [n \in Names |-> FALSE] /\ cur' = [c \in Cursors |-> Closed]
TNext == TrMkDir \/ TrRmDir \/ TrMkFile \/ TrRmFile \/ TrPut \/ TrTake \/ TrOpen \/ TrOpenOn \/ TrNext \/ TrEnd \/ TrRewind \/ TrClose \/ TrObs \/ TrNull \/ TrReset
TSpec == TInit /\ [][TNext]_tv
====
