---- MODULE FsDir ----
(* Directory and file name space as PDir / PFile present it (pdir-posix.c, pdir.c, pfile.c).  Not one of the listed          *)
(* properties: this module extends the specification to the directory API (see DESIGN.md, "Beyond the listed properties"). *)
(*                                                                                                                            *)
(* One test directory holds the entries Names; an entry is absent, a regular file, or a directory that may itself hold one  *)
(* file.  A PDir object is a cursor over the test directory.  What a listing pass promises:                                  *)
(*   - every entry that exists from the start of the pass (open / rewind) until the pass reports its end is returned,       *)
(*     exactly once, together with "." and "..";                                                                             *)
(*   - an entry that was created or removed during the pass may or may not be returned (the C library reads the directory  *)
(*     in blocks), but never more than once per appearance, and nothing is returned that did not exist during the pass;    *)
(*   - the type reported with a name is the type the entry has when it is returned ("other" if it is gone by then);        *)
(*   - cursors are independent of each other.                                                                                *)
(* Creation / removal calls: p_dir_create succeeds on an existing directory and fails on an existing file; p_dir_remove     *)
(* needs an existing, empty directory; p_file_remove needs a regular file.                                                  *)
EXTENDS Naturals, FiniteSets
CONSTANTS Names,        \* entry names of the test directory (positive numbers; the harness maps them to strings)
          Cursors       \* PDir objects
Dot == 101
DotDot == 102
Dots == {Dot, DotDot}
VARIABLES kind,         \* [Names -> {"none", "file", "dir"}]
          inner,        \* [Names -> BOOLEAN]: directory n holds a file
          cur           \* [Cursors -> cursor]
fv == <<kind, inner, cur>>
Closed == [open |-> FALSE, must |-> {}, may |-> {}]
Present == {n \in Names : kind[n] # "none"}
Fresh == [open |-> TRUE, must |-> Present \cup Dots, may |-> {}]
FInit == /\ kind = [n \in Names |-> "none"] /\ inner = [n \in Names |-> FALSE] /\ cur = [c \in Cursors |-> Closed]

(* an entry appears: open passes may or may not see it *)
Appear(n) == cur' = [c \in Cursors |-> IF cur[c].open THEN [cur[c] EXCEPT !.may = @ \cup {n}] ELSE cur[c]]
(* an entry vanishes: a pass that still owed it may still return it (from a block read earlier), but need not *)
Vanish(n) == cur' = [c \in Cursors |-> IF cur[c].open THEN [cur[c] EXCEPT !.must = @ \ {n}, !.may = @ \cup ({n} \cap cur[c].must)] ELSE cur[c]]

(* ---- results of the calls, as functions of the state *)
MkDirRes(n) == IF kind[n] = "file" THEN "exists" ELSE "ok"
RmDirRes(n) == IF kind[n] # "dir" THEN "notexists" ELSE IF inner[n] THEN "notempty" ELSE "ok"
RmFileRes(n) == IF kind[n] = "file" THEN "ok" ELSE IF kind[n] = "dir" THEN "isdir" ELSE "notexists"
OpenOnRes(n) == IF kind[n] = "dir" THEN "ok" ELSE IF kind[n] = "file" THEN "notdir" ELSE "notexists"
DirExists(n) == kind[n] = "dir"
FileExists(n) == kind[n] # "none"          \* p_file_is_exists is access(F_OK): true for whatever has that name
TypeNow(e) == IF e \in Dots THEN "dir" ELSE IF kind[e] = "none" THEN "other" ELSE kind[e]
SubListing(n) == Dots \cup (IF inner[n] THEN {103} ELSE {})

(* ---- name space actions *)
MkDir(n) == /\ kind' = [kind EXCEPT ![n] = IF @ = "none" THEN "dir" ELSE @]
            /\ IF kind[n] = "none" THEN Appear(n) ELSE UNCHANGED cur
            /\ UNCHANGED inner
RmDir(n) == IF RmDirRes(n) = "ok" THEN kind' = [kind EXCEPT ![n] = "none"] /\ Vanish(n) /\ UNCHANGED inner ELSE UNCHANGED fv
MkFile(n) == kind[n] = "none" /\ kind' = [kind EXCEPT ![n] = "file"] /\ Appear(n) /\ UNCHANGED inner      \* the environment creates a file
RmFile(n) == IF RmFileRes(n) = "ok" THEN kind' = [kind EXCEPT ![n] = "none"] /\ Vanish(n) /\ UNCHANGED inner ELSE UNCHANGED fv
PutInner(n) == kind[n] = "dir" /\ ~inner[n] /\ inner' = [inner EXCEPT ![n] = TRUE] /\ UNCHANGED <<kind, cur>>
TakeInner(n) == kind[n] = "dir" /\ inner[n] /\ inner' = [inner EXCEPT ![n] = FALSE] /\ UNCHANGED <<kind, cur>>     \* p_file_remove of the inner file
(* ---- cursor actions *)
Open(c) == ~cur[c].open /\ cur' = [cur EXCEPT ![c] = Fresh] /\ UNCHANGED <<kind, inner>>
OpenOn(n) == UNCHANGED fv                       \* p_dir_new on an entry: fails unless it is a directory; a directory is listed and freed at once
Next(c, e) == /\ cur[c].open /\ e \in cur[c].must \cup cur[c].may
              /\ cur' = [cur EXCEPT ![c].must = @ \ {e}, ![c].may = @ \ {e}] /\ UNCHANGED <<kind, inner>>
End(c) == cur[c].open /\ cur[c].must = {} /\ UNCHANGED fv
Rewind(c) == cur[c].open /\ cur' = [cur EXCEPT ![c] = Fresh] /\ UNCHANGED <<kind, inner>>
Close(c) == cur[c].open /\ cur' = [cur EXCEPT ![c] = Closed] /\ UNCHANGED <<kind, inner>>
Probe == UNCHANGED fv                            \* the existence queries and the NULL-argument calls change nothing
FNext == \/ \E n \in Names : MkDir(n) \/ RmDir(n) \/ MkFile(n) \/ RmFile(n) \/ PutInner(n) \/ TakeInner(n) \/ OpenOn(n)
         \/ \E c \in Cursors : Open(c) \/ End(c) \/ Rewind(c) \/ Close(c) \/ (\E e \in Names \cup Dots : Next(c, e))
         \/ Probe
FSpec == FInit /\ [][FNext]_fv
FTypeOK == /\ kind \in [Names -> {"none", "file", "dir"}] /\ inner \in [Names -> BOOLEAN]
           /\ \A c \in Cursors : cur[c].open \in BOOLEAN /\ cur[c].must \subseteq Names \cup Dots /\ cur[c].may \subseteq Names \cup Dots
(* what a pass still owes exists, and is not also merely possible; only directories hold something *)
Owed == \A c \in Cursors : /\ cur[c].must \subseteq Present \cup Dots /\ cur[c].must \cap cur[c].may = {}
                           /\ (~cur[c].open => cur[c].must = {} /\ cur[c].may = {})
InnerOnlyInDirs == \A n \in Names : inner[n] => kind[n] = "dir"
====
