SPECIFICATION ESpec
CONSTANTS Slots = {1, 2}
 Codes = {1}
 Msgs = {0, 1}
INVARIANT ETypeOK
CHECK_DEADLOCK FALSE
