---- MODULE AllocLedger ----
(* Ledger P-spec for C18 (allocation failure at any point) and the memory part of C20.              *)
(* The library allocates through the user-supplied table; every allocator call, every public call    *)
(* (begin / end with what the program observed) and the end of the program (everything freed) is an   *)
(* event. The spec asks no more than the property: blocks are freed only while live and once; a call  *)
(* in which an allocation failed returns normally with a failure / degraded result that leaves the    *)
(* objects consistent and pre-existing objects unchanged; nothing stays allocated at the end.         *)
EXTENDS Integers, Sequences, FiniteSets
VARIABLES live,      \* ids of blocks currently allocated through the table
          failed,    \* an allocation has been refused during the call in progress
          incall,    \* name of the public call in progress ("" = none)
          everfail   \* some allocation was refused in this program run
lvars == <<live, failed, incall, everfail>>
LInit == live = {} /\ failed = FALSE /\ incall = "" /\ everfail = FALSE
Alloc(id, ok) == /\ IF ok THEN id \notin live /\ live' = live \cup {id} ELSE live' = live
                 /\ failed' = (failed \/ ~ok) /\ everfail' = (everfail \/ ~ok) /\ UNCHANGED incall
(* realloc: on success the old block is gone and the new one live; on failure the old block stays valid *)
Realloc(old, id, ok) == /\ (old # 0 => old \in live)
                        /\ IF ok THEN live' = (live \ {old}) \cup {id} ELSE live' = live
                        /\ failed' = (failed \/ ~ok) /\ everfail' = (everfail \/ ~ok) /\ UNCHANGED incall
Free(id) == id \in live /\ live' = live \ {id} /\ UNCHANGED <<failed, incall, everfail>>
Begin(f) == incall = "" /\ incall' = f /\ failed' = FALSE /\ UNCHANGED <<live, everfail>>
(* res: "ok" | "fail" | "degraded"; consistent / preserved are what the program observed through the public API *)
End(f, res, consistent, preserved) ==
    /\ incall = f /\ incall' = ""
    /\ consistent = 1 /\ preserved = 1
    /\ ~failed => res = "ok"                 \* without a refused allocation the call behaves as usual
    /\ UNCHANGED <<live, failed, everfail>>
Quiesce == incall = "" /\ live = {} /\ UNCHANGED lvars
====
