#!/bin/bash
# usage: confirm_seed.sh <worktree dir> <seed id> <property id> [cmake options]
# Confirms a seeded change in its scratch worktree: existing tests pass with it, the demo fails with it and passes
# without it; then stores patch, demo and a log under /verif/seeded/<seed id>/.
set -u
W=$1; SID=$2; PID=$3; shift 3; OPTS="$*"
OUT=/verif/seeded/$SID; mkdir -p $OUT
LOG=$OUT/confirm.log; : > $LOG
cd $W || exit 2
find demo -maxdepth 1 -type d -name "_*" -exec rm -rf {} + 2>/dev/null     # stale build directories inside the demo
cp mutation.diff $OUT/patch.diff
rm -rf $OUT/demo; cp -r demo $OUT/demo 2>/dev/null
cp MUTATION.md $OUT/MUTATION.md 2>/dev/null
echo "== mutated tree: build + existing test suite ($OPTS)" >> $LOG
git -C $W diff --stat -- src >> $LOG
rm -rf _cb && cmake -G Ninja -S . -B _cb -DCMAKE_BUILD_TYPE=Debug $OPTS >/dev/null 2>&1 && cmake --build _cb >/dev/null 2>&1 || { echo "BUILD FAILED" >> $LOG; exit 1; }
ctest --test-dir _cb -j8 --timeout 900 2>&1 | tail -5 >> $LOG
TESTS_OK=$(grep -c "100% tests passed" $LOG)
echo "== demo on the mutated tree (expect non-zero)" >> $LOG
( cd demo && ROOT=$W SRC_ROOT=$W timeout 900 bash run.sh ) >> $LOG 2>&1; RM=$?
echo "exit=$RM" >> $LOG
echo "== demo on the clean tree (expect 0)" >> $LOG
rm -rf /tmp/mut/clean_$SID && git -C /repo worktree add -q --detach /tmp/mut/clean_$SID HEAD && cd /tmp/mut/clean_$SID && cmake -G Ninja -S . -B _build -DCMAKE_BUILD_TYPE=Debug $OPTS >/dev/null 2>&1 && cmake --build _build >/dev/null 2>&1
# demos locate the tree either through $ROOT / $SRC_ROOT or relative to their own directory: run a copy placed inside the clean tree
find $W/demo -maxdepth 1 -type d -name "_*" -exec rm -rf {} + 2>/dev/null
cp -r $W/demo /tmp/mut/clean_$SID/demo
( cd /tmp/mut/clean_$SID/demo && ROOT=/tmp/mut/clean_$SID SRC_ROOT=/tmp/mut/clean_$SID BUILD=/tmp/mut/clean_$SID/_build timeout 900 bash run.sh ) >> $LOG 2>&1; RC=$?
echo "exit=$RC" >> $LOG
git -C /repo worktree remove --force /tmp/mut/clean_$SID
echo "RESULT tests_ok=$TESTS_OK demo_mutated_exit=$RM demo_clean_exit=$RC" | tee -a $LOG
