"""Trace munging: merge per-actor files by the shared sequence number, annotate calls with results."""
import glob, json, os


def merge(base, annotate=None, out=None, key="t"):
    """merge base.<actor> files (each line has "s") into one ndjson ordered by s.
    annotate: dict mapping ret-field -> call-field copied from each call's matching ret (same actor)."""
    evs = []
    for f in glob.glob(base + ".*"):
        suf = f[len(base) + 1:]
        if not suf.isdigit():
            continue
        with open(f) as fh:
            for line in fh:
                line = line.strip()
                if line:
                    try:
                        evs.append(json.loads(line))
                    except ValueError:
                        pass   # truncated last line of a killed actor
    evs.sort(key=lambda e: e["s"])
    if annotate:
        pending = {}
        for e in evs:
            if e.get("e") == "call":
                pending[e[key]] = e
                for rf, cf in annotate.items():
                    e.setdefault(cf, None)
            elif e.get("e") == "ret" and e[key] in pending:
                c = pending.pop(e[key])
                for rf, cf in annotate.items():
                    c[cf] = e.get(rf)
    out = out or base + ".ndjson"
    with open(out, "w") as fh:
        for e in evs:
            fh.write(json.dumps(e, separators=(",", ":")) + "\n")
    return out, evs


def split_at(evs, marker, maxev):
    """split an event list into chunks of <= maxev events, cutting only before marker events"""
    chunks, cur = [], []
    for e in evs:
        if e.get("e") == marker and len(cur) >= maxev:
            chunks.append(cur)
            cur = []
        cur.append(e)
    if cur:
        chunks.append(cur)
    return chunks


def write(evs, path):
    with open(path, "w") as fh:
        for e in evs:
            fh.write(json.dumps(e, separators=(",", ":")) + "\n")
    return path
