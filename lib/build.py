"""Build layer: compiles /repo/src (current working tree) into static archives per variant,
and links harness drivers against them. Nothing is taken from /repo/_build.

Variant string: '+'-joined tokens out of
  c11|sync|sim   atomic/spinlock model (default c11)
  general        portable rwlock model (default posix)
  asan           -fsanitize=address,undefined
  tsan           -fsanitize=thread
Hooks guarded by -DPLIBSYS_VERIF are always enabled in these builds.
"""
import fcntl, hashlib, json, os, shlex, shutil, subprocess, sys, time
from concurrent.futures import ThreadPoolExecutor

VERIF = os.path.dirname(os.path.dirname(os.path.abspath(__file__)))
REPO = os.environ.get("VERIF_REPO", "/repo")
BUILD = os.path.join(VERIF, "build")
if REPO != "/repo":       # scratch trees get their own cache so that concurrent runs never evict each other
    import hashlib as _h
    BUILD = os.path.join(BUILD, "alt-" + _h.sha1(os.path.realpath(REPO).encode()).hexdigest()[:10])
HARNESS = os.path.join(VERIF, "harness")
GUARD = "PLIBSYS_VERIF"


class BuildError(Exception):
    pass


def _sh(cmd, **kw):
    p = subprocess.run(cmd, stdout=subprocess.PIPE, stderr=subprocess.STDOUT, text=True, **kw)
    if p.returncode != 0:
        raise BuildError("command failed: %s\n%s" % (" ".join(map(str, cmd)) if isinstance(cmd, list) else cmd, p.stdout[-4000:]))
    return p.stdout


def _hash_paths(paths, extra=""):
    h = hashlib.sha1(extra.encode())
    for root in paths:
        if os.path.isfile(root):
            files = [root]
        else:
            files = []
            for d, dn, fn in os.walk(root):
                dn.sort()
                for f in sorted(fn):
                    files.append(os.path.join(d, f))
        for f in files:
            try:
                with open(f, "rb") as fh:
                    h.update(f.encode() + b"\0" + fh.read())
            except OSError:
                pass
    return h.hexdigest()[:16]


class _Lock:
    def __init__(self, name):
        os.makedirs(os.path.join(BUILD, "locks"), exist_ok=True)
        self.path = os.path.join(BUILD, "locks", name + ".lock")

    def __enter__(self):
        self.fh = open(self.path, "w")
        fcntl.flock(self.fh, fcntl.LOCK_EX)
        return self

    def __exit__(self, *a):
        fcntl.flock(self.fh, fcntl.LOCK_UN)
        self.fh.close()


def _parse_variant(variant):
    toks = [t for t in variant.split("+") if t and t != "default"]
    atomic = "c11"
    rw = "posix"
    san = None
    for t in toks:
        if t in ("c11", "sync", "sim"):
            atomic = t
        elif t == "general":
            rw = "general"
        elif t in ("asan", "tsan"):
            san = t
        else:
            raise BuildError("unknown variant token " + t)
    return atomic, rw, san


def _configure(atomic, rw):
    """cmake configure (cached by hash of the cmake inputs); returns (cfgdir, entries)."""
    inputs = [os.path.join(REPO, "CMakeLists.txt"), os.path.join(REPO, "cmake"),
              os.path.join(REPO, "platforms"), os.path.join(REPO, "src", "CMakeLists.txt"),
              os.path.join(REPO, "src", "plibsysconfig.h.in")]
    key = _hash_paths(inputs, "%s/%s" % (atomic, rw))
    cfgdir = os.path.join(BUILD, "cfg", "%s-%s-%s" % (atomic, rw, key))
    cc = os.path.join(cfgdir, "compile_commands.json")
    with _Lock("cfg-%s-%s" % (atomic, rw)):
        if not os.path.exists(cc):
            base = os.path.join(BUILD, "cfg")
            os.makedirs(base, exist_ok=True)
            for d in os.listdir(base):
                if d.startswith("%s-%s-" % (atomic, rw)):
                    shutil.rmtree(os.path.join(base, d), ignore_errors=True)
            cmd = ["cmake", "-G", "Ninja", "-S", REPO, "-B", cfgdir, "-DPLIBSYS_TESTS=OFF",
                   "-DPLIBSYS_BUILD_DOC=OFF", "-DCMAKE_EXPORT_COMPILE_COMMANDS=ON",
                   "-DCMAKE_BUILD_TYPE=Debug"]
            if atomic != "c11":
                cmd.append("-DPLIBSYS_ATOMIC_MODEL=" + atomic)
            if rw != "posix":
                cmd.append("-DPLIBSYS_RWLOCK_MODEL=" + rw)
            _sh(cmd)
    entries = {}
    for e in json.load(open(cc)):
        f = e["file"]
        if f.startswith(os.path.join(REPO, "src")) and f not in entries:
            args = shlex.split(e["command"])
            keep = [a for a in args[1:] if a.startswith("-D") or a.startswith("-I")]
            keep = [a for a in keep if a not in ("-Dplibsys_EXPORTS",)]
            entries[f] = keep
    return cfgdir, entries


def lib(variant="default", opt="-O1"):
    """Return dict(archive, cflags, ldflags, cfgdir) for the variant, building if necessary."""
    atomic, rw, san = _parse_variant(variant)
    cfgdir, entries = _configure(atomic, rw)
    sanflags = []
    if san == "asan":
        sanflags = ["-fsanitize=address,undefined", "-fno-sanitize-recover=undefined", "-fno-omit-frame-pointer"]
    elif san == "tsan":
        sanflags = ["-fsanitize=thread"]
    common = ["-g", opt, "-DPLIBSYS_STATIC_COMPILATION", "-D" + GUARD, "-fno-strict-aliasing"] + sanflags
    key = _hash_paths([os.path.join(REPO, "src")], cfgdir + " ".join(common))
    name = variant.replace("+", "_")
    outdir = os.path.join(BUILD, "lib", "%s-%s" % (name, key))
    archive = os.path.join(outdir, "libplibsys.a")
    with _Lock("lib-" + name):
        if not os.path.exists(archive):
            base = os.path.join(BUILD, "lib")
            os.makedirs(base, exist_ok=True)
            for d in os.listdir(base):
                if d.startswith(name + "-") and d[len(name) + 1:].isalnum():
                    shutil.rmtree(os.path.join(base, d), ignore_errors=True)
            os.makedirs(outdir)
            jobs = []
            for f, flags in entries.items():
                obj = os.path.join(outdir, os.path.basename(f)[:-2] + ".o")
                jobs.append((["gcc"] + flags + common + ["-c", f, "-o", obj], obj))
            with ThreadPoolExecutor(16) as ex:
                list(ex.map(lambda j: _sh(j[0]), jobs))
            tmp = archive + ".tmp"
            _sh(["ar", "rcs", tmp] + [j[1] for j in jobs])
            os.rename(tmp, archive)
    return {
        "archive": archive, "outdir": outdir, "cfgdir": cfgdir, "variant": variant,
        "cflags": ["-I" + os.path.join(REPO, "src"), "-I" + os.path.join(cfgdir, "src"),
                   "-DPLIBSYS_STATIC_COMPILATION", "-D" + GUARD, "-D_GNU_SOURCE", "-g", opt] + sanflags,
        "ldflags": sanflags + ["-lpthread", "-ldl", "-lrt", "-lm"],
        "srcflags": entries,
    }


def driver(name, sources, variant="default", wraps=(), extra_cflags=(), out=None, opt="-O1"):
    """Compile harness sources (paths relative to harness/) and link against the variant library.
    The binary is cached by hash of (sources, library key)."""
    L = lib(variant, opt)
    srcs = [s if os.path.isabs(s) else os.path.join(HARNESS, s) for s in sources]
    hdrs = [os.path.join(HARNESS, f) for f in os.listdir(HARNESS) if f.endswith(".h")]
    key = _hash_paths(srcs + hdrs, L["archive"] + " ".join(wraps) + " ".join(extra_cflags))
    bdir = os.path.join(BUILD, "drv")
    os.makedirs(bdir, exist_ok=True)
    vtag = variant.replace("+", "_") + ("" if opt == "-O1" else opt.replace("-", "_"))
    exe = out or os.path.join(bdir, "%s-%s-%s" % (name, vtag, key))
    with _Lock("drv-" + name + "-" + vtag):
        if not os.path.exists(exe):
            for f in os.listdir(bdir):
                if f.startswith("%s-%s-" % (name, vtag)):
                    try:
                        os.unlink(os.path.join(bdir, f))
                    except OSError:
                        pass
            wl = ["-Wl,--wrap=" + w for w in wraps]
            cmd = (["gcc"] + L["cflags"] + list(extra_cflags) + ["-I" + HARNESS] + srcs +
                   [L["archive"]] + wl + L["ldflags"] + ["-o", exe + ".tmp"])
            _sh(cmd)
            os.rename(exe + ".tmp", exe)
    return exe


if __name__ == "__main__":
    t = time.time()
    for v in sys.argv[1:] or ["default"]:
        print(lib(v)["archive"])
    print("%.1fs" % (time.time() - t))
