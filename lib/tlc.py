"""TLC runner: design checks (BFS / simulate), graph dumps, trace validation."""
import os, re, shutil, subprocess, tempfile, time

VERIF = os.path.dirname(os.path.dirname(os.path.abspath(__file__)))
BUILD = os.path.join(VERIF, "build")
SPECS = os.path.join(VERIF, "specs")
CP = "/opt/veriftools/tla/tla2tools.jar:/opt/veriftools/tla/CommunityModules-deps.jar"


class TLCError(Exception):
    """machinery failure (parse error, crash, timeout)"""


class Result:
    def __init__(self):
        self.rc = None
        self.out = ""
        self.generated = 0
        self.distinct = 0
        self.depth = 0
        self.ok = False
        self.violation = None   # 'invariant' | 'deadlock' | 'liveness' | 'postcondition' | 'assert'
        self.violated_name = None
        self.coverage = {}      # action -> (taken, generated) when -coverage was on
        self.wall = 0.0


def _specdir_path():
    dirs = []
    for d, dn, fn in os.walk(SPECS):
        dirs.append(d)
    return dirs


def run(module_path, cfg=None, workers=4, simulate=None, depth=None, env=None, xmx="4g",
        timeout=600, coverage=False, dump=None, deque=False, seed=None, deadlock=None, extra=()):
    """Run TLC on module_path (absolute or relative to specs/). Returns Result.
    Raises TLCError for parse errors / timeouts / unexpected exit codes."""
    if not os.path.isabs(module_path):
        module_path = os.path.join(SPECS, module_path)
    mdir = os.path.dirname(module_path)
    cfg = cfg or module_path[:-4] + ".cfg"
    if not os.path.isabs(cfg):
        cfg = os.path.join(mdir, cfg)
    os.makedirs(os.path.join(BUILD, "tlc"), exist_ok=True)
    meta = tempfile.mkdtemp(prefix="m", dir=os.path.join(BUILD, "tlc"))
    libdirs = os.pathsep.join(d for d in _specdir_path() if d != mdir)
    jopts = ["-XX:+UseParallelGC", "-Xss64m", "-Xmx" + xmx, "-DTLA-Library=" + libdirs,
             "-Djava.io.tmpdir=" + meta]       # TLC leaves an empty tlc-* directory per run in java.io.tmpdir
    if deque:
        jopts.append("-Dtlc2.tool.queue.IStateQueue=StateDeque")
    cmd = ["java"] + jopts + ["-cp", CP, "tlc2.TLC", "-workers", str(workers), "-metadir", meta,
                                "-config", cfg, "-noGenerateSpecTE"]
    if simulate is not None:
        cmd += ["-simulate", "num=%d" % simulate]
    if depth is not None:
        cmd += ["-depth", str(depth)]
    if seed is not None:
        cmd += ["-seed", str(seed)]
    if coverage:
        cmd += ["-coverage", "1"]
    if dump:
        cmd += ["-dump", "dot,actionlabels", dump]
    if deadlock is False:
        cmd += ["-deadlock"]
    cmd += list(extra) + [module_path]
    e = dict(os.environ)
    e.pop("JAVA_TOOL_OPTIONS", None)
    if env:
        e.update(env)
    r = Result()
    t0 = time.time()
    try:
        p = subprocess.run(cmd, cwd=mdir, env=e, stdout=subprocess.PIPE, stderr=subprocess.STDOUT,
                           text=True, timeout=timeout, errors="replace")
    except subprocess.TimeoutExpired as ex:
        shutil.rmtree(meta, ignore_errors=True)
        raise TLCError("TLC timeout after %ss: %s" % (timeout, module_path))
    finally:
        pass
    shutil.rmtree(meta, ignore_errors=True)
    r.wall = time.time() - t0
    r.rc = p.returncode
    r.out = p.stdout
    m = None
    for m in re.finditer(r"(\d+) states generated, (\d+) distinct states found", p.stdout):
        pass
    if m:
        r.generated, r.distinct = int(m.group(1)), int(m.group(2))
    m = re.search(r"The depth of the complete state graph search is (\d+)", p.stdout)
    if m:
        r.depth = int(m.group(1))
    if coverage:
        for m in re.finditer(r"^<(\w+) line \d+, col \d+ to line \d+, col \d+ of module (\w+)(?: \([\d ]+\))?>: (\d+):(\d+)", p.stdout, re.M):
            name = m.group(1)
            t, g = int(m.group(3)), int(m.group(4))
            a = r.coverage.get(name, (0, 0))
            r.coverage[name] = (a[0] + t, a[1] + g)
    out = p.stdout
    if p.returncode == 0:
        r.ok = True
    elif p.returncode == 12 or "Invariant" in out and "is violated" in out:
        r.violation = "invariant"
        m = re.search(r"Invariant (\S+) is violated", out)
        r.violated_name = m.group(1) if m else None
    elif p.returncode == 11:
        r.violation = "deadlock"
    elif p.returncode == 13:
        r.violation = "liveness"
    elif "Action property" in out and "is violated" in out:
        r.violation = "actionproperty"
    elif "Error: Postcondition" in out and "is false" in out:
        r.violation = "postcondition"
    elif "The first argument of Assert evaluated to FALSE" in out:
        r.violation = "assert"
    else:
        raise TLCError("TLC failed rc=%s on %s\n%s" % (p.returncode, module_path, _errsummary(out)))
    if "Temporal properties were violated" in out:
        r.violation = "liveness"
    return r


def _errsummary(out):
    i = out.find("Error:")
    if i < 0:
        return out[-3000:]
    return out[i:i + 2500] + "\n...\n" + out[-300:]


def sany(module_path):
    if not os.path.isabs(module_path):
        module_path = os.path.join(SPECS, module_path)
    mdir = os.path.dirname(module_path)
    libdirs = os.pathsep.join(d for d in _specdir_path() if d != mdir)
    p = subprocess.run(["java", "-DTLA-Library=" + libdirs, "-cp", CP, "tla2sany.SANY", module_path],
                       cwd=mdir, stdout=subprocess.PIPE, stderr=subprocess.STDOUT, text=True)
    return p.returncode == 0 and "Semantic errors" not in p.stdout and "*** Errors" not in p.stdout and "Fatal" not in p.stdout, p.stdout


def validate_trace(trace_module, trace_file, cfg=None, deque=True, xmx="2g", timeout=600, env=None):
    """Trace validation with the high-water register (VTrace). Returns (accepted, matched_prefix, Result)."""
    e = {"TRACE": trace_file}
    if env:
        e.update(env)
    r = run(trace_module, cfg=cfg, workers=1, env=e, xmx=xmx, timeout=timeout, deque=deque, deadlock=None)
    m = None
    for m in re.finditer(r'"VT_MATCHED", (\d+), (\d+)', r.out):
        pass
    matched = (int(m.group(1)), int(m.group(2))) if m else (None, None)
    if r.ok:
        return True, matched, r
    if r.violation in ("postcondition", "invariant", "assert", "actionproperty"):
        return False, matched, r
    raise TLCError("trace validation: unexpected TLC outcome %s\n%s" % (r.violation, r.out[-2000:]))
