#!/usr/bin/env python3
"""setup_cmd: offline self-test of the framework parts that do not depend on /repo's sources:
SANY on every spec module."""
import os, sys
sys.path.insert(0, os.path.dirname(os.path.abspath(__file__)))
import tlc
bad = 0
n = 0
for d, dn, fn in os.walk(tlc.SPECS):
    for f in sorted(fn):
        if f.endswith(".tla"):
            ok, out = tlc.sany(os.path.join(d, f))
            n += 1
            if not ok:
                bad += 1
                print("SANY FAILED:", f)
                print(out[-2000:])
print("setup: %d modules parsed, %d failed" % (n, bad))
os.makedirs(os.path.join(tlc.BUILD), exist_ok=True)
sys.exit(1 if bad else 0)
