#!/usr/bin/env python3
"""regenerates the seed table of DESIGN.md section 8 and the counts quoted in section 0 from seeded/*/meta.json"""
import json, glob, os, re
HERE = os.path.dirname(os.path.dirname(os.path.abspath(__file__)))
rows = [json.load(open(f)) for f in sorted(glob.glob(os.path.join(HERE, "seeded", "*", "meta.json")))]
def first(m):
    d = m["detection"].lower()
    return d.startswith("caught as built") or d.startswith("caught by the check") or "as submitted" in d
def missed(m):
    return m["detection"].startswith("MISSED")
built = sum(1 for m in rows if first(m)); nmiss = sum(1 for m in rows if missed(m)); late = len(rows) - built - nmiss
def short(t, n):
    t = t.replace("|", "/").replace("\n", " ")
    return t if len(t) <= n else t[:n - 1] + "…"
p = os.path.join(HERE, "DESIGN.md")
s = open(p).read()
a = s.index("| Seed | What the change breaks | Detection |")
b = s.index("\nPatterns in the misses")
tab = "| Seed | What the change breaks | Detection |\n|---|---|---|\n" + "".join("| %s | %s | %s |\n" % (m["seed_id"], short(m["breaks"], 230), short(m["detection"], 330)) for m in rows)
s = s[:a] + tab + s[b:]
s = re.sub(r"All \d+ were confirmed", "All %d were confirmed" % len(rows), s)
s = re.sub(r"`meta\.json`\)\. \d+ were detected by the checks as they stood when the seed arrived, .*?\n\n\| Seed",
           "`meta.json`). %d were detected by the checks as they stood when the seed arrived, %d were missed\nand led to the strengthening named in the last column, %d %s missed and not pursued (marked MISSED in the table: a limit of the\ncheck, not a detection); the other %d are detected now.\n\n| Seed" % (
               built, late, nmiss, "was" if nmiss == 1 else "were", len(rows) - nmiss), s, flags=re.S)
s = re.sub(r"\d+ independently seeded defects \(.*?not detected \(§8\)\.",
           "%d independently seeded defects (eight to eleven per property), %d of them\ndetected by the current checks – %d by the checks as they stood when the seed arrived, %d only\nafter the strengthening listed in §8; %d not detected (§8)." % (
               len(rows), len(rows) - nmiss, built, late, nmiss), s, flags=re.S)
open(p, "w").write(s)
print(len(rows), built, late, nmiss)
