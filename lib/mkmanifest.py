#!/usr/bin/env python3
"""Regenerates MANIFEST.json from the table below (single source of truth)."""
import json, os
HERE = os.path.dirname(os.path.dirname(os.path.abspath(__file__)))
TB = ("TLC 1.8 (tla2tools.jar), CommunityModules Json/IOUtils, gcc, the harness drivers under harness/, "
      "the Python glue under lib/ and checks/")
CHECKS = {
 "C12": dict(technique="TLA+ P-spec TreeMap + I-spec TreeShape (BST/AVL/literal RB) model-checked by TLC; every edge of the bounded shape graph replayed on the real PTree; recorded histories validated by TLC against TreeMap (TreeTrace[map])",
             text="TLC proves the three shape algorithms refine the sorted-map spec for all insert/remove orders over 5 (quick) / 7 (thorough) keys; each transition of that graph is one implementation test whose full observation (results, count, all lookups, full and early-stopped traversals) TLC validates against the P-spec; random histories over small and large universes validated the same way.",
             design_ref="3 C12", note="Trusted: " + TB + "; comparator is a total order; shapes are observed through the comparator during lookups."),
 "C13": dict(technique="TLC invariants AVLOk / RBColourable on the TreeShape I-spec and, via trace validation (TreeTrace[bal]), on every shape observed from the real tree after every replayed transition; exact integer depth bounds on large random histories",
             text="Balance is an invariant of the I-spec for every reachable shape over the bounded key universe, and the same TLA+ predicates are evaluated by TLC on the implementation's observed shape after every operation of the edge-cover replay and of random histories (depth bound for up to 1500 keys).",
             design_ref="3 C13", note="Trusted: " + TB + "; shape reconstruction from comparator calls (public API only)."),
 "C14": dict(technique="TLA+ ownership ghost state in TreeMap (stored / dead object identities) model-checked by TLC; destroy-notifier calls recorded per API call on the real PTree and validated by TLC (TreeTrace[own])",
             text="Every notifier call is an event that must equal, as a duplicate-free set, what the P-spec action destroys; removal of 0/1/2-child nodes at every position is guaranteed by the edge cover of the shape graph for all three tree types; without notifiers user blocks must stay byte-identical.",
             design_ref="3 C14", note="Trusted: " + TB + "; identity = one heap block per inserted key / value."),
 "C15": dict(technique="TLA+ P-specs HashTable / PList model-checked by TLC; every edge of their bounded graphs replayed on the real containers with keys instantiated from pointer-pattern classes (NULL, all-ones, one bucket, INT_MAX-adjacent low words, negative low words); full observations validated by TLC (ContTrace); UB observed through the UBSan build",
             text="The reference models are explicit TLA+ specs; TLC enumerates all histories of the bounded models and each transition is executed on the real PHashTable/PList for every key class; after every operation lookup of every key, keys/values bags, lookup_by_value (with and without comparator), list content/length/last are validated by TLC against the spec state.",
             design_ref="3 C15", note="Trusted: " + TB + "; UBSan/ASan as the observation channel for undefined behaviour; values never equal the (ppointer)-1 marker."),
 "C08": dict(technique="TLA+ P-spec ShmBufAbs (bounded FIFO) refined by I-spec ShmBufRing (positions, modulus, split copies) proved by TLC for capacities 1..4; every edge of the ring graph replayed on a real PShmBuffer through several handles; sequential traces validated by TLC (ShmBufTrace); concurrent producer/consumer histories (threads and processes) checked for linearizability by TLC (ShmBufLin)",
             text="TLC proves the ring algorithm refines the FIFO for every operation sequence, length 0..cap+1 and content over capacities 1..4, and each of those transitions is executed on the real buffer (ring positions compared through an independent PShm handle); random histories for capacities up to 300 with handles opened with equal, larger and zero size arguments; concurrent histories from 1-4 producers x 1-4 consumers in threads and in forked processes must have a linearization as one FIFO.",
             design_ref="3 C08", note="Trusted: " + TB + "; one process-shared atomic sequence number orders call/ret events; the >INT_MAX capacity probe of DESIGN.md is not built."),
 "C01": dict(technique="TLA+ P-spec LockAbs (single owner, ghost data cell) refined by I-spec SpinCAS (CAS loop / store 0), proved by TLC; call/ret/critical-section histories of real threads on PMutex and PSpinLock in the c11, sync and sim builds checked for linearizability by TLC (LockLin, StrictTry)",
             text="TLC proves exclusion and the trylock rule for every interleaving of the CAS loop (3 threads x 2 rounds) and validates tens of thousands of recorded call/return/critical-section events per build: a history is accepted only if some linearization has a single owner at every instant, every critical-section read returns the previous holder's write, and a failed trylock coincides with a held or contended lock.",
             design_ref="3 C01", note="Trusted: " + TB + "; events ordered by one atomic sequence number taken before a call and after its return; x86-64 cannot exhibit weakened memory orders."),
 "C02": dict(technique="TLA+ I-spec RWLockGeneral (one action per critical section of prwlock-general.c, chosen-waiter signal, spurious wake-ups) refines P-spec LockAbs, deadlock-free and terminating under weak fairness (TLC); every edge of the bounded graph replayed on the unmodified prwlock-general.c under a deterministic virtual scheduler with state and enabled-thread comparison; seeded random virtual schedules with deadlock detection; real-thread histories of both models checked for linearizability by TLC (LockLin)",
             text="For the portable model the schedule quantifier is discharged exhaustively for the bounded configurations: TLC explores all interleavings incl. spurious wake-ups and the harness drives the real C code through every transition, comparing counters, wait sets and thread states; lost wake-ups show up as a deadlock of the virtual threads. The native model and the general model under real pthreads are validated through recorded histories.",
             design_ref="3 C02", note="Trusted: " + TB + "; the virtual p_mutex/p_cond_variable implement the CondVar semantics of C03; ucontext coroutines."),
 "C03": dict(technique="TLA+ P-spec CondVar (atomic release-and-block, woken/waiting sets, spurious wake-ups) and client spec BoundedBuffer model-checked by TLC incl. liveness (the non-atomic variant must fail); real-thread producer/consumer and wake-up scenarios recorded and validated by TLC (CondLin) incl. watchdog Stuck events",
             text="TLC proves that predicate-loop producers/consumers over the CondVar semantics always complete and that a non-atomic release-then-block loses wake-ups; recorded histories of the real PCondVariable/PMutex must be behaviours of CondVar: data accesses only by the mutex owner (so wait returned owning the mutex), and a thread still blocked after N signals to N waiters or after a broadcast has no explanation in the spec.",
             design_ref="3 C03", note="Trusted: " + TB + "; 10 s watchdog in microsecond scenarios, confirmed by a second execution."),
 "C04": dict(technique="TLA+ P-spec Atomics over limb words (Words.tla) with one indivisible Lin step per operation; TLC checks all interleavings on a tiny word and rejects load/store-split variants; sequential boundary-operand scripts and concurrent mixes on the c11, sync and sim builds validated for linearizability by TLC (AtomicsLin)",
             text="Every recorded operation (operands, returned old value / boolean) must be explained by some sequential order of indivisible operations computing exactly the wrapping C expression on a 32-bit / pointer-width word; operand classes cover sign and wrap-around boundaries for every operation; tickets, per-thread bits and count-downs make lost updates visible.",
             design_ref="3 C04", note="Trusted: " + TB + "; barrier strength beyond x86-64 TSO is not observable."),
 "C05": dict(technique="TLA+ P-spec UThread (phase, user refs, thread's own ref, freed, exit code, per-thread TLS, due-to-destroy set) model-checked by TLC; gated thread scenarios on the real library with the handle block tracked through the user allocator table; histories validated by TLC (UThreadTrace)",
             text="Scripts force the orders that matter (creator unrefs before the thread starts, thread finished before join, join racing with exit, extra ref/unref pairs, join of detached threads); every create/start/write/exit/ref/unref/join/free/TLS event is validated: the handle block is freed exactly once and only with no reference left, join returns after the exit event with the right code and the thread's write visible, each notifier call consumes a value that was due (replaced or left at exit) and nothing due remains at the end of a scenario.",
             design_ref="3 C05", note="Trusted: " + TB + "; allocator-table tracking of the handle block; 10 s watchdogs only delay the Epoch event (a missing release then shows as a rejected Epoch)."),
 "C06": dict(technique="TLA+ P-spec SemAbs (name generations, counters, owner rules, crash) refined by I-spec SemProto (one action per sem_* system call over a kernel namespace model, SIGKILL at any pc), proved by TLC (the pre-fix protocol is rejected); every edge of a bounded SemProto graph executed on real processes parked at link-time system-call gates; random multi-process histories, SIGKILL at every system call of new/free/acquire/release followed by the documented recovery, and concurrent k-exclusion histories validated by TLC (SemTrace)",
             text="Histories over several names, handles and processes (with really blocking acquires) must be behaviours of SemAbs, with the kernel counter read back through the library's own descriptor after every call; crash points are enumerated at system-call granularity with a real SIGKILL and the recovery sequence must end in a fresh counter of exactly the requested value; concurrent acquirers/releasers in threads and processes must be linearizable (an acquire returning without a unit has no linearization).",
             design_ref="3 C06", note="Trusted: " + TB + "; --wrap seams around sem_*/shm_* calls; parent-serialised children; psemaphore-sysv.c is not build-selectable here and is not checked."),
 "C07": dict(technique="TLA+ P-spec ShmAbs (segment generations, bytes, sizes, one lock per generation, crash) and I-spec ShmProto (one action per shm_open/fstat/ftruncate/mmap/sem_* call of p_shm_new incl. the lock-semaphore sub-protocol, SIGKILL anywhere, finding patterns as ghost 'tainted' set) checked by TLC; every edge of the two-creator graph and TLC's own counterexamples executed on real processes parked at system-call gates; multi-process histories (bytes, sizes, blocking lock, owner free, recovery) validated by TLC (ShmTrace); free-running lock histories validated by LockLin",
             text="TLC enumerates all interleavings of two first-time creators at system-call granularity with a kill at any point and proves NewSucceeds / OneLock / Recoverable outside three named patterns; the patterns and the whole remaining graph are replayed on the real library (real kernel objects, real SIGKILL), each followed by two-handle probes (same bytes, same size, mutual exclusion of the lock) and the documented recovery, all judged by the P-spec; the three patterns reproduce on the real code and are listed as known findings.",
             design_ref="3 C07", note="Trusted: " + TB + "; --wrap seams; parent-serialised children; pshm-sysv.c not build-selectable here."),
 "C11": dict(technique="TLA+ P-spec HashCtx (which chunks a digest belongs to: open/closed life-cycle, empty updates, reset) model-checked by TLC; life-cycle skeletons from its graph and (buffered bytes, chunk length) pairs around every block/padding boundary executed on the real PCryptoHash for all 11 algorithms; traces validated by TLC (HashTrace) with the digest function supplied as an oracle table",
             text="TLC decides, for every recorded call sequence, which concatenation of chunks each returned hex string / raw digest must be the standard digest of (updates after a read ignored until reset, empty updates ignored, repeatable reads, hex = lower-case encoding with the algorithm's length); the digest values themselves come from Python hashlib and an independent RFC 5831 GOST reference. Thorough adds single updates of 2^32+k bytes.",
             design_ref="3 C11", note="Trusted: " + TB + "; hashlib, lib/gost3411.py (checked against published vectors); digest function fidelity itself is oracle-based, not a TLA+ result."),
 "C16": dict(technique="TLA+ P-spec IniStore (abstract lines -> sections/keys/values: last assignment wins, lines before the first section dropped, key-less sections unlisted) model-checked by TLC; abstract files from its graph plus random ones rendered into concrete spellings (blanks, quoting, comment markers, '=' in values, BOMs, CRLF, long lines) and parsed by the real PIniFile; results validated by TLC (IniTrace, conversions from an oracle table); robustness on mutated/random bytes under ASan with the consistency predicate evaluated by TLC (IniRobust)",
             text="For files inside the documented grammar every section/key listing and every getter (string, int, boolean, list, default fallback) must equal what the P-spec derives from the abstract file; for arbitrary bytes the parser must return, stay memory-safe (ASan/UBSan build) and report a consistent object.",
             design_ref="3 C16", note="Trusted: " + TB + "; Python rendering of the documented grammar; double conversion asserted for exactly representable values only."),
 "C09": dict(technique="TLA+ I-spec SockLoop (poll / system call / classify / retry loop composed with a fault injector, invariant NeverLeaks, liveness Completes) model-checked by TLC; each of its behaviours is a fault plan injected by link-time wrappers into poll/send/recv/sendto/recvfrom/accept of the real PSocket on IPv4 and IPv6 loopback; position-coded TCP streams and id-coded UDP datagrams validated by TLC against P-spec SockAbs (SockTrace, mode io)",
             text="Every sequence of up to three injected EINTR / EAGAIN / short-transfer outcomes at every position of every looping call is executed on the real code (226 plans) and the observed system-call sequence is compared with the I-spec; API-level histories (incl. random chunkings, blocking/non-blocking mixes, peer close) must be behaviours of SockAbs: received bytes are exactly the next bytes of the stream, reported lengths are what reached the kernel, datagrams arrive at most once, truncated to the buffer, with the sender's address, and a blocking call never reports would-block.",
             design_ref="3 C09", note="Trusted: " + TB + "; loopback only; --wrap seams; large transfers with tiny kernel buffers (real short sends) are not forced, short transfers are injected."),
 "C10": dict(technique="TLA+ P-spec SockAbs with socket modes and life-cycle (closed, connected, listening, blocking, timeout, keepalive, backlog) as state; scripted and random call sequences on real PSocket objects; every return validated by TLC (SockTrace, mode life) incl. getter snapshot, elapsed time, poll usage and the system calls made",
             text="After every call all getters must equal the spec state; after close every I/O call must fail with NOT_AVAILABLE having made no system call, a second close touches nothing; timed calls fail with TIMED_OUT and not before T (monotonic clock), non-blocking calls return would-block / in-progress without polling, blocking calls without timeout poll with -1 and a parked receiver/acceptor returns only after the peer acts; new and accepted descriptors carry FD_CLOEXEC.",
             design_ref="3 C10", note="Trusted: " + TB + "; loopback only; a timed-out connect cannot be produced on loopback and is not covered."),
 "C19": dict(technique="TLA+ I-spec Interrupt (issue / interrupted / re-issue loop with remaining-time accounting for sleep, fault injector, invariant Transparent, liveness Completes) model-checked by TLC; real SIGALRM storms (handler without SA_RESTART) and EINTR injected at every k-th invocation (k<=4) of clock_nanosleep / sem_wait / sem_open / shm_open into the real library; histories validated by TLC (InterruptTrace); socket calls under the same storms validated against SockAbs (SockTrace io)",
             text="For sleep, semaphore acquire, shared-memory lock and creation/opening of named IPC objects, each with 0..4 consecutive injected interruptions and under timer storms from 200us to 50ms, the API outcome must be that of the uninterrupted call: sleep returns 0 and not before the requested time (monotonic clock), acquire/lock return only with the unit taken, creation still succeeds; parked socket receivers / acceptors and timed receives under storms must still satisfy the socket P-spec (no interrupted-call error, timeouts still fire).",
             design_ref="3 C19", note="Trusted: " + TB + "; injected EINTR follows each call's own error convention; signals are delivered to the thread under test."),
 "C18": dict(technique="TLA+ ledger P-spec AllocLedger (live blocks, refused allocation in the call in progress, call results as observed through the public API, quiescence) with a design-level non-vacuity check (a leaking variant must be rejected); 14 representative programs over all modules run once per allocation index k, refusing allocation k only and allocation k and all later ones, each in a forked child on the ASan+UBSan build with the user allocator table; every child's ledger trace validated by TLC (AllocTrace)",
             text="The fault index is enumerated exhaustively for every program (about 300 allocations x 2 modes, plus the general rwlock and sim atomic builds): a child that dies (signal, sanitizer report) is rejected, a free of a block that is not live is rejected, a call that saw a refused allocation must return normally with the objects consistent and pre-existing state unchanged (checked through the public API by the program), and at the end of the program nothing allocated through the table may remain except residue the documentation names.",
             design_ref="3 C18", note="Trusted: " + TB + "; programs in harness/drv_alloc.c are the coverage (evidence lists the public entry points they do not reach); library start-up/shutdown allocations are outside the ledger."),
}
NA = {
 "C17": "pure encode/decode fidelity against the platform's inet_pton/inet_ntop over all addresses: no state, transitions or histories for a TLA+ specification to constrain (DESIGN.md section 5)",
}
PENDING = "check not built yet in this round (DESIGN.md section 9 build order); will be claimed once its spec, driver and validator exist"

def main():
    props = [json.loads(l)["id"] for l in open(os.path.join(HERE, "properties.jsonl"))]
    checks = []
    for pid in props:
        if pid in CHECKS:
            c = CHECKS[pid]
            checks.append({
                "property_id": pid,
                "quick_cmd": "./check %s --tier quick" % pid,
                "thorough_cmd": "./check %s --tier thorough" % pid,
                "evidence_file": "evidence/%s.json" % pid,
                "replay_cmd_template": "./check %s --replay {path}" % pid,
                "engine": "tlc-conformance",
                "level_claimed": {"category": c.get("category", "model_checking"), "text": c["text"], "design_ref": "DESIGN.md " + c["design_ref"]},
                "level_note": c["note"],
                "technique": c["technique"],
            })
    na = [{"property_id": p, "reason": NA.get(p, PENDING)} for p in props if p not in CHECKS]
    man = {
        "version": 1,
        "setup_cmd": "python3 lib/setup.py",
        "hooks": {
            "guard": "PLIBSYS_VERIF",
            "enable": "checks compile /repo/src directly with -DPLIBSYS_VERIF (lib/build.py); the repository's own cmake build never defines it",
            "baseline_off_cmd": "cmake -G Ninja -S /repo -B /repo/_build && cmake --build /repo/_build && ctest --test-dir /repo/_build -j8 --timeout 900",
            "source_commits": [],
            "add_only": True,
        },
        "engines": [{"name": "tlc-conformance", "path": "check", "serves_properties": sorted(CHECKS),
                     "kind_free_text": "explicit TLA+ specs (specs/) checked with TLC; TLC-generated behaviours replayed on the real library and recorded implementation traces validated by TLC against the P-specs"}],
        "checks": checks,
        "not_applicable": na,
        "notes": "Exit codes of ./check: 0 held, 1 violation (VIOLATION line), 2 machinery failure. KNOWN_FINDINGS.txt lists findings and fixes.",
    }
    with open(os.path.join(HERE, "MANIFEST.json"), "w") as fh:
        json.dump(man, fh, indent=1)
        fh.write("\n")
    print("MANIFEST.json: %d checks, %d not_applicable" % (len(checks), len(na)))

if __name__ == "__main__":
    main()
