"""Pure-Python reference implementation of GOST R 34.11-94 (RFC 5831) with the
CryptoPro S-box set (id-GostR3411-94-CryptoProParamSet, RFC 4357 section 11.2).

Written from the algorithm description as an independent oracle.

Conventions: every 256-bit quantity of the standard (H, M, Sigma, L, keys) is
held as a Python int whose little-endian byte encoding is the byte string seen
on the wire; i.e. the first message byte is the least significant byte of the
block, and the digest is the little-endian encoding of the final H.

    gost3411_94(data: bytes) -> bytes   # 32-byte digest
"""

import sys

__all__ = ["gost3411_94"]

# RFC 4357 11.2, id-GostR3411-94-CryptoProParamSet.  Row 0 substitutes the
# least significant nibble of the 32-bit word, row 7 the most significant.
_SBOX = (
    (10, 4, 5, 6, 8, 1, 3, 7, 13, 12, 14, 0, 9, 2, 11, 15),
    (5, 15, 4, 0, 2, 13, 11, 9, 1, 7, 6, 3, 12, 14, 10, 8),
    (7, 15, 12, 14, 9, 4, 1, 0, 3, 11, 5, 2, 6, 10, 8, 13),
    (4, 10, 7, 12, 0, 15, 2, 8, 14, 1, 6, 5, 13, 11, 9, 3),
    (7, 6, 4, 11, 9, 12, 2, 10, 1, 8, 0, 14, 15, 13, 3, 5),
    (7, 6, 2, 4, 13, 9, 15, 0, 10, 1, 5, 11, 8, 14, 12, 3),
    (13, 14, 4, 1, 7, 0, 5, 10, 3, 12, 8, 15, 6, 2, 9, 11),
    (1, 3, 10, 9, 5, 11, 4, 15, 8, 6, 7, 14, 13, 0, 2, 12),
)

_M32 = 0xFFFFFFFF
_M64 = 0xFFFFFFFFFFFFFFFF
_M256 = (1 << 256) - 1

# Key-generation constants (C2 = C4 = 0).
_C3 = 0xFF00FFFF000000FFFF0000FF00FFFF0000FF00FF00FF00FFFF00FF00FF00FF00


def _build_round_tables():
    """Four byte-indexed tables: S-box pair for byte j, shifted into place and
    already rotated left by 11 bits."""
    tables = []
    for j in range(4):
        lo, hi = _SBOX[2 * j], _SBOX[2 * j + 1]
        tab = []
        for b in range(256):
            v = (lo[b & 15] | (hi[b >> 4] << 4)) << (8 * j)
            tab.append(((v << 11) | (v >> 21)) & _M32)
        tables.append(tuple(tab))
    return tables


_T0, _T1, _T2, _T3 = _build_round_tables()


def _encrypt(k, block):
    """GOST 28147-89 ECB encryption of one 64-bit block (int) under the eight
    32-bit subkeys k[0..7]."""
    T0, T1, T2, T3 = _T0, _T1, _T2, _T3
    n1 = block & _M32
    n2 = block >> 32
    k0, k1, k2, k3, k4, k5, k6, k7 = k
    for _ in range(3):
        t = (n1 + k0) & _M32
        n2 ^= T0[t & 255] | T1[(t >> 8) & 255] | T2[(t >> 16) & 255] | T3[t >> 24]
        t = (n2 + k1) & _M32
        n1 ^= T0[t & 255] | T1[(t >> 8) & 255] | T2[(t >> 16) & 255] | T3[t >> 24]
        t = (n1 + k2) & _M32
        n2 ^= T0[t & 255] | T1[(t >> 8) & 255] | T2[(t >> 16) & 255] | T3[t >> 24]
        t = (n2 + k3) & _M32
        n1 ^= T0[t & 255] | T1[(t >> 8) & 255] | T2[(t >> 16) & 255] | T3[t >> 24]
        t = (n1 + k4) & _M32
        n2 ^= T0[t & 255] | T1[(t >> 8) & 255] | T2[(t >> 16) & 255] | T3[t >> 24]
        t = (n2 + k5) & _M32
        n1 ^= T0[t & 255] | T1[(t >> 8) & 255] | T2[(t >> 16) & 255] | T3[t >> 24]
        t = (n1 + k6) & _M32
        n2 ^= T0[t & 255] | T1[(t >> 8) & 255] | T2[(t >> 16) & 255] | T3[t >> 24]
        t = (n2 + k7) & _M32
        n1 ^= T0[t & 255] | T1[(t >> 8) & 255] | T2[(t >> 16) & 255] | T3[t >> 24]
    t = (n1 + k7) & _M32
    n2 ^= T0[t & 255] | T1[(t >> 8) & 255] | T2[(t >> 16) & 255] | T3[t >> 24]
    t = (n2 + k6) & _M32
    n1 ^= T0[t & 255] | T1[(t >> 8) & 255] | T2[(t >> 16) & 255] | T3[t >> 24]
    t = (n1 + k5) & _M32
    n2 ^= T0[t & 255] | T1[(t >> 8) & 255] | T2[(t >> 16) & 255] | T3[t >> 24]
    t = (n2 + k4) & _M32
    n1 ^= T0[t & 255] | T1[(t >> 8) & 255] | T2[(t >> 16) & 255] | T3[t >> 24]
    t = (n1 + k3) & _M32
    n2 ^= T0[t & 255] | T1[(t >> 8) & 255] | T2[(t >> 16) & 255] | T3[t >> 24]
    t = (n2 + k2) & _M32
    n1 ^= T0[t & 255] | T1[(t >> 8) & 255] | T2[(t >> 16) & 255] | T3[t >> 24]
    t = (n1 + k1) & _M32
    n2 ^= T0[t & 255] | T1[(t >> 8) & 255] | T2[(t >> 16) & 255] | T3[t >> 24]
    t = (n2 + k0) & _M32
    n1 ^= T0[t & 255] | T1[(t >> 8) & 255] | T2[(t >> 16) & 255] | T3[t >> 24]
    # 32 rounds done; the last round does not swap halves.
    return n2 | (n1 << 32)


def _A(y):
    """A(y4||y3||y2||y1) = (y1^y2)||y4||y3||y2, 64-bit parts, y1 least significant."""
    return (y >> 64) | (((y ^ (y >> 64)) & _M64) << 192)


def _P_key(w):
    """Apply the byte permutation P to w and return the result split into the
    eight little-endian 32-bit subkeys.  phi(i+1+4(k-1)) = 8i+k means output
    byte (0-based) i+4j is input byte 8i+j, so subkey j is bytes j, 8+j, 16+j,
    24+j of w."""
    b = w.to_bytes(32, "little")
    return [b[j] | (b[8 + j] << 8) | (b[16 + j] << 16) | (b[24 + j] << 24)
            for j in range(8)]


def _psi(y, n=1):
    """psi applied n times.  psi(y16||..||y1) = (y1^y2^y3^y4^y13^y16)||y16||..||y2
    with 16-bit parts, y1 least significant."""
    for _ in range(n):
        t = (y ^ (y >> 16) ^ (y >> 32) ^ (y >> 48) ^ (y >> 192) ^ (y >> 240)) & 0xFFFF
        y = (y >> 16) | (t << 240)
    return y


def _build_psi_tables():
    """psi is GF(2)-linear, so
        psi^61(H ^ psi(M ^ psi^12(S))) = psi^61(H) ^ psi^62(M) ^ psi^74(S).
    Build byte-indexed lookup tables for psi^61, psi^62 and psi^74."""
    t61, t62, t74 = [], [], []
    for p in range(32):
        b61, b62, b74 = [], [], []
        for bit in range(8):
            e = _psi(1 << (8 * p + bit), 61)
            b61.append(e)
            e = _psi(e)
            b62.append(e)
            b74.append(_psi(e, 12))
        for basis, out in ((b61, t61), (b62, t62), (b74, t74)):
            tab = [0] * 256
            for v in range(1, 256):
                low = v & -v
                tab[v] = tab[v ^ low] ^ basis[low.bit_length() - 1]
            out.append(tuple(tab))
    return tuple(t61), tuple(t62), tuple(t74)


_PSI61, _PSI62, _PSI74 = _build_psi_tables()


def _cipher_stage(h, m):
    """Key generation + enciphering transformation: returns S."""
    u, v = h, m
    s = _encrypt(_P_key(u ^ v), h & _M64)
    u = _A(u)
    v = _A(_A(v))
    s |= _encrypt(_P_key(u ^ v), (h >> 64) & _M64) << 64
    u = _A(u) ^ _C3
    v = _A(_A(v))
    s |= _encrypt(_P_key(u ^ v), (h >> 128) & _M64) << 128
    u = _A(u)
    v = _A(_A(v))
    s |= _encrypt(_P_key(u ^ v), h >> 192) << 192
    return s


def _step(h, m):
    """Step hash function chi(M, H) -> H'."""
    s = _cipher_stage(h, m)
    r = 0
    for tab, b in zip(_PSI61, h.to_bytes(32, "little")):
        r ^= tab[b]
    for tab, b in zip(_PSI62, m.to_bytes(32, "little")):
        r ^= tab[b]
    for tab, b in zip(_PSI74, s.to_bytes(32, "little")):
        r ^= tab[b]
    return r


def _step_ref(h, m):
    """Same as _step but with the mixing transformation computed literally
    (used only by the self-test to cross-check the psi tables)."""
    s = _cipher_stage(h, m)
    return _psi(h ^ _psi(m ^ _psi(s, 12)), 61)


def gost3411_94(data):
    """GOST R 34.11-94 digest (CryptoPro parameter set, zero IV) of `data`."""
    data = bytes(data)
    h = 0
    sigma = 0
    n = len(data)
    from_bytes = int.from_bytes
    step = _step
    for off in range(0, n, 32):
        # A short final block is zero-padded at the most significant end, which
        # for the little-endian integer view needs no explicit padding.
        m = from_bytes(data[off:off + 32], "little")
        h = step(h, m)
        sigma += m
    h = step(h, (n * 8) & _M256)
    h = step(h, sigma & _M256)
    return h.to_bytes(32, "little")


_SHORT_VECTORS = (
    (b"", "981e5f3ca30c841487830f84fb433e13ac1101569b9c13584ac483234cd656c0"),
    (b"a", "e74c52dd282183bf37af0079c9f78055715a103f17e3133ceff1aacf2f403011"),
    (b"abc", "b285056dbf18d7392d7677369524dd14747459ed8143997e163b2986f92fd42c"),
    (b"message digest",
     "bc6041dd2aa401ebfa6e9886734174febdb4729aa972d60f549ac39b29721ba0"),
    (b"The quick brown fox jumps over the lazy dog",
     "9004294a361a508c586fe53d1f1b02746765e71b765472786e4770d565830a76"),
    (b"This is message, length=32 bytes",
     "2cefc2f7b7bdc514e18ea57fa74ff357e7fa17d652c75f69cb1be7893ede48eb"),
    (b"Suppose the original message has length = 50 bytes",
     "c3730c5cbccacf915ac292676f21e8bd4ef75331d9405e5f1a61dc3130a65011"),
    (b"U" * 128,
     "1c4ac7614691bbf427fa2316216be8f10d92edfd37cd1027514c1008f649c4e8"),
)

# Slow in pure Python; only checked with `python3 gost3411.py --long`.
_LONG_VECTOR = (b"a" * 1000000,
                "8693287aa62f9478f7cb312ec0866b6c4e4a0f11160441e8f4ffcd2715dd554f")


def _self_test(long=False):
    failures = []
    vectors = list(_SHORT_VECTORS)
    if long:
        vectors.append(_LONG_VECTOR)
    for msg, want in vectors:
        got = gost3411_94(msg).hex()
        if got != want:
            label = repr(msg) if len(msg) <= 64 else "%r*%d" % (msg[:1], len(msg))
            failures.append("MISMATCH %s: got %s want %s" % (label, got, want))
    # Cross-check the table-driven mixing against the literal psi iteration.
    x = 0x0123456789ABCDEF
    for _ in range(8):
        x = (x * 6364136223846793005 + 1442695040888963407) % (1 << 512)
        hh, mm = x & _M256, x >> 256
        if _step(hh, mm) != _step_ref(hh, mm):
            failures.append("MISMATCH psi tables vs literal psi for h=%064x m=%064x"
                            % (hh, mm))
    return failures


if __name__ == "__main__":
    _failures = _self_test(long="--long" in sys.argv[1:])
    if _failures:
        for _f in _failures:
            print(_f)
        sys.exit(1)
    print("gost3411 self-test ok")
    sys.exit(0)
