#!/usr/bin/env python3
"""usage: mkmeta.py <seed id> <property> <cmake options or -> <breaks> <needs> <detection>  -- writes seeded/<seed id>/meta.json from confirm.log"""
import json, os, sys
sid, prop, opts, breaks, needs, det = sys.argv[1:7]
d = os.path.join(os.path.dirname(os.path.dirname(os.path.abspath(__file__))), "seeded", sid)
res = [l.strip() for l in open(os.path.join(d, "confirm.log"), errors="replace") if l.startswith("RESULT")]
if not res:
    sys.exit("no RESULT line in confirm.log")
opts = "" if opts == "-" else opts
meta = {"seed_id": sid, "property": prop, "breaks": breaks, "needs_to_manifest": needs, "cmake_options": opts,
        "confirmed": {"how": "lib/confirm_seed.sh in a scratch worktree: full ctest suite on the changed tree%s, demo on the changed tree, demo on a clean worktree" % ((" (%s)" % opts) if opts else ""),
                      "result": res[-1]},
        "detection": det, "files": ["patch.diff", "demo/", "MUTATION.md", "confirm.log"]}
json.dump(meta, open(os.path.join(d, "meta.json"), "w"), indent=1)
print(sid, res[-1])
