"""POSIX IPC names the library derives from user names (for cleanup of /dev/shm after crashed drivers)."""
import hashlib, os


def platform_key(name):
    return "/" + hashlib.sha1(name.encode()).hexdigest()[:13]


def shm_key(name):
    return platform_key(name + "_p_shm_object")


def sem_key(name):
    return platform_key(name + "_p_sem_object")


def files_for(name):
    """all /dev/shm entries that objects named `name` (PShm, PShmBuffer, PSemaphore) can leave behind"""
    sk = shm_key(name)
    return ["/dev/shm" + sk, "/dev/shm/sem." + sem_key(sk)[1:], "/dev/shm/sem." + sem_key(name)[1:]]


def cleanup(names):
    n = 0
    for nm in names:
        for f in files_for(nm):
            try:
                os.unlink(f)
                n += 1
            except OSError:
                pass
    return n


def leftovers(names):
    return [f for nm in names for f in files_for(nm) if os.path.exists(f)]
