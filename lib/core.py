"""Check context: evidence accounting, verdicts, known findings, trace validation helpers."""
import json, os, random, re, shutil, subprocess, sys, time, traceback
from concurrent.futures import ThreadPoolExecutor

sys.path.insert(0, os.path.dirname(os.path.abspath(__file__)))
import build, tlc  # noqa: E402

VERIF = build.VERIF
KNOWN = os.path.join(VERIF, "KNOWN_FINDINGS.txt")


class Machinery(Exception):
    """failure of the verification machinery itself (exit 2, never a VIOLATION)"""


def load_findings():
    out = []
    if os.path.exists(KNOWN):
        for line in open(KNOWN):
            line = line.strip()
            m = re.match(r"finding:\s+property=(\S+)\s+sig=(\S+)\s+(.*)", line)
            if m:
                out.append({"property": m.group(1), "sig": m.group(2), "what": m.group(3)})
    return out


class Ctx:
    def __init__(self, pid, tier, seed):
        self.pid, self.tier, self.seed = pid, tier, seed
        self.quick = tier == "quick"
        self.rng = random.Random(seed)
        self.t0 = time.time()
        self.rundir = os.path.join(build.BUILD, "run", "%s-%d" % (pid, os.getpid()))
        shutil.rmtree(self.rundir, ignore_errors=True)
        # janitor: scratch of earlier runs of this property whose process is gone (kept after a violation for inspection)
        base = os.path.dirname(self.rundir)
        if os.path.isdir(base):
            for d in os.listdir(base):
                if d.startswith(pid + "-") and d.split("-")[-1].isdigit() and not os.path.exists("/proc/" + d.split("-")[-1]):
                    shutil.rmtree(os.path.join(base, d), ignore_errors=True)
        os.makedirs(self.rundir)
        self.replaydir = os.path.join(build.BUILD, "replay", pid)
        self.states = 0
        self.transitions = 0
        self.traces = 0
        self.events = 0
        self.behaviours = 0
        self.samples = []
        self.design = []       # per TLC design run: dict
        self.notes = []
        self.drift = []
        self.assumptions = []
        self.known_hit = []    # findings matched this run
        self.violations = []   # unlisted violations (sig, what, replay)
        self.exhaustive = True
        self.extra = {}
        self.findings = [f for f in load_findings() if f["property"] == pid]
        self.nviol = 0

    # ---------- files
    def path(self, name):
        return os.path.join(self.rundir, name)

    def sample(self, s):
        if len(self.samples) < 6:
            self.samples.append(s)

    # ---------- M1: design-level TLC
    def design_check(self, module, cfg=None, workers=8, expect_actions=None, allow_unused=(), coverage=True, **kw):
        """BFS/simulate the spec; every named action must have been taken (non-vacuity).
        coverage=False for specs with deep RECURSIVE operators (TLC's coverage bookkeeping is
        quadratic there); their actions are counted from the dumped graph's edge labels instead."""
        r = tlc.run(module, cfg=cfg, workers=workers, coverage=coverage, **kw)
        name = os.path.basename(cfg or module)
        self.states += r.distinct
        self.transitions += r.generated
        self.design.append({"spec": module, "cfg": name, "distinct_states": r.distinct,
                            "states_generated": r.generated, "depth": r.depth, "wall_s": round(r.wall, 1),
                            "result": "ok" if r.ok else r.violation,
                            "actions": {k: v[0] for k, v in r.coverage.items()}})
        if not r.ok:
            return r
        for a, (taken, gen) in r.coverage.items():
            if gen == 0 and a not in allow_unused and a != "Init":
                raise Machinery("vacuous: action %s of %s never enabled" % (a, name))
        for a in expect_actions or ():
            if a not in r.coverage or r.coverage[a][1] == 0:
                raise Machinery("vacuous: action %s of %s never taken" % (a, name))
        return r

    def design_must_hold(self, module, cfg=None, **kw):
        r = self.design_check(module, cfg=cfg, **kw)
        if not r.ok:
            raise Machinery("design spec %s (%s) violated: %s %s\n%s" % (module, cfg, r.violation, r.violated_name, tlc._errsummary(r.out)[:3000]))
        return r

    # ---------- M4: trace validation
    def validate(self, module, cfg, trace_file, **kw):
        """returns (accepted, matched_prefix). A rejection is confirmed by a second run."""
        ok, matched, r = tlc.validate_trace(module, trace_file, cfg=cfg, **kw)
        self.states += r.distinct
        self.transitions += r.generated
        if ok:
            self.traces += 1
            return True, matched
        ok2, matched2, r2 = tlc.validate_trace(module, trace_file, cfg=cfg, **kw)
        if ok2:
            self.notes.append("unstable validation of %s (accepted on re-run)" % trace_file)
            self.traces += 1
            return True, matched2
        return False, matched2

    def validate_many(self, module, cfg, files, par=8, **kw):
        """validate several trace files in parallel; returns list of (file, accepted, matched)"""
        with ThreadPoolExecutor(par) as ex:
            res = list(ex.map(lambda f: (f,) + self.validate(module, cfg, f, **kw), files))
        return res

    # ---------- verdicts
    def violation(self, sig, what, files=()):
        for f in self.findings:
            if f["sig"] == sig:
                if f not in self.known_hit:
                    self.known_hit.append(f)
                    print("KNOWN-FINDING: property=%s %s" % (self.pid, f["what"]))
                return False
        self.nviol += 1
        for v in self.violations:
            if v["sig"] == sig:
                v["count"] = v.get("count", 1) + 1
                return True
        k = len(self.violations) + 1
        rd = os.path.join(self.replaydir, "%d" % k)
        shutil.rmtree(rd, ignore_errors=True)
        os.makedirs(rd)
        for f in files:
            try:
                shutil.copy(f, rd)
            except OSError:
                pass
        with open(os.path.join(rd, "README.txt"), "w") as fh:
            fh.write("property=%s\nsig=%s\n%s\nseed=%d tier=%s\n" % (self.pid, sig, what, self.seed, self.tier))
        self.violations.append({"sig": sig, "what": what, "replay": rd})
        print("VIOLATION property=%s replay=%s" % (self.pid, rd))
        print("  sig=%s: %s" % (sig, what))
        sys.stdout.flush()
        return True

    # ---------- evidence
    def write_evidence(self, status):
        cov = {
            "states": max(self.states, 0),
            "transitions": max(self.transitions, 0),
            "traces_validated_against_impl": self.traces,
            "samples": self.samples or ["(none)"],
            "exhaustive": bool(self.exhaustive),
            "design_runs": self.design,
            "impl_events_validated": self.events,
            "behaviours_replayed": self.behaviours,
            "drift": self.drift,
            "known_findings": [f["sig"] for f in self.known_hit],
            "unlisted_violations": self.violations,
            "notes": self.notes,
            "status": status,
        }
        cov.update(self.extra)
        ev = {
            "property_id": self.pid, "tier": self.tier, "seed": int(self.seed), "level": "model_checking",
            "coverage": cov, "assumptions": self.assumptions,
            "wall_s": round(time.time() - self.t0, 1), "violations": len(self.violations),
        }
        # evidence describes /repo; a run against a scratch tree (VERIF_REPO) keeps its record with its own build cache
        edir = os.path.join(VERIF, "evidence" if self.pid.startswith("C") else "evidence-extra") if build.REPO == "/repo" else os.path.join(build.BUILD, "evidence")
        os.makedirs(edir, exist_ok=True)
        p = os.path.join(edir, self.pid + ".json")
        with open(p + ".tmp", "w") as fh:
            json.dump(ev, fh, indent=1)
        os.rename(p + ".tmp", p)

    def cleanup(self):
        shutil.rmtree(self.rundir, ignore_errors=True)


def run_driver(cmd, timeout=300, env=None, cwd=None, stdin=None):
    """run a driver; returns (rc, output, timed_out)"""
    e = dict(os.environ)
    e.setdefault("ASAN_OPTIONS", "detect_leaks=0:abort_on_error=1:handle_abort=0:handle_segv=0")
    e.setdefault("UBSAN_OPTIONS", "print_stacktrace=1:halt_on_error=1:abort_on_error=1")
    if env:
        e.update(env)
    try:
        p = subprocess.run(cmd, stdout=subprocess.PIPE, stderr=subprocess.STDOUT, text=True, errors="replace",
                           timeout=timeout, env=e, cwd=cwd, input=stdin)
        return p.returncode, p.stdout, False
    except subprocess.TimeoutExpired as ex:
        out = ex.stdout or ""
        if isinstance(out, bytes):
            out = out.decode(errors="replace")
        return -1, out, True


def main(pid, fn):
    """entry used by ./check: runs fn(ctx) and maps the outcome to the exit-code contract."""
    import argparse
    ap = argparse.ArgumentParser()
    ap.add_argument("--tier", default=os.environ.get("VERIF_TIER", "quick"))
    ap.add_argument("--seed", type=int, default=int(os.environ.get("VERIF_SEED", "1") or 1))
    ap.add_argument("--replay", default=None)
    ap.add_argument("--keep", action="store_true")
    a = ap.parse_args(sys.argv[2:])
    tier = a.tier if a.tier in ("quick", "thorough") else "quick"
    ctx = Ctx(pid, tier, a.seed)
    ctx.replay = a.replay
    status = "ok"
    rc = 0
    try:
        fn(ctx)
        if ctx.violations:
            status, rc = "violation", 1
    except (Machinery, tlc.TLCError, build.BuildError) as ex:
        status, rc = "machinery_error", 2
        print("MACHINERY-ERROR property=%s: %s" % (pid, str(ex)[:6000]))
    except Exception:
        status, rc = "machinery_error", 2
        print("MACHINERY-ERROR property=%s:\n%s" % (pid, traceback.format_exc()))
    if rc == 2 and ctx.violations:
        # violations that were established before the machinery failed stand (e.g. a binding self-test run on traces of a faulty library)
        ctx.notes.append("machinery error after %d violation(s) had been established; the violations stand" % len(ctx.violations))
        status, rc = "violation", 1
    ctx.write_evidence(status)
    if not a.keep and rc == 0:
        ctx.cleanup()
    print("%s %s tier=%s seed=%d states=%d traces=%d wall=%.0fs known=%d violations=%d" % (
        pid, status, tier, a.seed, ctx.states, ctx.traces, time.time() - ctx.t0, len(ctx.known_hit), len(ctx.violations)))
    sys.exit(rc)
