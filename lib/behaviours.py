"""M2: behaviours out of TLC. Parses `-dump dot,actionlabels` graphs, computes edge covers by
walks, and parses TLA+ values printed by TLC into Python objects."""
import re
from collections import deque


# ---------------------------------------------------------------- TLA+ value parser
class _P:
    def __init__(self, s):
        self.s, self.i = s, 0

    def ws(self):
        while self.i < len(self.s) and self.s[self.i] in " \t\r\n":
            self.i += 1

    def peek(self, tok):
        self.ws()
        return self.s.startswith(tok, self.i)

    def eat(self, tok):
        self.ws()
        if not self.s.startswith(tok, self.i):
            raise ValueError("expected %r at %d in %r" % (tok, self.i, self.s[max(0, self.i - 20):self.i + 20]))
        self.i += len(tok)

    def value(self):
        self.ws()
        s = self.s
        if self.peek("<<"):
            self.eat("<<")
            out = []
            if not self.peek(">>"):
                while True:
                    out.append(self.value())
                    if self.peek(","):
                        self.eat(",")
                    else:
                        break
            self.eat(">>")
            return out
        if self.peek("{"):
            self.eat("{")
            out = []
            if not self.peek("}"):
                while True:
                    out.append(self.value())
                    if self.peek(","):
                        self.eat(",")
                    else:
                        break
            self.eat("}")
            return {"__set__": out}
        if self.peek("["):
            self.eat("[")
            rec = {}
            while True:
                self.ws()
                m = re.compile(r"[A-Za-z_][A-Za-z0-9_]*").match(s, self.i)
                name = m.group(0)
                self.i = m.end()
                self.eat("|->")
                rec[name] = self.value()
                if self.peek(","):
                    self.eat(",")
                else:
                    break
            self.eat("]")
            return rec
        if self.peek("("):   # function printed as (a :> b @@ c :> d)
            self.eat("(")
            f = {}
            while True:
                k = self.value()
                self.eat(":>")
                v = self.value()
                f[k if not isinstance(k, list) else tuple(k)] = v
                if self.peek("@@"):
                    self.eat("@@")
                else:
                    break
            self.eat(")")
            return f
        if self.peek('"'):
            self.i += 1
            j = self.i
            out = []
            while s[j] != '"':
                if s[j] == "\\":
                    j += 1
                out.append(s[j])
                j += 1
            self.i = j + 1
            return "".join(out)
        m = re.compile(r"-?\d+").match(s, self.i)
        if m:
            self.i = m.end()
            return int(m.group(0))
        m = re.compile(r"[A-Za-z_][A-Za-z0-9_]*").match(s, self.i)
        if m:
            self.i = m.end()
            w = m.group(0)
            return True if w == "TRUE" else False if w == "FALSE" else w
        raise ValueError("cannot parse at %d: %r" % (self.i, s[self.i:self.i + 30]))


def parse_value(text):
    return _P(text).value()


def parse_state(label):
    """'/\\ a = 1\n/\\ b = <<>>' -> dict"""
    out = {}
    text = label.replace("\\n", "\n").replace('\\"', '"').replace("\\\\", "\\")
    parts = re.split(r"(?:^|\n)/\\ ", text)
    for p in parts:
        p = p.strip()
        if not p:
            continue
        name, val = p.split(" = ", 1)
        out[name.strip()] = parse_value(val)
    return out


# ---------------------------------------------------------------- dot graphs
_NODE = re.compile(r'^(-?\d+) \[label="((?:[^"\\]|\\.)*)"(.*)$')
_EDGE = re.compile(r'^(-?\d+) -> (-?\d+) \[label="((?:[^"\\]|\\.)*)"')


class Graph:
    def __init__(self):
        self.labels = {}
        self.adj = {}
        self.init = None
        self.inits = []
        self.nedges = 0


def parse_dot(path):
    g = Graph()
    with open(path) as fh:
        for line in fh:
            m = _EDGE.match(line)
            if m:
                a, b, lab = int(m.group(1)), int(m.group(2)), m.group(3)
                g.adj.setdefault(a, []).append((lab, b))
                g.nedges += 1
                continue
            m = _NODE.match(line)
            if m:
                n = int(m.group(1))
                g.labels[n] = m.group(2)
                g.adj.setdefault(n, [])
                if "style = filled" in m.group(3):
                    g.inits.append(n)
                    if g.init is None:
                        g.init = n
    return g


def action_counts(g):
    c = {}
    for a, es in g.adj.items():
        for lab, b in es:
            name = lab.split("(")[0]
            c[name] = c.get(name, 0) + 1
    return c


def cover_walks(g, max_walk=None, rng=None, edge_filter=None):
    """Edge cover by walks from the initial state. Returns list of walks; a walk is a list of
    (label, dst_node). Every edge (passing edge_filter) is walked at least once."""
    todo = {}
    total = 0
    for a, es in g.adj.items():
        lst = [i for i, e in enumerate(es) if edge_filter is None or edge_filter(a, e)]
        if rng:
            rng.shuffle(lst)
        if lst:
            todo[a] = lst
            total += len(lst)
    walks = []
    cur = g.init
    walk = []

    def nearest(src):
        # BFS to the nearest node with unvisited edges; returns path [(label,dst)...] or None
        if src in todo:
            return []
        prev = {src: None}
        dq = deque([src])
        while dq:
            u = dq.popleft()
            for lab, v in g.adj[u]:
                if v not in prev:
                    prev[v] = (u, lab)
                    if v in todo:
                        path = []
                        x = v
                        while prev[x] is not None:
                            pu, pl = prev[x]
                            path.append((pl, x))
                            x = pu
                        path.reverse()
                        return path
                    dq.append(v)
        return None

    while total > 0:
        if max_walk and len(walk) >= max_walk:
            walks.append(walk)
            walk, cur = [], g.init
        if cur in todo:
            i = todo[cur].pop()
            if not todo[cur]:
                del todo[cur]
            total -= 1
            lab, dst = g.adj[cur][i]
            walk.append((lab, dst))
            cur = dst
            continue
        p = nearest(cur)
        if p is None:
            if cur == g.init:
                break   # remaining edges unreachable (should not happen)
            walks.append(walk)
            walk, cur = [], g.init
            continue
        for lab, dst in p:
            walk.append((lab, dst))
            cur = dst
    if walk:
        walks.append(walk)
    return walks


def parse_label(lab):
    """'SInsert(3)' -> ('SInsert', [3]);  'Step' -> ('Step', [])"""
    m = re.match(r"(\w+)(?:\((.*)\))?$", lab.replace('\\"', '"'))
    if not m:
        return lab, []
    args = []
    if m.group(2):
        args = parse_value("<<" + m.group(2) + ">>")
    return m.group(1), args


def cover_walks_dag(g, edge_filter=None, lookahead=True, max_len=None):
    """Edge cover for graphs that mostly progress (few cycles): every walk = shortest prefix from the
    initial state to a node with unvisited edges, then a greedy extension through unvisited edges
    (the extension stops once the walk has max_len steps; what is left gets walks of its own)."""
    todo = {}
    total = 0
    for a, es in g.adj.items():
        lst = [i for i, e in enumerate(es) if edge_filter is None or edge_filter(a, e)]
        if lst:
            todo[a] = lst
            total += len(lst)
    parent = {g.init: None}
    order = [g.init]
    dq = deque([g.init])
    while dq:
        u = dq.popleft()
        for lab, v in g.adj[u]:
            if v not in parent and (edge_filter is None or edge_filter(u, (lab, v))):
                parent[v] = (u, lab)
                order.append(v)
                dq.append(v)

    def prefix(u):
        path = []
        x = u
        while parent[x] is not None:
            pu, pl = parent[x]
            path.append((pl, x))
            x = pu
        path.reverse()
        return path

    walks = []
    for u in order:
        while u in todo:
            walk = prefix(u)
            cur = u
            while True:
                if max_len is not None and len(walk) >= max_len and len(walk) > len(prefix(u)):
                    break
                if cur in todo:
                    i = todo[cur].pop()
                    if not todo[cur]:
                        del todo[cur]
                    lab, dst = g.adj[cur][i]
                    walk.append((lab, dst))
                    cur = dst
                    continue
                nxt = None
                if lookahead:
                    for lab, v in g.adj[cur]:
                        if v in todo and v != cur and (edge_filter is None or edge_filter(cur, (lab, v))):
                            nxt = (lab, v)
                            break
                if nxt is None:
                    break
                walk.append(nxt)
                cur = nxt[1]
            walks.append(walk)
    return walks
