You are helping test a verification harness for the C library plibsys (portable system library: threads, locks, IPC, containers, sockets, hashes). Your job: introduce ONE realistic, subtle bug into the library that breaks the semantic property quoted below, while the library still compiles and its existing test suite still passes.

Working copy: a scratch git worktree of the library at @W@ (work ONLY there; do not touch /repo or /verif or any other directory outside @W@ and /tmp). The property text is also in @W@.property.txt (one directory up, next to the worktree).

PROPERTY TO BREAK:
@PROP@

Rules:
1. Edit only files under @W@/src (library sources). Do not edit tests. The change must be small (a few lines) and look like a plausible human mistake or refactoring slip — not a crude "return wrong constant" that ordinary use exposes at once.
2. The bug must need something SPECIFIC to manifest: a particular interleaving of threads/processes, a crash or fault at a particular point, a multi-step sequence of operations, an unusual input/size/boundary value, or two cooperating code sites that each look fine alone. Ordinary single-threaded happy-path use must still work.
3. Build and run the existing tests to make sure they still pass:
     cd @W@ && cmake -G Ninja -S . -B _build -DCMAKE_BUILD_TYPE=Debug >/dev/null && cmake --build _build >/dev/null && ctest --test-dir _build -j8 --timeout 900
   Some models are selected at configure time: -DPLIBSYS_RWLOCK_MODEL=general selects src/prwlock-general.c (default on Linux is the pthread-based src/prwlock-posix.c); -DPLIBSYS_ATOMIC_MODEL=sync|sim selects the atomic/spinlock models. If you mutate a non-default model, build and test that configuration too (a second build dir), and say so.
   All tests relevant to your change must pass with the bug in place (the whole suite takes ~8 minutes; run at least the tests of the module you changed plus a full run once if time permits; report exactly what you ran).
4. Write a demonstration that FAILS with your change and PASSES on the unmodified sources: a small C program (link against the built library in _build, headers in src/ and _build/src) or a script, saved as @W@/demo/ (create that directory) with a run.sh (run.sh MUST honour the environment variable ROOT=<path of the source tree to test>, defaulting to its own parent directory, and build that tree itself if needed in a build directory under $ROOT, so the same demo can be pointed at a clean copy) that builds and runs it and exits 0 when the property holds and non-zero when it is violated. If the bug needs a rare interleaving, the demo may force it (sleeps, yields, many iterations, signals, killing a process at a chosen point, LD_PRELOAD/--wrap of a system call) — but it must demonstrate the violation on the mutated tree reliably (say at least 8 of 10 runs) and never fail on the clean tree. Verify both (use `git stash` or a second clean build to check the clean tree).
5. Save the change as a unified diff at @W@/mutation.diff (`git -C @W@ diff -- src > @W@/mutation.diff`), and write @W@/MUTATION.md with: which property it breaks and why, what exactly is needed for it to manifest, which existing tests you ran and that they passed, and how to run the demo (with the outputs you observed on the mutated and on the clean tree).
6. There is no network. Tools available: gcc, clang, cmake, ninja, gdb, valgrind, python3. Do not install anything.

Final answer: a short summary (what the bug is, what triggers it, test results, demo results). Be honest if you could not make the existing tests pass or could not make the demo reliable.


Earlier experiments already used these ideas, so do something DIFFERENT, in a different function or mechanism:
@USED@
Prefer a clause of the property, a code path, an API entry point, a data-structure variant or a build configuration that those ideas did not touch; rarely used entry points, error paths and boundary values are fair game. Build in a fresh directory of your own (e.g. -B _bld) if a _build directory already exists in the worktree.