#!/usr/bin/env python3
"""usage: mkprompt.py <property id> <worktree name>  -- writes /tmp/mut/<name>.prompt.txt and .property.txt for a mutation sub-agent:
the property text, the rules, and one line per idea already used for that property (from seeded/*/meta.json)."""
import glob, json, os, sys
pid, name = sys.argv[1:3]
V = os.path.dirname(os.path.dirname(os.path.abspath(__file__)))
prop = [json.loads(l) for l in open(os.path.join(V, "properties.jsonl")) if l.strip()]
p = [x for x in prop if x["id"] == pid][0]
ptxt = "%s — %s\n\n%s\n\nQuantifier: %s\n" % (p["id"], p["title"], p["statement"], p["quantifier"]["text"])
used = []
for m in sorted(glob.glob(os.path.join(V, "seeded", pid + "-*", "meta.json"))):
    used.append("- " + json.load(open(m))["breaks"])
W = "/tmp/mut/" + name
tpl = open(os.path.join(V, "lib", "mutation_prompt.tpl")).read()
open(W + ".property.txt", "w").write(ptxt)
open(W + ".prompt.txt", "w").write(tpl.replace("@W@", W).replace("@PROP@", ptxt).replace("@USED@", "\n".join(used)))
print(W + ".prompt.txt", len(used), "ideas to avoid")
